#!/bin/bash
# Builds the driver and warms the Go build cache (plain and -race) so that checks start fast.
# Offline: everything comes from /repo, /verif and the module cache.
set -e
cd "$(dirname "$0")"
export GOFLAGS=-mod=mod GOPROXY=off GOSUMDB=off GOTOOLCHAIN=local GONOSUMDB='*' GONOSUMCHECK=1
mkdir -p bin evidence replays
cd mc
cp -f /repo/go.sum go.sum
go build -o ../bin/verifcheck ./cmd/verifcheck
go build -o /dev/null ./cmd/worker
echo "setup done"
