#!/usr/bin/env python3
"""Generates planted/<id>.diff: one realistic property-breaking change per property (each verified
to compile and to pass goyang's own suite). Applied to /repo only transiently by tools/mutant.sh."""
import subprocess, os, sys
R='/repo'
P=[
("C01","pkg/yang/entry.go",'''			if mod == nil {
				e.addError(fmt.Errorf("cannot find module giving prefix %q within context entry %q", prefix, e.Path()))
				return nil
			}
''',''''''),
("C02","pkg/yang/lex.go","""		case ' ', '\\r', '\\n', '\\t', ';', '"', '\\'', '{', '}', eof:
			l.emit(tUnquoted)""","""		case ' ', '\\n', '\\t', ';', '"', '\\'', '{', '}', eof:
			l.emit(tUnquoted)"""),
("C03","pkg/yang/ast.go","""				fv := v.Elem().Field(i)
				if !fv.IsNil() {
					return errors.New(stmt.Keyword + ": already set")
				}

				// Use build""","""				fv := v.Elem().Field(i)
				if !fv.IsNil() && len(stmt.statements) > 0 {
					return errors.New(stmt.Keyword + ": already set")
				}

				// Use build"""),
("C04","pkg/yang/entry.go","""				ce.Parent = ne
""",""""""),
("C05","pkg/yang/entry.go","""	sort.Sort(elist)
""","""	if len(elist) > 3 {
		sort.Sort(elist)
	}
"""),
("C06","pkg/yang/entry.go","""			de := v.dup()
			de.Parent = &ne
			ne.Dir[k] = de""","""			dd := *v
			de := &dd
			de.Parent = &ne
			ne.Dir[k] = de"""),
("C07","pkg/yang/modules.go","""		if processed == 0 {
			break
		}""","""		if processed >= 0 {
			break
		}"""),
("C08","pkg/yang/entry.go","""				case DeviationAdd, DeviationReplace:
					if devSpec.Config != TSUnset {""","""				case DeviationAdd, DeviationReplace:
					if devSpec.Config != TSUnset && deviatedNode.Kind == LeafEntry {"""),
("C09","pkg/yang/types.go","""		for n := Node(t); n != nil; n = n.ParentNode() {""","""		for n := Node(t).ParentNode().ParentNode(); n != nil; n = n.ParentNode() {"""),
("C10","pkg/yang/types_builtin.go","""		if cr[i].Max.Less(r1.Min) && cr[i].Max.addQuantum(1).Less(r1.Min) {""","""		if cr[i].Max.Less(r1.Min) && (cr[i].Max.addQuantum(1).Less(r1.Min) || (cr[i].Max.Negative && !r1.Min.Negative)) {"""),
("C11","pkg/yang/identity.go","""range i.Identity.Base {""","""range i.Identity.Base[:1] {"""),
("C12","pkg/yang/entry.go","""	case e.Kind == OutputEntry:
		return true
""",""""""),
("C13","pkg/yang/modules.go","""o.FullName() < fullName""","""o.FullName() > fullName"""),
("C14","pkg/yang/types_builtin.go","""e.unique && ok {""","""e.unique && ok && value >= 0 {"""),
("C15","pkg/yang/types_builtin.go","""	if n.Value <= MaxInt64 {""","""	if n.Value <= MaxInt64+1 {"""),
("C16","pkg/yang/lex.go","""	l.col += utf8.RuneCountInString(last)""","""	l.col += len(last)"""),
("C17","pkg/yang/entry.go","""		case part == "..":""","""		case part == ".." || strings.HasSuffix(part, ":.."):"""),
("C18","pkg/yang/modules.go","""	if o := m[fullName]; o != nil {
""","""	if o := m[fullName]; o != nil {
		m[fullName] = mod
"""),
("C19","pkg/yang/modules.go","""	ms.nsMu.Lock()
	defer ms.nsMu.Unlock()
""",""""""),
]
os.makedirs('/verif/planted',exist_ok=True)
assert subprocess.run(['git','-C',R,'status','--porcelain'],capture_output=True,text=True).stdout=='' , "repo dirty"
for pid,f,old,new in P:
    p=os.path.join(R,f); s=open(p).read()
    if s.count(old)<1:
        print(pid,"PATTERN NOT FOUND"); continue
    open(p,'w').write(s.replace(old,new,1))
    d=subprocess.run(['git','-C',R,'diff'],capture_output=True,text=True).stdout
    open(f'/verif/planted/{pid}.diff','w').write(d)
    subprocess.run(['git','-C',R,'checkout','--','.'])
    print(pid,"ok",len(d))
