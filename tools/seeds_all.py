#!/usr/bin/env python3
"""Runs every seeded change under /verif/seeded against the check(s) of the property it breaks (patch
applied transiently to /repo, always undone) and rewrites seeded/<name>/meta.json and seeded/TABLE.md."""
import json, os, subprocess, sys, glob
NEEDS = {
 "C01-include-linked-before-check": ("C01", ["C01"], "module includes a submodule that belongs to another, unloaded module and declares an identity: the rejected include stays linked and identity resolution dereferences nil"),
 "C02-escape-over-flag": ("C02", ["C02"], "multi-line double-quoted string whose continuation line starts (left of the quote column) with a backslash escape followed by blanks: the blanks are stripped"),
 "C03-found-key-prefix-stripped": ("C03", ["C03"], "an extension statement whose local name equals a mandatory keyword (x:type, x:prefix, x:namespace, x:belongs-to) satisfies or trips the required-substatement checks"),
 "C04-fixchoice-skips-wrapped": ("C04", ["C04", "C06"], "a choice nested below a shorthand (container/list) member of another choice keeps non-case children"),
 "C05-tiebreak-by-prefix": ("C05", ["C05", "C11"], "two modules declaring the same prefix, each with an identity of the same name under one base, and an unlucky map iteration order"),
 "C06-leaflist-listattr-shared": ("C06", ["C06"], "grouping with a leaf-list used twice, min/max-elements of one instance deviated: all instances change"),
 "C07-progress-counted-late": ("C07", ["C07"], "three-deep augment chain whose modules are visited in reverse order of dependency (module names decide): spurious 'augment not found'"),
 "C08-replace-default-reuses-slice": ("C08", ["C06", "C08"], "deviate replace default on one of two uses of a grouping leaf wrote into the slice shared by all copies (neutralised on the current tree by fix 567b7e3, which gives every copy its own Default slice)"),
 "C09-own-prefix-fast-path": ("C09", ["C09"], "reference spelled with the module's own prefix, a typedef of that name in an enclosing scope and another at module top level: binds to the top-level one"),
 "C10-less-negative-fraction": ("C10", ["C10", "C15"], "two negative decimal64 bounds with equal whole part and different fraction compare the wrong way round"),
 "C11-seen-by-prefixed-name": ("C11", ["C11", "C05"], "two modules with the same own prefix and equally named identities under a common base: one is dropped from Values, cycles between them go unreported"),
 "C12-outermost-augment-wins": ("C12", ["C12", "C07"], "augment by module c into a node that module b augmented into a: c's nodes report b's namespace"),
 "C13-dup-check-via-bare-name": ("C13", ["C13"], "an older revision loaded a second time after a newer revision is accepted silently and replaces the first copy"),
 "C14-last-minus-one-sentinel": ("C14", ["C14"], "highest enum value exactly -1, then an explicit value below -1, then an implicit member"),
 "C15-merged-overflow-check": ("C15", ["C15"], "Number.Int() of positive 2^63 returns -2^63 without error"),
 "C16-multiline-skip-bytes": ("C16", ["C16"], "multi-line block comment or single-quoted string with a multi-byte character on its last line: columns of the rest of that line are too large"),
 "C17-prefix-resolved-at-tree-root": ("C17", ["C17"], "absolute path looked up from a node grafted by another module: the prefix is resolved in the augmented module instead of the module that defines the start node"),
 "C18-include-mark-nested": ("C18", ["C18"], "A imports B imports C, C missing at the first Process and loaded later: A stays marked done with an unresolved import"),
 "C19-double-checked-byns": ("C19", ["C19"], "first-time namespace lookup in one goroutine overlapping any namespace lookup in another: unlocked map read races with the locked insert"),
 "C01b-augment-leaflist-guard": ("C01", ["C01", "C07"], "augment whose target is a leaf-list (IsLeaf() is false for it): merge writes into a nil map"),
 "C02b-quoted-plus-concat": ("C02", ["C02"], "three adjacent quoted strings whose middle one is exactly \"+\" are concatenated instead of rejected"),
 "C03b-value-built-directly": ("C03", ["C03"], "a single-valued plain-argument statement (description, prefix, config, ...) written with a non-empty body: unknown keywords below it are accepted, extensions and descriptions dropped"),
 "C04b-empty-dir-map-shared": ("C04", ["C04", "C06", "C07"], "an empty container (non-nil, empty child map) copied to two places and augmented in one: both copies share the map (also makes the library overflow its stack on some inputs)"),
 "C05b-inkeyorder-dedup-before-sort": ("C05", ["C05"], "module X with a revision and module Y whose name is X's name plus a character sorting below '@', both touching one node, and an unlucky map order"),
 "C06b-uses-records-namespace-early": ("C06", ["C06", "C12"], "grouping with a uses nested below one of its own nodes, used from another module: the nested copies report the defining module's namespace"),
 "C07b-find-submodule-own-prefix": ("C07", ["C07"], "augment written in a submodule whose path starts with the belongs-to prefix: resolved in the submodule's private tree"),
 "C08b-leaflist-listattr-islist": ("C08", ["C08", "C06"], "grouping leaf-list used twice, min/max-elements of one instance deviated: the others change too"),
 "C09b-findexternal-owner-context": ("C09", ["C09"], "foreign-prefixed type inside a submodule whose module binds that prefix differently (or not at all)"),
 "C10b-contains-before-sort": ("C10", ["C10"], "parent with two disjoint intervals (depth 2) and a child written out of ascending order: a true subset is rejected"),
 "C11b-submodule-base-owner-imports": ("C11", ["C11"], "prefixed base in a submodule resolved through the owning module's imports instead of the submodule's"),
 "C12b-lazy-output-kind-input": ("C12", ["C12", "C07"], "augment into the output of an rpc/action that writes no output statement: the on-demand entry has kind input and its nodes are not read-only"),
 "C13b-process-skips-older-revisions": ("C13", ["C13"], "two revisions of one module loaded: the older one's own imports/includes are never resolved"),
 "C14b-setnext-skips-name-check": ("C14", ["C14"], "an implicit member repeating an earlier member name is accepted"),
 "C15b-scale-after-parse": ("C15", ["C15"], "decimal literal with fewer fraction digits than requested whose scaled mantissa overflows int64 wraps silently"),
 "C16b-token-line-at-emit": ("C16", ["C16"], "syntax error whose offending token is a quoted string spanning lines: line of the closing quote, column of the opening one"),
 "C17b-dotdot-after-rpc-case": ("C17", ["C17"], "a '..' or '.' step evaluated while standing on an rpc/action node returns nil"),
 "C18b-resolving-mark-not-cleared": ("C18", ["C18"], "a typedef whose type fails to resolve keeps its cycle mark: every later Process reports a bogus self-reference"),
 "C19b-resolving-flag-on-builtin-typedefs": ("C19", ["C19"], "independent module sets processed in parallel write a flag on the shared built-in typedef objects (race; transient bogus cycle error)"),
 "C01c-cycle-guard-only-direct-uses": ("C01", ["C01"], "a grouping whose uses of itself (or of the next grouping on a cycle) is nested inside a container: never marked as being expanded, the recursion overflows the stack"),
 "C02c-tcol-bytes-after-skip": ("C02", ["C02"], "a comment or single-quoted piece holding a multi-byte rune on the line of an opening double quote, and a continuation line indented deeper than the quote"),
 "C03c-ext-scratch-shared-per-type": ("C03", ["C03"], "a node with an extension statement that contains, later in its body, a descendant of the same node type with an extension of its own, in a process that built such a node before"),
 "C04c-postaugment-sweep-dedup-by-name": ("C04", ["C04"], "two revisions of a module loaded, an augment into the older one (import by revision-date) that collides or carries a bad body: the late error is never swept"),
 "C05c-prefix-memo-shared-by-family": ("C05", ["C05", "C09", "C11"], "a module and its submodule bind one prefix to two different modules and both resolve a typedef or identity base through it"),
 "C06c-findgrouping-seen-owner": ("C06", ["C06"], "a submodule that includes a sibling and, inside a grouping it defines, uses a grouping defined at the top of its module"),
 "C07c-empty-dir-map-shared": ("C07", ["C07", "C06"], "grouping with a childless container or case used twice, then an augment into one copy"),
 "C08c-deviate-parent-cache-stale": ("C08", ["C08"], "one module: a deviation of P/x, then not-supported on P (or above), then a deviation of P/y with the same parent spelling: applied to the detached subtree, not reported"),
 "C09c-enum-equal-sorted-sets": ("C09", ["C09"], "a union with two enumeration (or bits) members that have the same names and the same set of values in another assignment: the second member is dropped"),
 "C10c-coalesce-addquantum-wrap": ("C10", ["C10"], "a range part ending at 18446744073709551615 followed by a part nested in it: addQuantum wraps to 0"),
 "C11c-closure-only-for-grown": ("C11", ["C11", "C18"], "Process, load a module that derives from an identity which is itself derived, Process again: the ancestor's list is not recomputed"),
 "C12c-dup-rpc-io-parent-lost": ("C12", ["C12", "C04", "C06"], "an action in a grouping used under config false or in another module, or added by augment: copied input/output keep the parent of the source tree"),
 "C13c-findindir-prefix-swapped": ("C13", ["C13"], "a dated file of a module whose name is a prefix of the wanted name (acme@2021.yang for acme-types, lib@2021 for lib@2020-01-01) in an earlier search-path directory"),
 "C14c-set-same-value-noop": ("C14", ["C14"], "a bits type stating one bit name twice, the second resolving to the position the first got"),
 "C15c-less-scaleup-wrap": ("C15", ["C15"], "two decimals with different fraction digits whose coarser value times 10^d wraps around 2^64"),
 "C16c-backup-by-byte-width": ("C16", ["C16"], "a multi-byte rune inside an unquoted token: every later position on the line (or in the file) is too small"),
 "C17c-dup-output-parent-stale": ("C17", ["C17", "C04"], "a copied rpc/action (grouping, augment body, submodule) with an output and a lookup that leaves the output through '..'"),
 "C20c-nested-writer-flattened": ("C20", ["C20"], "an indenting writer on top of another indenting writer with writes switching between the two in the middle of a line, or an inner prefix containing a line break"),
 "C18c-reset-after-early-return": ("C18", ["C18"], "a successful Process (or a read) fills the entry cache, then a load makes the next Process stop at linkage: the trees read afterwards are the stale ones"),
 "C19c-fields-of-type-global-map": ("C19", ["C19"], "two goroutines loading independent module sets while a node type is converted for the first time in the process: unsynchronised package-level map"),
 "C01d-asrangeint-returns-value-with-error": ("C01", ["C01"], "decimal64 with fraction-digits 64 or 100 (out of range, low byte >= 64) and a range written with min/max only: division by pow10 = 0"),
 "C02d-crlf-normalised-in-input": ("C02", ["C02"], "CR LF inside a single-quoted argument"),
 "C03d-current-sorts-ast-revisions": ("C03", ["C03"], "a module with two or more revision statements not written newest first: registering the module sorts the AST field in place"),
 "C08d-deviation-dedup-by-adjacency": ("C08", ["C08"], "a deviating module with a revision and another loaded module whose name extends its name with '-', '.' or a digit: its deviations are applied twice"),
 "C04d-augment-nondir-target-not-skipped": ("C04", ["C04", "C07"], "an augment whose path names a leaf or leaf-list before the implied cases exist, in a module with no other skipped augment: dropped without error"),
 "C05d-current-first-revision": ("C05", ["C05", "C13"], "a module listing its revisions oldest first, loaded next to the older revision: the second load is rejected, imports bind to whichever came first"),
 "C06d-submodule-prefix-owner-imports-first": ("C06", ["C06", "C09", "C11"], "a grouping in a submodule with a leaf whose type prefix the owning module binds to another module"),
 "C07d-namespace-outermost-override": ("C07", ["C07", "C12"], "an augment into a subtree that another module's augment grafted (three modules): the outermost override wins"),
 "C09d-typedefs-only-top-level-eager": ("C09", ["C09"], "an unused typedef in an inner scope with an unknown or cyclic base: never resolved, never reported"),
 "C10d-decimal-scale-after-parseint": ("C10", ["C10", "C15"], "a decimal64 bound written with fewer fraction digits than the type whose scaled value leaves the 64-bit range and wraps into place"),
 "C11d-typedef-identityref-base-owner-context": ("C11", ["C11"], "an identityref typedef in a submodule whose base prefix means something else (or nothing) in the owning module"),
 "C12d-uses-pins-namespace-in-grouping": ("C12", ["C12", "C06"], "a grouping that uses another grouping, defined in one module and used from another: the inner nodes keep the defining module's namespace"),
 "C13d-current-first-revision": ("C13", ["C13"], "a module header with several revisions not written newest first"),
 "C14d-value-int64-cast-wraps": ("C14", ["C14"], "an enum value or bit position close to 2^64 that wraps back into the legal window"),
 "C15d-equal-struct-compare-negative-zero": ("C15", ["C15"], "negative zero against zero at equal fraction digits"),
 "C16d-concat-token-last-piece": ("C16", ["C16"], "a syntax error whose offending token is a quoted string written as several pieces joined by + on several lines"),
 "C17d-implied-case-parent-choice-module": ("C17", ["C17"], "a lookup starting at the implied case of a shorthand member that another module contributed to the choice, with a prefix the two modules bind differently"),
 "C18d-closure-only-for-grown": ("C18", ["C18", "C11"], "identity chain of three levels over three modules, the last loaded after a Process"),
 "C19d-minmax-writes-builtin-range": ("C19", ["C19"], "min/max keyword restriction on a built-in range resolved in two goroutines: write into the package-level range array"),
 "C20d-trimsuffix-by-content": ("C20", ["C20"], "a chunk that ends in the middle of a line with bytes equal to the prefix"),
 "C01e-unhashable-error-in-geterrors": ("C01", ["C01", "C08"], "a deviate statement carrying a type that does not resolve: the error value is an unhashable struct and GetErrors uses errors as map keys"),
 "C02e-latin1-byte-append": ("C02", ["C02"], "a character U+0080..U+00FF inside a double-quoted string is appended as one raw byte"),
 "C03e-statement-keyword-accepted": ("C03", ["C03"], "a substatement spelled Statement: accepted, overwrites the node's back reference"),
 "C04e-bounds-error-after-last-sweep": ("C04", ["C04"], "a deviation that makes min-elements exceed max-elements: the error is recorded on the node after the last sweep"),
 "C05e-pattern-append-shared-array": ("C05", ["C05", "C09"], "typedefs derived from a typedef with 3 or 5 accumulated patterns, each adding one: they write into one backing array, the last resolved wins"),
 "C06e-deviate-type-written-in-place": ("C06", ["C06", "C08"], "deviate replace type on one instance of a grouping leaf overwrites the YangType all copies share"),
 "C07e-merge-skips-same-node-collision": ("C07", ["C07"], "an augment whose body uses a grouping the target already uses: the colliding nodes are dropped silently"),
 "C08e-elements-default-means-absent": ("C08", ["C08"], "deviate with max-elements unbounded or min-elements 0: treated as not given"),
 "C09e-resolving-set-by-bare-name": ("C09", ["C09", "C05"], "a valid chain through two different typedefs of the same name (across imports or by shadowing), depending on dictionary order"),
 "C10e-decimal64-table-fd18-nil": ("C10", ["C10"], "decimal64 with fraction-digits exactly 18: empty base range"),
 "C11e-findexternal-cache-by-own-prefix": ("C11", ["C09"], "two importers with the same own prefix binding one import prefix to different modules with same-named identityref typedefs (a typedef lookup: C09's domain; C11's own space has no such pair)"),
 "C12e-instantiating-module-outermost": ("C12", ["C12", "C07"], "an augment into a subtree grafted by another module's augment: InstantiatingModule returns the outer module"),
 "C13e-submodule-own-includes-skipped": ("C13", ["C13"], "a submodule using a typedef of a submodule only it includes"),
 "C14e-bitfield-max-off-by-one": ("C14", ["C14"], "bit position 4294967296, explicit or assigned after 4294967295"),
 "C15e-integral-fastpath-wrap": ("C15", ["C15", "C10"], "ParseDecimal of a literal without a point whose scaled value wraps around 2^64 to something below 2^63"),
 "C16e-findexternal-root-source": ("C16", ["C16"], "unknown type or prefix with a foreign prefix: reported at the module statement"),
 "C17e-empty-action-flags-parent-rpc": ("C17", ["C17"], "a container holding an action without input and output: lookups below the container fail"),
 "C18e-live-typedict-on-failed-build": ("C18", ["C18"], "a rejected text with a nested typedef that does not resolve, built before the failure point"),
 "C19e-findmodule-writes-import-module": ("C19", ["C19"], "concurrent readers resolving an import prefix write Import.Module on the shared AST"),
 "C20e-prefix-subtract-after-partial-update": ("C20", ["C20"], "a short write in a call whose line state before the chunk differs from the state after it"),
 "C01f-stray-comment-close-loops": ("C01", ["C01", "C02"], "a stray */ outside comments and strings: the lexer emits empty tokens forever"),
 "C02f-inpattern-cleared-by-plus": ("C02", ["C02"], "a pattern argument written as several double-quoted pieces: the pieces after the first are not lexed in pattern mode"),
 "C03f-extension-keyword-first-colon": ("C03", ["C03"], "a keyword with two or more colons is accepted and filed as an extension statement (NOT counted as property-breaking: C03 files prefixed keywords under the extensions and does not say whether a:b:c is prefixed)"),
 "C04f-augment-mods-dedup-by-name": ("C04", ["C04"], "two revisions of a module loaded, the older one has a top-level augment: never applied, never reported"),
 "C05f-failed-typedef-memo": ("C05", ["C05"], "a typedef derivation cycle of two or more members: one error naming whichever member is entered first"),
 "C06f-dup-rpc-io-parent-dropped": ("C06", ["C06", "C12"], "an action with input/output in a grouping: the copies' input and output keep the template's parent"),
 "C07f-augmentable-rejects-lazy-io": ("C07", ["C07"], "an augment of the input or output an rpc or action does not write"),
 "C08f-deviates-grouped-by-kind": ("C08", ["C08"], "one deviation with three deviate statements in which a kind comes back after another kind"),
 "C09f-owner-prefix-before-submodule-imports": ("C09", ["C09"], "a submodule with a belongs-to prefix of its own that imports a module under the prefix its owner declares for itself"),
 "C10f-contains-search-offset": ("C10", ["C10"], "a multi-part restriction of a multi-part parent with a part (not the last) in a parent part other than the first"),
 "C11f-cycle-check-via-getvalue-name": ("C11", ["C11"], "a derivation cycle whose members have namesakes in an earlier-sorting module that derive from the cycle"),
 "C12f-readonly-shortcut-input-notification": ("C12", ["C12"], "an action or notification nested below config false data"),
 "C13f-find-compares-submodule-with-root": ("C13", ["C13", "C07"], "an augment written in a submodule that targets a node of its own module through the belongs-to prefix"),
 "C14f-enum-table-reused-on-retry": ("C14", ["C14", "C18"], "an invalid enum or bits member list resolved a second time (second Process, GetModule)"),
 "C15f-parseint-errrange-dropped": ("C15", ["C15", "C10"], "an integer literal of magnitude 2^64 or more is clamped instead of rejected"),
 "C16f-skipindent-expanded-width-in-col": ("C16", ["C16"], "a double-quoted string with a tab-indented continuation line and another statement after the closing quote on that line"),
 "C17f-module-by-bare-name": ("C17", ["C17"], "two revisions loaded, an absolute path whose prefix denotes the older one"),
 "C18f-getmodule-serves-cached-entry": ("C18", ["C18"], "GetModule for a loaded module after a load or after a failing Process"),
 "C19f-entry-cache-memo-under-rlock": ("C19", ["C19"], "concurrent cache-hit lookups of two different nodes of one set"),
 "C20f-blockwise-write-count": ("C20", ["C20"], "a single Write of more than 8192 bytes with a fault in a middle block of 4096"),
 "C01g-identityset-index-stale-cycle": ("C01", ["C01", "C11"], "a derivation cycle reached after 17 or more identities were collected: stack overflow"),
 "C02g-punct-run-overflows-channel": ("C02", ["C02"], "nine or more punctuation tokens in a row (nesting depth 8): tokens beyond the channel capacity are dropped"),
 "C03g-unstable-sort-32-substatements": ("C03", ["C03"], "a statement with 32 or more substatements whose keywords are not in alphabetical order: same-keyword siblings permuted"),
 "C04g-entry-cache-bound": ("C04", ["C04"], "16384 converted statements in one set: later trees are not cached, Process works on throw-away trees"),
 "C05g-identityset-17th-unindexed": ("C05", ["C05", "C11"], "17 or more derived identities with one reached along two paths: a duplicate that changes with map order"),
 "C06g-grouping-index-drops-prefix": ("C06", ["C06"], "a scope with 17 or more groupings, one named like an imported grouping: uses b:target binds to the local one"),
 "C07g-splitpath-8-slots-augment": ("C07", ["C07", "C17"], "an augment whose target path has 9 or more steps"),
 "C08g-splitpath-truncates-deviation": ("C08", ["C08", "C17"], "a deviation whose target path has 8 or more steps: applied to the ancestor at depth 7"),
 "C09g-typedef-name-64-bytes": ("C09", ["C09"], "a typedef whose name is 64 bytes or longer"),
 "C10g-nine-parts-inline-split": ("C10", ["C10"], "a restriction of exactly nine parts loses the ninth"),
 "C11g-hoist-level-slice-aliasing": ("C11", ["C11"], "five submodules on three include levels (m: s1 s2; s1: s3 s4; s2: s5)"),
 "C12g-dup-block-realloc-32": ("C12", ["C12"], "a grouping or augment child with more than 32 nodes below it"),
 "C13g-lastdir-first-on-long-path": ("C13", ["C13"], "a search path of 9 or more directories and an earlier successful lookup in a later directory"),
 "C14g-bitword-value-64": ("C14", ["C14"], "two enum members with the value 64"),
 "C15g-float-fastpath-2-52-band": ("C15", ["C15"], "a decimal whose mantissa lies in [2^52, 2^53): last digit printed off by one"),
 "C16g-plain-run-bytes-in-col": ("C16", ["C16"], "a double-quoted string with a plain run of 32 or more bytes containing a multi-byte character, and a position later on the line"),
 "C17g-splitpath-16-slashes": ("C17", ["C17"], "a path with exactly 16 slashes"),
 "C18g-prefix-index-caches-missing": ("C18", ["C18"], "a module with 8 or more imports, one of them loaded only after a first Process"),
 "C19g-sorted-dir-cache-17-children": ("C19", ["C19"], "concurrent Print of a directory with 17 or more children"),
 "C20g-scratch-256-estimate-short": ("C20", ["C20"], "one Write at a line start, not ending in a line break, of about 250 to 256 bytes"),
 "C01h-errorset-8-slots-doubling-returns": ("C01", ["C01"], "nine or more distinct errors at the bottom of a chain of 23 or more groupings nested through containers: exponential again"),
 "C02h-indent-fastpath-64-spaces": ("C02", ["C02"], "a multi-line double-quoted string opening at column 64 or later with a continuation line of 65 or more blanks"),
 "C03h-reserve-copy-drops-earlier-run": ("C03", ["C03"], "one keyword in two runs under a node, the later run of 16 or more consecutive statements: the earlier ones vanish from the field"),
 "C04h-uses-block-move-12": ("C04", ["C04"], "12 or more uses statements directly in one node of a module body: children of the grouping's directories keep the orphaned parent"),
 "C05h-geterrors-cap-100-before-sort": ("C05", ["C05"], "more than 100 distinct errors in one tree: a map-order dependent subset survives"),
 "C06h-copynode-shares-default-array": ("C06", ["C06"], "a leaf-list with 3, 5..7, 9..15 defaults directly in a grouping used twice, deviate add default on two instances"),
 "C07h-prefix-index-by-module-name": ("C07", ["C07"], "two revisions of a module, both with 8 or more imports, binding a prefix differently, each with an augment through it"),
 "C08h-import-index-sorted-by-name": ("C08", ["C08", "C09"], "a deviating module with more than 16 imports whose prefixes sort unlike the module names"),
 "C09h-shared-pattern-set-8": ("C09", ["C09"], "a typedef with 8 or more patterns and two types adding the same further pattern"),
 "C10h-range-memo-hash-collision": ("C10", ["C10"], "two restriction texts of equal length with the same FNV-1a-32 hash parsed one after the other (NOT caught: needs a pair found by brute force against the memo's hash function)"),
 "C11h-sortidentities-run-by-wrong-slice": ("C11", ["C11", "C05"], "a closure of more than 32 identities with names repeated across modules: order follows map iteration"),
 "C12h-ns-index-stale-after-unrevisioned-add": ("C12", ["C12", "C18"], "16 or more registry entries, a namespace lookup, then a module without revision is added: InstantiatingModule fails for its nodes"),
 "C13h-dir-index-64-entries": ("C13", ["C13"], "a search-path directory with 64 or more entries and a lookup by dated name"),
 "C14h-member-table-ring-32": ("C14", ["C14"], "more than 32 distinct enum/bits member lists, then an exact repeat of an early one"),
 "C17h-checked-prefix-table-4": ("C17", ["C17"], "a path with five or more distinct prefixes (augment ladder over five modules)"),
 "C18h-grouping-index-built-too-early": ("C18", ["C18"], "a submodule with 16 or more groupings that uses a grouping of a submodule it includes, processed before its owner is loaded"),
 "C19h-posix-pattern-cache-published-early": ("C19", ["C19"], "a posix-pattern of 48 or more bytes resolved by two loaders at once while not in the table (first use, or more than 128 distinct ones)"),
 "C20h-prefix-cache-slot-reuse": ("C20", ["C20"], "nine or more distinct prefixes requested while an earlier writer is still in use"),
 "C02i-columns-in-bytes": ("C02", ["C02", "C16"], "a multi-byte character in an unquoted token or an earlier double-quoted piece on the line where an over-indented multi-line string opens"),
 "C06i-prefixed-uses-skips-scopes": ("C06", ["C06"], "a uses statement that names a grouping defined in an enclosing container with the module's own prefix"),
 "C13i-dotted-name-taken-for-file": ("C13", ["C13"], "a module whose name contains a dot, fetched from the search path by name"),
 "C20i-rune-reencoding-per-write": ("C20", ["C20"], "a Write boundary inside a multi-byte UTF-8 character"),
 "C14i-enum-name-with-blank-refused": ("C14", ["C14"], "an enum member whose name has a blank in its interior"),
 "C16h-unquoted-tail-skip-counts-bytes": ("C16", ["C16"], "an unquoted token longer than 65 bytes with a multi-byte character beyond byte 65, followed on the line by a statement whose position is reported"),
 "C20b-empty-write-clears-partial": ("C20", ["C20"], "zero-length Write in the middle of a line clears the mid-line flag: the next Write gets a prefix inside the line"),
 "C20-early-out-continued-line": ("C20", ["C20"], "short write of 1..len(prefix) bytes on a Write that continues a partial line returns 0 although caller bytes were written"),
}
env = dict(os.environ)
def sh(cmd, **kw):
    return subprocess.run(cmd, shell=True, capture_output=True, text=True, **kw)
assert sh("git -C /repo status --porcelain").stdout == "", "/repo dirty"
head = sh("git -C /repo rev-parse --short HEAD").stdout.strip()
only = sys.argv[1:]
rows = []
for d in sorted(glob.glob("/verif/seeded/*/")):
    name = os.path.basename(d.rstrip("/"))
    if name not in NEEDS or (only and name not in only):
        continue
    prop, checks, needs = NEEDS[name]
    res = {}
    for c in checks:
        a = sh(f"git -C /repo apply {d}patch.diff")
        if a.returncode != 0:
            res[c] = "patch no longer applies to the current tree"
            continue
        sh(f"cp /verif/evidence/{c}.json /var/tmp/evidence.seeds.json")  # evidence describes the unchanged tree
        r = sh(f"cd /verif && ./run {c} quick")
        sh(f"mv /var/tmp/evidence.seeds.json /verif/evidence/{c}.json")
        sh("git -C /repo checkout -- . && git -C /repo clean -fdq")
        viol = [l for l in r.stdout.splitlines() if l.startswith("VIOLATION")]
        fps = sorted({l.split("fingerprint=")[1].split(" ")[0] for l in r.stderr.splitlines() if l.startswith("violation")})
        res[c] = {"exit": r.returncode, "violations": len(viol), "fingerprints": fps}
    meta = {"seed": name, "breaks_property": prop, "needs_to_manifest": needs,
            "verified": "in a scratch worktree: go build ./... ok, go test -vet=off -count=1 ./... passes with the change, demo (seed/demo) exits non-zero with the change and 0 without it (tools/seedcheck.sh)",
            "checks_run_at_repo_commit": head, "results": res}
    json.dump(meta, open(d + "meta.json", "w"), indent=1)
    caught = [c for c, v in res.items() if isinstance(v, dict) and v["exit"] == 1]
    rows.append((name, prop, needs, res, caught))
    print(name, {c: (v if isinstance(v, str) else (v["exit"], v["fingerprints"][:2])) for c, v in res.items()}, flush=True)
if not only:
    with open("/verif/seeded/TABLE.md", "w") as f:
        f.write(f"# Seeded changes vs. checks (quick tier, /repo at {head})\n\n| seed | breaks | needs | caught by |\n|---|---|---|---|\n")
        for name, prop, needs, res, caught in rows:
            f.write(f"| {name} | {prop} | {needs} | {', '.join(caught) if caught else 'not caught: ' + json.dumps(res)} |\n")
