#!/bin/bash
# tools/fixcommit.sh <message-file>  -- run goyang's suite on /repo's working tree; commit only if it passes.
set -euo pipefail
export GOFLAGS=-mod=mod GOPROXY=off GOSUMDB=off GOTOOLCHAIN=local
cd /repo
go build ./... 
if ! go test -vet=off -count=1 ./... > /tmp/fixcommit.log 2>&1; then
  tail -30 /tmp/fixcommit.log; echo "SUITE FAILED - not committed"; exit 1
fi
tail -4 /tmp/fixcommit.log
git commit -qa -F "$1"
git log --oneline -1
