#!/usr/bin/env python3
# tools/regseed.py <seed-name> <prop> <check,check> <needs...>: register a seed in tools/seeds_all.py
import sys, json
name, prop, checks, needs = sys.argv[1], sys.argv[2], sys.argv[3].split(","), " ".join(sys.argv[4:])
p = "/verif/tools/seeds_all.py"
s = open(p).read()
assert f'"{name}"' not in s, "already registered"
anchor = ' "C20b-empty-write-clears-partial"'
assert anchor in s
line = f' {json.dumps(name)}: ({json.dumps(prop)}, {json.dumps(checks)}, {json.dumps(needs, ensure_ascii=False)}),\n'
open(p, "w").write(s.replace(anchor, line + anchor))
