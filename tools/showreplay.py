#!/usr/bin/env python3
import json,sys,difflib
f=json.load(open(sys.argv[1]))
print("property",f['property'],"classes",f['classes'],"fingerprint",f['fingerprint'])
print("input:",json.dumps(f['input'])[:int(sys.argv[2]) if len(sys.argv)>2 else 1500])
e=f.get('expected','').split('\n'); o=f.get('observed','').split('\n')
for l in difflib.unified_diff(e,o,'expected','observed',lineterm='',n=1):
    print(l[:400])
