#!/bin/bash
# tools/mutant.sh <patch-file> <prop> [tier]  -- apply a patch to /repo, run the check, undo the patch.
# Never leaves /repo modified. Exit status is the check's.
set -u
patch="$(realpath "$1")"; prop="$2"; tier="${3:-quick}"
cd /repo || exit 2
if [ -n "$(git status --porcelain)" ]; then echo "mutant.sh: /repo is dirty" >&2; exit 2; fi
git apply "$patch" || { echo "mutant.sh: patch does not apply" >&2; exit 2; }
trap 'git -C /repo checkout -- . ; git -C /repo clean -fdq' EXIT
cd /verif
# the evidence file describes the unchanged tree: keep it
cp evidence/"$prop".json /var/tmp/evidence.$$.json 2>/dev/null
VERIF_DIR=/verif ./run "$prop" "$tier" 2>&1 | grep -E "VIOLATION|KNOWN-FINDING|INTERNAL|violation|executions=" | head -${LINES_MAX:-12}
rc=${PIPESTATUS[0]}
[ -f /var/tmp/evidence.$$.json ] && mv /var/tmp/evidence.$$.json evidence/"$prop".json
exit $rc
