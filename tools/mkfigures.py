#!/usr/bin/env python3
"""Rewrites the figures table of DESIGN.md §13.3 (between the FIGURES markers) from evidence/*.json."""
import json, re, os
here = os.path.dirname(os.path.dirname(os.path.abspath(__file__)))
what = {
 "C01": "lexical spaces (incl. a byte alphabet with NUL / invalid UTF-8); trees of ≤ 3 statements over 81 keywords; cross-reference programs of 1–2 (3) files; single-edit neighbourhood of 14 seed files",
 "C02": "L1 chars ≤ 6 (7, and 8 over 10 symbols), L2 pieces ≤ 5 (7) of 19, L2s argument pieces ≤ 6 (7) under `k`, `pattern`, tab",
 "C03": "BFS over ~65 statement contexts × 81 keywords × 16 shapes (thorough: + all ordered pairs of accepted children); top level",
 "C04": "corpus (USES, AUG, CFG, prefix variants, late augments, conflict library) × 2 load orders; clean sets walked",
 "C05": "conflict scenarios × all load orders × map-order deviations ≤ 1 (2); CLI tree/types under single deviations",
 "C06": "USES family (+ revisions, alias prefixes, must/extensions) + single-instance and both-instance mutations",
 "C07": "AUG family × all load orders",
 "C08": "18 targets × single and paired (thorough: tripled) deviates × options, two deviating modules",
 "C09": "typedef scopes ≤ 3 (4) of 11 × 5 spellings × 2 prefix regimes × 10 sites; 3-level chains; error references",
 "C10": "14 (27) types × restriction strings ≤ 2–3 parts × chains of depth ≤ 3; direct API",
 "C11": "graphs N ≤ 3 (4) × placements × names × 3 prefix regimes × 6 load orders (+ map-order deviations)",
 "C12": "CFG family (3^5, 3^4 × contexts) + USES + AUG",
 "C13": "revision sequences ≤ 3 (4) with imports; 2^6·2^6 (2^8·2^8) layouts × 3 requests (real files); 3^9 × 3 split partitions",
 "C14": "member sequences ≤ 4 (5 via API) over 16 values × name patterns, enum + bits, API + text",
 "C15": "~2 600 (11 k) numbers, all ordered pairs, literal grid × precision 0..18",
 "C16": "positions on the C02 spaces; injected lexical faults of 12 kinds; 8 layouts × 3 sets × semantic faults",
 "C17": "every third (every) corpus program: all node pairs, 3 spellings + bogus steps",
 "C18": "all histories of 6 (7) operations over 13 operations",
 "C19": "reader multisets, 2×2 sequences, pipelines; adaptive preemption bound; parallel stress",
 "C20": "texts ≤ 7 (9) × 5 prefixes × all compositions × every stop point",
}
def human(n):
    for u, d in (("G", 1e9), ("M", 1e6), ("k", 1e3)):
        if n >= d:
            return f"{n/d:.3g} {u}"
    return str(n)
rows = ["| id | variant | what is enumerated | executions | states | transitions | wall (quick) |", "|---|---|---|---|---|---|---|"]
for i in range(1, 21):
    pid = f"C{i:02d}"
    e = json.load(open(os.path.join(here, "evidence", pid + ".json")))
    c = e["coverage"]
    rows.append(f"| {pid} | {c.get('build_variant','plain')} | {what[pid]} | {human(c['evaluations'])} | {human(c['states'])} | {human(c['transitions'])} | {e['wall_s']:.0f} s |")
p = os.path.join(here, "DESIGN.md")
s = open(p).read()
a, b = "<!-- FIGURES-BEGIN -->", "<!-- FIGURES-END -->"
s = s[:s.index(a) + len(a)] + "\n" + "\n".join(rows) + "\n" + s[s.index(b):]
open(p, "w").write(s)
print("figures table rewritten")
