#!/usr/bin/env python3
"""Regenerates MANIFEST.json from the table below (kept valid at all times)."""
import json, os, sys
here = os.path.dirname(os.path.dirname(os.path.abspath(__file__)))
props = [json.loads(l) for l in open(os.path.join(here, "properties.jsonl"))]

ADDED = {'C01': 'L6 hostile type bodies, L7 scale shapes at every size to 64 and around the powers of two to 512, L8 path arguments (through Find and as statement arguments); texts with deviations, includes or uses also under the three parse options.', 'C02': 'nesting to 1025 levels, quote column x continuation indentation, counts and long arguments, multi-byte characters before an opening quote.', 'C03': 'every text built twice in one process; two runs of one keyword around another statement (long second run); after the mirror check the extension lookup on every node and a processing run, then the mirror check again.', 'C04': 'scale sets up to 82 000 statements; each file loaded alone with the rest fetched from a search path during Process; sets with deviations or uses also under the parse options.', 'C05': 'scenarios for more than 100 errors, identity fans, typedef cycles, names equal under case folding; in the first load order also what yangentry.Parse returns and the run under the parse options; the goyang command in two formats.', 'C06': 'size sweeps (wide copies, many groupings, grouping chains, many uses); three prefix schemes; keyword-like and case-variant names; the StoreUses option; lookups in the statement tree followed by a second processing run.', 'C07': 'deep and wide targets, many augments, two revisions with many imports; three prefix schemes; the trees dropped (ClearEntryCache) and the augments applied again by hand.', 'C08': 'related targets, triples, augmented targets, deep targets, many deviations, deviations through each of many import prefixes, keyword-named targets, the ignore-not-supported option.', 'C09': 'union members (every ordered pair and triple of 26), same-named typedefs, chains to 257, names to 300 bytes, many patterns; three prefix schemes; a look at the tree before the processing run.', 'C10': 'restrictions of up to 40 (80) parts; every resolved set also through Validate, Equal, String read back, Contains, and Equal across precisions.', 'C11': 'chains, fans, cycles, include trees, many modules, equal names under map-order deviations; submodule prefix regimes; incremental processing; the by-name accessors IsDefined / GetValue.', 'C12': 'wide copies, modules loaded after the first lookups; three prefix schemes; the read-only marks of Entry.Print; the kind predicates; accessors asked twice.', 'C13': 'long search paths, directories with many entries, include trees, many revisions; module names with dots, dashes, underscores, upper case; the search path as PathsWithModules builds it; symbolic links; trees rebuilt after ClearEntryCache.', 'C14': 'lists to 300 members, value sweeps to 2^32, 150 distinct types in one schema; every ordered pair of 38 awkward member names; all views after every member while a table is filled; exported tables; caller-side mutation of returned views.', 'C15': 'magnitudes spread over every binary band 2^20..2^63 and the scaling limits 2^64/10^k, 2^63/10^k with neighbours.', 'C16': 'runs of hundreds of characters with multi-byte characters before further statements; concatenated fault kinds; the goyang command fed on standard input behind 10 leading layouts.', 'C17': 'the corpus under three prefix schemes, crossing prefixes, names equal under folding, scale sets; the same lookups from and against the trees yangentry.Parse returns.', 'C18': 'a getmodule operation; trees compared after failed runs; imports, includes and the owner module completed late at sizes to 48; types carrying extensions of a module loaded later; lookups by namespace and import must return the registered objects.', 'C19': 'cold rounds on fresh processes (first use of the library under contention); long posix-patterns; arguments outside ASCII; readers of the statement tree; stress rounds in which two goroutines run the same operation.', 'C20': 'nested writers, many writers alive at once, every write length to 700, large writes around 4096 / 8192 at every stop point, texts that are not ASCII (boundaries inside characters), ownership of one-shot results.'}

# id -> (technique, level text, level note, design ref)
claimed = {
 "C20": ("exhaustive fault enumeration on the real writer vs. a reference indenter",
         "Every text of length <= 7 (thorough: 9) over {a,b,newline} x 5 prefixes x every composition into Write calls (plus one empty Write at every position) x every stop point of the underlying writer is executed against the real indent.NewWriter and compared byte for byte and count for count with a 10-line reference indenter that tracks which output byte came from which caller byte. Exhaustive within the bound, no sampling.",
         "Trusted: the reference indenter; the 3-symbol alphabet (the writer distinguishes only line breaks from other bytes); one fault per execution, caller stops after the first error.",
         "DESIGN.md §3 C20"),
 "C15": ("exhaustive boundary-grid enumeration (all pairs) vs. math/big",
         "Every number of a boundary grid (0, powers of ten and two with neighbours, the 2^31/2^32/2^63/2^64 extremes) x sign x fraction-digits 0..18 inside the stated domain, every ordered pair of them, and every literal of a [sign]int[.frac] grid x requested precision is run through String, ParseInt, ParseDecimal, Int, FromInt, FromUint, Less and Equal and compared with exact big-integer arithmetic. Exhaustive over the grid (6.3 M cases quick, more thorough).",
         "Trusted: math/big. The grid stands in for the 2^64-sized domain: a defect that only shows at a non-boundary value is not excluded.",
         "DESIGN.md §3 C15"),
 "C14": ("exhaustive enumeration of member sequences vs. the RFC rule as a fold",
         "Every enum/bits member sequence of length <= 4 (thorough: 5 through the API) over a 16-value boundary alphabet incl. 'implicit', with every pattern of repeated names, is driven through NewEnumType/NewBitfield Set/SetNext and through module text + Process, and NameMap/ValueMap/Names/Values/errors are compared with a 30-line fold of RFC 7950 9.6.4.2/9.7.4.2.",
         "Trusted: the reference fold. After the first member the rule rejects only 'an error is reported' is required. Uniqueness of bit positions is not claimed by the property.",
         "DESIGN.md §3 C14"),
 "C10": ("exhaustive enumeration of restriction strings and derivation chains vs. big-integer interval sets",
         "For all 8 integer types, string length and decimal64 (quick: fraction-digits 1,2,9,17,18; thorough: all 18): every restriction string with <= 2 parts over a boundary grid, 3 parts over a core grid, layout variants and syntactic faults, every depth-2 and depth-3 derivation chain of them, through module text + Process and through ParseRangesInt/ParseRangesDecimal, compared with math/big interval sets (exact written set, sorted/disjoint/coalesced, subset of the parent at every step; must-reject and must-accept classes).",
         "Trusted: the interval reference (ref/num). Grids stand in for the numeric domains. Unsorted/overlapping part layouts (RFC-invalid but tolerated by the library) may go either way but must denote the written set when accepted.",
         "DESIGN.md §3 C10"),
 "C02": ("exhaustive enumeration of small texts vs. a reference reader written from RFC 7950 section 6",
         "Every symbol sequence up to the bound over three lexical alphabets (15 characters up to length 6/7; 17 lexical pieces up to 5/7; 13 argument pieces inside one statement up to 6/7, with keyword k, keyword pattern and a tab-indented variant) - about 20 M texts in the quick tier - is parsed by yang.Parse and by an independent reference reader; accept/reject, keywords, argument presence, exact argument strings, nesting and order must agree, rejections must return no statements and a non-empty error. Texts with one of the four excluded constructs are detected by the reference and counted as excluded.",
         "Trusted: ref/rfcread (250 lines, written from the RFC). Small-scope hypothesis: a defect that needs more than 7 symbols of these alphabets is not excluded.",
         "DESIGN.md §3 C02"),
 "C16": ("exhaustive enumeration of texts and single-fault injections vs. reference positions",
         "(i) every accepted text of the C02 spaces: Statement.Location() of every statement against the reference reader's line/character-column; (ii) every accepted template of <= 5 (6) pieces over a 14-piece alphabet (tabs, CR LF, multi-byte runes, comments, multi-line strings) with each of ten lexical/syntactic faults injected at every applicable token: the first error line must start with the position of the offending token, backslash or opener; (iii) three module sets re-laid-out in 8 hostile layouts with one semantic fault of 9 kinds at every eligible statement: every file:line:col in any error must be a statement start and the statement the property names must be named.",
         "Trusted: ref/rfcread positions. For cascading lexical faults only the first error line is compared. One known finding (known_findings.json).",
         "DESIGN.md §3 C16"),
 "C03": ("explicit-state reachability over statement contexts with a reflection bijection oracle",
         "Breadth-first search over statement contexts starting at module and submodule (one context per reachable keyword, depth <= 5/6); in each of the ~65 contexts each of 81 keywords (all RFC 7950 keywords, the builder's internal field names, an unknown word, a prefixed extension) is tried as a child in a dozen shapes (x1 x2 x3, interleaved with another statement and with extension statements with and without blocks, no argument, every subset of mandatory substatements omitted or doubled), plus every keyword at top level alone and next to a valid module: ~42 k builds. Either Modules.Parse fails, or a reflection walk finds every source statement exactly once under the field tagged with its keyword, in source order, with the right name, parent link and statement reference; must-reject classes must fail.",
         "Trusted: the reflection walker; the mandatory-substatement table (RFC 7950). An extension statement is treated as a unit.",
         "DESIGN.md §3 C03"),
 "C01": ("exhaustive input enumeration in crash-isolated workers (no-crash oracle)",
         "Five exhaustively enumerated layers (23 M inputs quick): the lexical spaces of C02; every statement tree of <= 3 statements over 81 keywords under module/submodule/top level; cross-reference programs of 1-3 files whose typedefs, groupings, identities, leaves, augments, deviations, imports and includes refer to themselves, each other, undefined names, unknown prefixes and wrong-kind targets, in all load orders; every single-statement edit of 14 seed files. Each input runs through yang.Parse, Modules.Parse, Process and, when clean, ToEntry, GetErrors, a full walk and Find from every node. A panic is caught and reported with the goyang function that raised it; a fatal error (stack overflow, concurrent map access) or a hang kills only the worker and is attributed to the announced case.",
         "Trusted: process isolation (SetMaxStack 32 MiB, 40 s per-case watchdog). Trees are read only after a clean Process. Inputs beyond the bounded layers are not covered.",
         "DESIGN.md §3 C01"),
 "C18": ("exhaustive exploration of operation histories on the real Modules value vs. batch runs",
         "Every history of 6 (thorough 7) operations over {process, read, load(t)} for a pool of 10 interacting texts (cross-module typedef/identity/grouping/augment/deviation, a module with semantic errors, module + submodule, syntax error, unknown statement after typedefs and identities were built, missing mandatory substatement, re-load, different text for a loaded module name) - 249 k histories quick - is executed on one real Modules value. Each load's verdict is predicted; after every process the canonical dump (all exported attributes incl. positions) or the error list must equal that of a fresh set given the successfully loaded texts once each in the same order and processed once.",
         "Trusted: the dump (exported API only) and the batch run as reference. Texts declare one module each.",
         "DESIGN.md §3 C18"),
 "C13": ("exhaustive enumeration of load sequences, directory layouts and module partitions on the real code",
         "rev: every load sequence of <= 3 (4) of 7 header variants of one module name (revision lists {}, {r1}, {r2}, {r2,r1}, {r1,r2}, {r3,r2}, a second text at r1), as modules and as submodules, with repeats: load verdicts, registry keys and the binding of dated/undated imports and includes against a reference, plus equality of the outcome across all orders of each multiset; file: every subset of 6 (8-11) candidate and near-miss file names in each of two search-path directories and of 3 names in the current directory, as real files, x 3 requests, against a reference chooser; split: 9 body items in every partition into main module + 2 submodules x 3 cross-include patterns x 3 load orders, the main module's dump must equal the unsplit module's.",
         "Trusted: the reference registry/chooser; dump. Excluded: bindings of a dated import whose revision is not loaded; partitions needing visibility of the owner's definitions inside a submodule; symlinks/permissions. One known finding class (known_findings.json).",
         "DESIGN.md §3 C13"),
 "C05": ("stateless exploration of load orders x map-iteration orders on an instrumented build (differential oracle)",
         "At check time /repo's working tree is copied and every range-over-map (31 sites) is rewritten into a choice point owned by the explorer; the repository's own suite is run on the copy as a conformance check. For each of ~115 conflict scenarios (equal identity names, pairs of deviate kinds, two deviating/augmenting modules, augment chains, two revisions, errors over several files, definitions over submodules, pairwise combinations) every permutation of load order x every map-iteration order with <= 1 (thorough 2) deviations from canonical order is executed (71 k executions quick); all executions of a scenario must give the same dump or the same error list, error lists must be ordered and duplicate-free, and the instrumented goyang command must print identical tree/types output under every single deviation.",
         "Trusted: the instrumenter (validated by the suite on the copy each run) and verifrt.Range (snapshot semantics are an admissible Go map order). For maps with > 3 keys only rotations, adjacent transpositions and reversal are tried.",
         "DESIGN.md §3 C05"),
 "C19": ("stateless schedule exploration under a controlled scheduler (preemption-bounded) with the race detector on every schedule",
         "At check time /repo's working tree is copied and the sync import of the library is redirected to a shim: every Lock/RLock/Unlock/RUnlock is a scheduling point of a cooperative scheduler, blocked acquires are disabled threads, no enabled thread is a deadlock. Hand-offs between goroutines are raw pipe syscalls in norace code, so the worker, built with -race, has the race detector judge every explored schedule by the library's own synchronisation only. Explored: all multisets of three reader operations (of 10, thorough 15: cache-hit ToEntry, Find of grafted/deep nodes, Namespace, first-time and repeated InstantiatingModule / FindModuleByNamespace for same, different and unknown namespaces, ReadOnly, DefaultValues, GetErrors, Print, full dump) on one shared processed set, 2x2 operation sequences, and 2-3 independent load-process-dump pipelines; every schedule within a preemption bound chosen per scenario from its number of scheduling points (2/1/0 quick, 3/2/1 thorough): 40 k schedules quick. Oracles per schedule: results equal the sequential results, no deadlock, no race report. A free-running -race stress of the same bodies is a cross-check.",
         "Trusted: the scheduler shim and its invisibility to the race detector (measured: a planted unguarded map is reported, the guarded one is not). Scheduling points are lock operations only; memory-model reorderings between non-synchronising instructions are not permuted. A race report needs one reproduction out of five replays (the detector's shadow memory is bounded), everything else five of five.",
         "DESIGN.md §3 C19"),
 "C04": ("exhaustive enumeration of schema families with an invariant walk over every resulting tree",
         "Every module set of the USES, AUG and CFG families, of the prefix-variant sets and of the conflict library (56 k sets quick, two load orders each) is loaded and processed; on the 24 k sets that process without error every module and submodule tree is walked over Dir and RPC.Input/Output with a pointer-identity visited set and the statement's invariants are evaluated on every node (filed under own name, parent link, single path / no shared node objects, kind vs. type vs. child map vs. list attributes, choice children are cases, no unapplied augments, no recorded errors, GetErrors empty), before and after lookups that create rpc input/output on demand.",
         "Trusted: the family generators (they decide which trees exist). Sets on which Process reports errors are outside the quantifier.",
         "DESIGN.md §3 C04"),
 "C06": ("exhaustive enumeration of the USES family vs. a reference inliner, plus differential independence runs",
         "USES family: 11 grouping bodies (nested uses to depth 3, list, leaf-list with bounds and with three defaults, choice, nested choices below shorthand members, action, local typedef, default, anydata) x 4 definition sites (top of a, container of a, submodule, other module) x all pairs of 10 using sites x type spelled string / a typedef t that is shadowed differently in each scope: every tree is compared node by node with the reference inlining of package ir (names, kinds, type resolved in the definition scope, defaults, bounds, read-only, namespace, instantiating module, parent links). Independence: every instance is mutated from a further module by an augment or one of ten deviations and the other instance must dump exactly as without the mutating module; then both instances are mutated at once and each must equal its single-mutation run. 47 k executions quick.",
         "Trusted: package ir (reference inliner, 400 lines). refine and uses-augment are outside the claim.",
         "DESIGN.md §3 C06"),
 "C07": ("exhaustive enumeration of the AUG family in all load orders vs. a reference graft",
         "AUG family over base module a (with a submodule) and augmenting modules b, c: every single augment (owner x 21 targets x 8 bodies), a seventh (thorough: half) of all ordered pairs, and three-augment chains whose later targets are created by earlier augments in 4 declaration orders x 64 owner assignments; every load order of the 2-4 files: 51 k augment lists, 368 k executions quick. The reference grafts to a fixpoint, stamps the augmenting module, inserts implicit cases afterwards and predicts errors (missing target, leaf/leaf-list target, name collision). Compared: error/no error, the whole tree of a, and equality of the dump across load orders.",
         "Trusted: package ir (reference graft). Implicit cases as targets and augments of the rpc node itself are outside the alphabet.",
         "DESIGN.md §3 C07"),
 "C08": ("exhaustive enumeration of the DEV family vs. RFC 7950 7.20.3 applied as a delta, with a frame condition",
         "17 targets x every single deviate statement (not-supported, unknown kind, add/replace/delete x 18 properties and 5 property pairs) x every ordered pair of deviate statements, the ignore-not-supported option, and two deviating modules on equal and different targets: 98 k deviation lists quick. The reference applies RFC 7950 7.20.3 in written order to the attributes the library itself reports without the deviating modules; listed inapplicable cases must give an error; every node that is not a target must dump exactly as in the un-deviated tree (the other use of a grouping included).",
         "Trusted: the reference rule table. Combinations RFC 7950 forbids but the statement does not list are don't-care for the touched attribute and for error/no error; the inherited read-only flag is C12's business.",
         "DESIGN.md §3 C08"),
 "C09": ("exhaustive enumeration of typedef scopes, spellings and derivation chains vs. a reference binder",
         "bind: typedef t declared at every subset of <= 3 of 11 scopes (module, submodule, container, list, grouping, rpc, input, output, notification, imported module, its submodule), each with its own base type, referenced from 10 sites with 5 spellings, 2 load orders; chain: three-level chains with all 2^9 set/omit patterns of units/default/pattern and four kinds of leaf additions for strings, 2^6 for enum, bits, leafref, decimal64, union and identityref bases, read at two narrowing leaves (aliasing), a plain leaf, a leaf-list and a mandatory leaf; errors: 22 unknown/unresolvable/cyclic references in a module and in a submodule, processed twice. 11 k programs.",
         "Trusted: package ir (binder) and the overlay rule. Programs declaring t twice in one module-wide name space are excluded as invalid.",
         "DESIGN.md §3 C09"),
 "C11": ("exhaustive enumeration of derivation graphs x load orders x map-iteration orders vs. reverse reachability",
         "Every subset of the N^2 base edges over N <= 3 (thorough 4, <= 5 edges) identities x every placement in module a, module b and a submodule of a x distinct / equal names x two prefix regimes (prefix = module name; both modules declare the same prefix) x two spellings of local bases, plus undefined bases: 107 k programs quick, each loaded in all 6 orders and - where equal names or a shared prefix make ties possible - under every single deviation of map iteration order on the instrumented build (744 k executions). Values of every identity must be exactly the reverse-reachability set, duplicate-free, without itself, and the same sequence in every execution; identityref leaves must point at the named identity object; cycles and undefined bases must give an error.",
         "Trusted: the graph closure (15 lines); the instrumenter (suite run on the copy each time).",
         "DESIGN.md §3 C11"),
 "C12": ("exhaustive enumeration of config assignments over composition contexts vs. evaluation on the normalised tree",
         "CFG family: every assignment of config unset/true/false to the nodes of a path through plain nesting (3^5), uses with config at the user and inside two nested groupings (3^4 x 3 users), augment from another module, from a submodule and from the module itself (3^4 x 3), choice/case/implicit case (3^5), and rpc/action/notification contexts under 9 ancestor configurations, all load orders; plus the USES and AUG families for namespace attribution: 23 k programs. ReadOnly(), Namespace() and InstantiatingModule() of every node are compared with the reference evaluation.",
         "Trusted: package ir. No explicit config inside rpc/action/notification (outside the quantifier).",
         "DESIGN.md §3 C12"),
 "C17": ("exhaustive all-pairs path lookups on every clean tree of the family corpus (pointer-identity oracle)",
         "On every third (thorough: every) program of the USES, AUG and CFG families, the prefix-variant sets (modules that know each other under prefixes differing from their names, between importers, and colliding with other module names) and the conflict library: for every ordered pair of nodes over all module trees, Find of the absolute path spelled with the prefixes of the module that defines the start node, Find of the relative path through the lowest common ancestor, and each with one bogus step at every position: 44 M lookups quick. Must return the target by pointer identity, respectively nil.",
         "Trusted: the tree walk. Pairs whose path needs a prefix the start's defining module does not import are outside the quantifier.",
         "DESIGN.md §3 C17"),
}
pending_reason = "check not built yet in this session (see DESIGN.md §12 build order); it will be claimed once its harness exists and is quiet on the unchanged tree"
not_applicable_reasons = {}

checks, na = [], []
for p in props:
    i = p["id"]
    if i in claimed:
        tech, text, note, ref = claimed[i]
        text += " Added by the seed rounds (DESIGN.md §14): " + ADDED[i]
        checks.append({
            "property_id": i,
            "quick_cmd": f"./run {i} quick",
            "thorough_cmd": f"./run {i} thorough",
            "evidence_file": f"evidence/{i}.json",
            "replay_cmd_template": "./run replay {path}",
            "engine": "explore",
            "level_claimed": {"category": "model_checking", "text": text, "design_ref": ref},
            "level_note": note,
            "technique": tech,
        })
    else:
        na.append({"property_id": i, "reason": not_applicable_reasons.get(i, pending_reason)})

m = {
 "version": 1,
 "setup_cmd": "./setup.sh",
 "hooks": {
  "guard": "verif",
  "enable": "no hooks are committed to /repo: checks that need to own map iteration order or goroutine scheduling copy /repo's working tree to a scratch directory, rewrite it with mc/instr (range-over-map -> verifrt.Range, import sync -> vsync shim) and build that copy with -tags verif",
  "baseline_off_cmd": "cd /repo && GOFLAGS=-mod=mod GOPROXY=off GOSUMDB=off GOTOOLCHAIN=local go test -vet=off -count=1 ./...",
  "source_commits": [],
  "add_only": True,
 },
 "engines": [
  {"name": "explore", "path": "mc/", "serves_properties": sorted(claimed),
   "kind_free_text": "hand-written explicit-state / stateless model checker in Go: choice-tree DFS with prefix replay and deviation bounds, BFS over operation histories, exhaustive input and fault enumeration, all run against the real goyang code in crash-isolated worker processes and compared with reference models written in Go"},
 ],
 "checks": checks,
 "not_applicable": na,
 "notes": "Exit 0 = held on everything explored; exit 1 + VIOLATION line = confirmed counterexample (replayed 5x in fresh processes); exit 2 = internal error of the machinery (never a counterexample). known_findings.json lists genuine defects recorded rather than repaired and the fix: commits made.",
}
json.dump(m, open(os.path.join(here, "MANIFEST.json"), "w"), indent=1)
print("MANIFEST.json:", len(checks), "checks,", len(na), "not claimed")
