#!/bin/bash
# tools/seedcheck.sh <worktree> <seed-name> <prop> [more props...]
# Verifies a seeded change produced in a scratch worktree (suite passes with it, demo fails with it and
# passes without), files it under /verif/seeded/<seed-name>/, then applies it transiently to /repo and
# runs the named checks.
set -u
wt="$1"; name="$2"; shift 2
export GOFLAGS=-mod=mod GOPROXY=off GOSUMDB=off GOTOOLCHAIN=local
cd "$wt" || exit 2
git diff -- . ':!seed' > /tmp/seed.$$.diff
[ -s /tmp/seed.$$.diff ] || { echo "no change in worktree"; exit 2; }
echo "--- suite with the change"; go build ./... && go test -vet=off -count=1 ./... 2>&1 | tail -4
suite=${PIPESTATUS[0]}
echo "--- demo with the change"; timeout 600 go run ./seed/demo > /tmp/seed.$$.with 2>&1; with=$?; tail -3 /tmp/seed.$$.with
git apply -R /tmp/seed.$$.diff
echo "--- demo without the change"; timeout 600 go run ./seed/demo > /tmp/seed.$$.without 2>&1; without=$?; tail -2 /tmp/seed.$$.without
git apply /tmp/seed.$$.diff
echo "suite_exit=$suite demo_with=$with demo_without=$without"
d=/verif/seeded/$name; mkdir -p $d
cp /tmp/seed.$$.diff $d/patch.diff; cp -r seed/demo $d/ 2>/dev/null; cp seed/notes.md $d/notes.md 2>/dev/null
results=""
cd /repo; [ -z "$(git status --porcelain)" ] || { echo "/repo dirty"; exit 2; }
for prop in "$@"; do
  git apply $d/patch.diff || { echo "patch does not apply to /repo"; exit 2; }
  cp /verif/evidence/$prop.json /var/tmp/evidence.$$.json 2>/dev/null
  (cd /verif && ./run $prop quick > /tmp/seed.$$.$prop 2>&1); rc=$?
  [ -f /var/tmp/evidence.$$.json ] && mv /var/tmp/evidence.$$.json /verif/evidence/$prop.json
  git checkout -- . ; git clean -fdq
  echo "--- check $prop exit=$rc"; grep -E "VIOLATION|INTERNAL|violation" /tmp/seed.$$.$prop | head -4 | cut -c1-200
  results="$results $prop=$rc"
done
echo "$(date -u +%FT%TZ) RESULT $name suite=$suite with=$with without=$without checks:$results" >> /verif/seeded/RESULTS.log
echo "RESULT $name suite=$suite with=$with without=$without checks:$results"
rm -f /tmp/seed.$$.*
