#!/usr/bin/env python3
"""Writes seeded/TABLE.md from the seeded/*/meta.json files as they are (each says at which /repo commit its
checks were last run), so that the table does not depend on one uninterrupted sweep. For seeds without a
meta.json the first-run line of seeded/RESULTS.log is used."""
import json, os, glob, re, importlib.util
V = os.environ.get("VERIF_DIR", "/verif")
src = open(V + "/tools/seeds_all.py").read()
needs = {}
m = re.search(r"^NEEDS = \{\n(.*?)^\}", src, re.S | re.M)
exec("NEEDS = {\n" + m.group(1) + "}", needs)
NEEDS = needs["NEEDS"]
last = {}
for line in open(V + "/seeded/RESULTS.log"):
    mm = re.match(r"\S+ RESULT (\S+) suite=(\d+) with=(\d+) without=(\d+) checks:(.*)", line)
    if mm:
        last[mm.group(1)] = mm.group(5).strip()
rows = []
for d in sorted(glob.glob(V + "/seeded/*/")):
    name = os.path.basename(d.rstrip("/"))
    prop, checks, need = NEEDS.get(name, (name[:3], [name[:3]], ""))
    mp = d + "meta.json"
    if os.path.exists(mp):
        meta = json.load(open(mp))
        res = meta.get("results", {})
        caught = [c for c, v in res.items() if isinstance(v, dict) and v.get("exit") == 1]
        at = meta.get("checks_run_at_repo_commit", "?")
        cell = (", ".join(caught) if caught else "not caught: " + json.dumps(res)) + f" (at {at})"
    elif name in last:
        cell = "first run (tools/seedcheck.sh): " + last[name] + "; later strengthenings: DESIGN.md §14"
    else:
        cell = "not run"
    rows.append((name, prop, need, cell))
with open(V + "/seeded/TABLE.md", "w") as f:
    f.write("# Seeded changes vs. checks (quick tier)\n\nEach row gives the checks that report the change (exit 1 with a VIOLATION line) and the /repo commit at which they were last run against it.\n\n| seed | breaks | needs | caught by |\n|---|---|---|---|\n")
    for name, prop, need, cell in rows:
        f.write(f"| {name} | {prop} | {need} | {cell} |\n")
print(len(rows), "rows")
