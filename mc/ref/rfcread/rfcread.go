// Package rfcread is a reference reader for RFC 7950 section 6 (generic statements), written from
// the RFC text and independent of goyang's lexer. It records 1-based line / character-column
// positions and detects the four constructs the properties leave outside their claim.
package rfcread

import (
	"strings"
	"unicode/utf8"
)

type RTok struct {
	Kind      int // 0 unquoted, 1 quoted(single/double), 2 ';', 3 '{', 4 '}'
	Text      string
	Line, Col int // 1-based, col in characters
	// for quoted: raw pieces info
	Double  bool
	Raw     string // raw content between quotes (double only)
	QCol    int    // tab-stop column (1-based) of the opening quote
	QColAlt int    // column with "tab = +8" reading
}

type RStmt struct {
	Keyword   string
	HasArg    bool
	Arg       string
	Subs      []*RStmt
	Line, Col int
}

type RRes struct {
	Stmts    []*RStmt
	Err      string // non-empty => reject
	Excluded string // non-empty => outside the claim
}

func isSep(r rune) bool { return r == ' ' || r == '\t' || r == '\r' || r == '\n' }
func isDelim(r rune) bool {
	return isSep(r) || r == ';' || r == '{' || r == '}' || r == '"' || r == '\''
}

type rlex struct {
	rs   []rune
	i    int
	line int
	col  int // 0-based char col
	tcol int // tab-stop col 0-based
	acol int // alt: tab=+8
	excl string
}

func (l *rlex) adv() rune {
	r := l.rs[l.i]
	l.i++
	switch r {
	case '\n':
		l.line++
		l.col = 0
		l.tcol = 0
		l.acol = 0
	case '\t':
		l.col++
		l.tcol = (l.tcol + 8) &^ 7
		l.acol += 8
	default:
		l.col++
		l.tcol++
		l.acol++
	}
	return r
}

// tokens returns the token list or an error string.
func Tokens(in string) (toks []RTok, err string, excl string) {
	if !utf8.ValidString(in) {
		return nil, "", "invalid-utf8"
	}
	l := &rlex{rs: []rune(in), line: 1}
	for {
		// skip separators and comments
		for l.i < len(l.rs) {
			r := l.rs[l.i]
			if isSep(r) {
				l.adv()
				continue
			}
			if r == '/' && l.i+1 < len(l.rs) && l.rs[l.i+1] == '/' {
				for l.i < len(l.rs) && l.rs[l.i] != '\n' {
					l.adv()
				}
				continue
			}
			if r == '/' && l.i+1 < len(l.rs) && l.rs[l.i+1] == '*' {
				sl, sc := l.line, l.col
				l.adv()
				l.adv()
				closed := false
				for l.i < len(l.rs) {
					if l.rs[l.i] == '*' && l.i+1 < len(l.rs) && l.rs[l.i+1] == '/' {
						l.adv()
						l.adv()
						closed = true
						break
					}
					l.adv()
				}
				if !closed {
					_ = sl
					_ = sc
					return toks, "unterminated comment", l.excl
				}
				continue
			}
			break
		}
		if l.i >= len(l.rs) {
			return toks, "", l.excl
		}
		r := l.rs[l.i]
		t := RTok{Line: l.line, Col: l.col + 1}
		switch r {
		case ';':
			l.adv()
			t.Kind = 2
		case '{':
			l.adv()
			t.Kind = 3
		case '}':
			l.adv()
			t.Kind = 4
		case '\'':
			l.adv()
			var sb strings.Builder
			closed := false
			for l.i < len(l.rs) {
				c := l.adv()
				if c == '\'' {
					closed = true
					break
				}
				sb.WriteRune(c)
			}
			if !closed {
				return toks, "unterminated '", l.excl
			}
			t.Kind = 1
			t.Text = sb.String()
		case '"':
			t.QCol = l.tcol + 1
			t.QColAlt = l.acol + 1
			l.adv()
			var sb strings.Builder
			closed := false
			for l.i < len(l.rs) {
				c := l.adv()
				if c == '"' {
					closed = true
					break
				}
				sb.WriteRune(c)
				if c == '\\' {
					if l.i >= len(l.rs) {
						break
					}
					sb.WriteRune(l.adv())
				}
			}
			if !closed {
				return toks, "unterminated \"", l.excl
			}
			t.Kind = 1
			t.Double = true
			t.Raw = sb.String()
		default:
			var sb strings.Builder
			for l.i < len(l.rs) && !isDelim(l.rs[l.i]) {
				sb.WriteRune(l.adv())
			}
			t.Text = sb.String()
			if strings.Contains(t.Text, "//") || strings.Contains(t.Text, "/*") {
				l.excl = "comment-opener-in-unquoted"
			}
		}
		toks = append(toks, t)
	}
}

// dq computes the value of a double-quoted string with raw content raw whose
// opening quote is at 1-based column qcol. pattern: unknown escapes preserved.
// returns value, error, excluded-reason.
func dq(raw string, qcol int, tabstop bool, pattern bool) (string, string, string) {
	rs := []rune(raw)
	var out []rune
	excl := ""
	i := 0
	atLineStart := false
	col := 0 // columns consumed on this continuation line
	for i < len(rs) {
		c := rs[i]
		if atLineStart && (c == ' ' || c == '\t') {
			// candidate for stripping
			var end int
			if c == ' ' {
				end = col + 1
			} else if tabstop {
				end = (col + 8) &^ 7
			} else {
				end = col + 8
			}
			if end <= qcol {
				col = end
				i++
				continue
			}
			if c == '\t' && col < qcol {
				excl = "tab-straddles-strip-column"
			}
			atLineStart = false
		}
		atLineStart = false
		switch c {
		case '\n':
			// strip trailing blanks
			j := len(out)
			for j > 0 && (out[j-1] == ' ' || out[j-1] == '\t') {
				j--
			}
			out = out[:j]
			out = append(out, '\n')
			atLineStart = true
			col = 0
			i++
		case '\r':
			if i+1 < len(rs) && rs[i+1] == '\n' {
				excl = "crlf-in-dq"
			}
			out = append(out, c)
			i++
		case '\\':
			if i+1 >= len(rs) {
				return "", "dangling backslash", excl
			}
			e := rs[i+1]
			i += 2
			switch e {
			case 'n':
				out = append(out, '\n')
			case 't':
				out = append(out, '\t')
			case '"':
				out = append(out, '"')
			case '\\':
				out = append(out, '\\')
			default:
				if !pattern {
					return "", "invalid escape", excl
				}
				out = append(out, '\\', e)
				if e == '\n' {
					atLineStart = true
					col = 0
				}
			}
			// blank produced by an escape immediately before a literal line break
			if (e == 't') && i < len(rs) && rs[i] == '\n' {
				excl = "escape-blank-before-linebreak"
			}
			// also blanks then newline after an escaped blank
			if e == 't' {
				k := i
				for k < len(rs) && (rs[k] == ' ' || rs[k] == '\t') {
					k++
				}
				if k < len(rs) && rs[k] == '\n' {
					excl = "escape-blank-before-linebreak"
				}
			}
		default:
			out = append(out, c)
			i++
		}
	}
	return string(out), "", excl
}

func Parse(in string) RRes {
	toks, err, excl := Tokens(in)
	res := RRes{Excluded: excl}
	if err != "" {
		res.Err = err
		return res
	}
	// resolve quoted tokens lazily since pattern mode depends on keyword.
	p := 0
	var parseStmt func() (*RStmt, string)
	value := func(t RTok, pattern bool) (string, string) {
		if !t.Double {
			return t.Text, ""
		}
		v1, e1, x1 := dq(t.Raw, t.QCol, true, pattern)
		v2, e2, _ := dq(t.Raw, t.QColAlt, false, pattern)
		if x1 != "" && res.Excluded == "" {
			res.Excluded = x1
		}
		if (v1 != v2 || e1 != e2) && res.Excluded == "" {
			res.Excluded = "tab-reading-ambiguous"
		}
		return v1, e1
	}
	parseStmt = func() (*RStmt, string) {
		t := toks[p]
		if t.Kind != 0 {
			return nil, "keyword expected"
		}
		s := &RStmt{Keyword: t.Text, Line: t.Line, Col: t.Col}
		p++
		pattern := s.Keyword == "pattern"
		if p < len(toks) && (toks[p].Kind == 0 || toks[p].Kind == 1) {
			s.HasArg = true
			if toks[p].Kind == 0 {
				s.Arg = toks[p].Text
				p++
			} else {
				v, e := value(toks[p], pattern)
				if e != "" {
					return nil, e
				}
				s.Arg = v
				p++
				for p+1 < len(toks) && toks[p].Kind == 0 && toks[p].Text == "+" && toks[p+1].Kind == 1 {
					v, e := value(toks[p+1], pattern)
					if e != "" {
						return nil, e
					}
					s.Arg += v
					p += 2
				}
			}
		}
		if p >= len(toks) {
			return nil, "eof"
		}
		switch toks[p].Kind {
		case 2:
			p++
			return s, ""
		case 3:
			p++
			for {
				if p >= len(toks) {
					return nil, "eof in block"
				}
				if toks[p].Kind == 4 {
					p++
					return s, ""
				}
				c, e := parseStmt()
				if e != "" {
					return nil, e
				}
				s.Subs = append(s.Subs, c)
			}
		}
		return nil, "; or { expected"
	}
	for p < len(toks) {
		s, e := parseStmt()
		if e != "" {
			res.Err = e
			res.Stmts = nil
			break
		}
		res.Stmts = append(res.Stmts, s)
	}
	// every double-quoted token anywhere must still be lexically valid even if parse failed earlier:
	// (irrelevant for accept/reject since already rejected)
	if res.Err == "" {
		// strings in non-argument position can't exist on accept. ok.
	}
	return res
}
