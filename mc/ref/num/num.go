// Package num is the exact-arithmetic reference for goyang's Number, ranges and lengths:
// math/big rationals and integer interval sets. It knows nothing about goyang.
package num

import (
	"fmt"
	"math/big"
	"sort"
	"strings"
)

// Pow10 returns 10^k.
func Pow10(k int) *big.Int { return new(big.Int).Exp(big.NewInt(10), big.NewInt(int64(k)), nil) }

// Mant returns the signed mantissa.
func Mant(neg bool, mag uint64) *big.Int {
	v := new(big.Int).SetUint64(mag)
	if neg {
		v.Neg(v)
	}
	return v
}

// Rat returns the exact value of sign*mag/10^fd.
func Rat(neg bool, mag uint64, fd int) *big.Rat {
	return new(big.Rat).SetFrac(Mant(neg, mag), Pow10(fd))
}

var (
	MinInt64  = new(big.Int).Lsh(big.NewInt(-1), 63)
	MaxInt64  = new(big.Int).Sub(new(big.Int).Lsh(big.NewInt(1), 63), big.NewInt(1))
	MaxUint64 = new(big.Int).Sub(new(big.Int).Lsh(big.NewInt(1), 64), big.NewInt(1))
)

// ParseLiteral parses [sign] digits [. digits] exactly. ok=false if the text is not of that form.
func ParseLiteral(s string) (v *big.Rat, fracLen int, ok bool) {
	t := s
	neg := false
	if strings.HasPrefix(t, "+") {
		t = t[1:]
	} else if strings.HasPrefix(t, "-") {
		t = t[1:]
		neg = true
	}
	ip, fp, hasDot := strings.Cut(t, ".")
	if ip == "" || (hasDot && fp == "") {
		return nil, 0, false
	}
	for _, c := range ip + fp {
		if c < '0' || c > '9' {
			return nil, 0, false
		}
	}
	m, _ := new(big.Int).SetString(ip+fp, 10)
	if neg {
		m.Neg(m)
	}
	return new(big.Rat).SetFrac(m, Pow10(len(fp))), len(fp), true
}

// Iv is a closed interval of mantissas (integers at a fixed number of fraction digits).
type Iv struct{ Lo, Hi *big.Int }

// Set is a normalised (sorted, disjoint, non-adjacent) union of intervals.
type Set []Iv

// Normalise sorts and coalesces.
func Normalise(in []Iv) Set {
	s := append([]Iv{}, in...)
	sort.SliceStable(s, func(i, j int) bool {
		if c := s[i].Lo.Cmp(s[j].Lo); c != 0 {
			return c < 0
		}
		return s[i].Hi.Cmp(s[j].Hi) < 0
	})
	var out Set
	one := big.NewInt(1)
	for _, iv := range s {
		if n := len(out); n > 0 && new(big.Int).Add(out[n-1].Hi, one).Cmp(iv.Lo) >= 0 {
			if out[n-1].Hi.Cmp(iv.Hi) < 0 {
				out[n-1].Hi = iv.Hi
			}
			continue
		}
		out = append(out, Iv{iv.Lo, iv.Hi})
	}
	return out
}

// Subset reports a ⊆ b for normalised sets.
func Subset(a, b Set) bool {
	for _, x := range a {
		ok := false
		for _, y := range b {
			if y.Lo.Cmp(x.Lo) <= 0 && x.Hi.Cmp(y.Hi) <= 0 {
				ok = true
				break
			}
		}
		if !ok {
			return false
		}
	}
	return true
}

func (s Set) Equal(t Set) bool {
	if len(s) != len(t) {
		return false
	}
	for i := range s {
		if s[i].Lo.Cmp(t[i].Lo) != 0 || s[i].Hi.Cmp(t[i].Hi) != 0 {
			return false
		}
	}
	return true
}

func (s Set) String() string {
	var p []string
	for _, iv := range s {
		if iv.Lo.Cmp(iv.Hi) == 0 {
			p = append(p, iv.Lo.String())
		} else {
			p = append(p, iv.Lo.String()+".."+iv.Hi.String())
		}
	}
	return strings.Join(p, "|")
}

// Fault classes of a restriction string.
const (
	OK          = ""
	Syntax      = "syntax"       // not part ("|" part)* with part = bound [".." bound]
	OutOfOrder  = "out-of-order" // a part with lo > hi
	Unparseable = "unparseable"  // a bound that is not a number of the wanted form / does not fit
)

// Restriction is the reference reading of a range/length argument relative to a parent set.
type Restriction struct {
	Fault     string // one of the constants above, or OK
	Parts     []Iv   // as written (min/max resolved), when Fault == OK
	Set       Set    // normalised
	Ascending bool   // parts are in ascending order and disjoint (RFC-valid layout)
}

// ParseRestriction reads s at fd fraction digits (0 = integers) against parent (for min/max).
// Bounds must be [sign]digits[.digits] with at most fd fraction digits, or min/max.
func ParseRestriction(s string, fd int, parent Set) Restriction {
	var r Restriction
	parts := strings.Split(s, "|")
	for _, p := range parts {
		bs := strings.Split(p, "..")
		if len(bs) > 2 {
			r.Fault = Syntax
			return r
		}
		var iv Iv
		for i, b := range bs {
			b = strings.Trim(b, " \t\r\n")
			var v *big.Int
			switch b {
			case "min":
				if len(parent) == 0 {
					r.Fault = Unparseable
					return r
				}
				v = parent[0].Lo
			case "max":
				if len(parent) == 0 {
					r.Fault = Unparseable
					return r
				}
				v = parent[len(parent)-1].Hi
			default:
				q, fl, ok := ParseLiteral(b)
				if !ok {
					r.Fault = Syntax
					return r
				}
				if fl > fd {
					r.Fault = Unparseable
					return r
				}
				q.Mul(q, new(big.Rat).SetInt(Pow10(fd)))
				v = new(big.Int).Set(q.Num())
			}
			if i == 0 {
				iv.Lo, iv.Hi = v, v
			} else {
				iv.Hi = v
			}
		}
		if iv.Lo.Cmp(iv.Hi) > 0 {
			r.Fault = OutOfOrder
			return r
		}
		r.Parts = append(r.Parts, iv)
	}
	r.Set = Normalise(r.Parts)
	r.Ascending = true
	for i := 1; i < len(r.Parts); i++ {
		if r.Parts[i-1].Hi.Cmp(r.Parts[i].Lo) >= 0 {
			r.Ascending = false
		}
	}
	return r
}

// FormatMant prints mantissa m at fd fraction digits.
func FormatMant(m *big.Int, fd int) string {
	if fd == 0 {
		return m.String()
	}
	return new(big.Rat).SetFrac(m, Pow10(fd)).FloatString(fd)
}

func (iv Iv) String() string { return fmt.Sprintf("[%s,%s]", iv.Lo, iv.Hi) }
