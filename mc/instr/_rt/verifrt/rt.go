// Package verifrt owns the iteration order of the library's maps. The instrumenter rewrites every
// `range m` over a map into `range verifrt.Range(m, "file:line")`. Range snapshots the keys, sorts
// them canonically and asks the controller which order to use: answer 0 is the canonical order,
// answer k > 0 the k-th alternative permutation. Go leaves map order unspecified, so every
// permutation is an admissible behaviour of the original program.
package verifrt

import (
	"fmt"
	"iter"
	"os"
	"reflect"
	"sort"
	"strconv"
	"strings"
)

// Choose is installed by the harness; nil means canonical order everywhere.
var Choose func(n int, site string) int

// Instances counts range statements executed over maps with at least two keys (conformance figure).
var Instances int64

type srcer interface {
	NName() string
	Kind() string
}

func keyString(v reflect.Value) string {
	switch v.Kind() {
	case reflect.String:
		return "s:" + v.String()
	case reflect.Int, reflect.Int64, reflect.Int32, reflect.Int16, reflect.Int8:
		return fmt.Sprintf("i:%020d", v.Int()+(1<<62))
	case reflect.Uint, reflect.Uint64, reflect.Uint32, reflect.Uint16, reflect.Uint8:
		return fmt.Sprintf("u:%020d", v.Uint())
	}
	if v.CanInterface() {
		x := v.Interface()
		if e, ok := x.(error); ok && e != nil {
			return "e:" + e.Error()
		}
		if n, ok := x.(srcer); ok && !reflect.ValueOf(x).IsNil() { // a yang.Node: order by kind, name, source location
			loc := ""
			if m := reflect.ValueOf(x).MethodByName("Statement"); m.IsValid() {
				r := m.Call(nil)
				if len(r) == 1 && !r[0].IsNil() {
					if l := r[0].MethodByName("Location"); l.IsValid() {
						loc = l.Call(nil)[0].String()
					}
				}
			}
			return fmt.Sprintf("n:%s:%s:%s", n.Kind(), n.NName(), loc)
		}
	}
	NonCanonical[v.Type().String()] = true
	return fmt.Sprintf("p:%v", v)
}

// NonCanonical records key types for which no canonical order is defined (their order would fall
// back to addresses); the harness treats a non-empty set as an internal error.
var NonCanonical = map[string]bool{}

var altCache = map[int][][]int{}

// alternatives lists the non-identity orders offered for n keys: all permutations for n <= 3, else
// all rotations, all adjacent transpositions and the reversal.
func alternatives(n int) [][]int {
	if a, ok := altCache[n]; ok {
		return a
	}
	id := make([]int, n)
	for i := range id {
		id[i] = i
	}
	var out [][]int
	if n <= 3 {
		p := append([]int{}, id...)
		var rec func(k int)
		rec = func(k int) {
			if k == n {
				out = append(out, append([]int{}, p...))
				return
			}
			for i := k; i < n; i++ {
				p[k], p[i] = p[i], p[k]
				rec(k + 1)
				p[k], p[i] = p[i], p[k]
			}
		}
		rec(0)
		out = out[1:]
	} else {
		for r := 1; r < n; r++ {
			q := make([]int, n)
			for i := range q {
				q[i] = (i + r) % n
			}
			out = append(out, q)
		}
		for i := 0; i+1 < n; i++ {
			q := append([]int{}, id...)
			q[i], q[i+1] = q[i+1], q[i]
			out = append(out, q)
		}
		q := make([]int, n)
		for i := range q {
			q[i] = n - 1 - i
		}
		out = append(out, q)
	}
	altCache[n] = out
	return out
}

// Range iterates m in the order chosen by the controller.
func Range[M ~map[K]V, K comparable, V any](m M, site string) iter.Seq2[K, V] {
	return func(yield func(K, V) bool) {
		keys := make([]K, 0, len(m))
		for k := range m {
			keys = append(keys, k)
		}
		n := len(keys)
		idx := make([]int, n)
		for i := range idx {
			idx[i] = i
		}
		if n >= 2 {
			ks := make([]string, n)
			for i := range keys {
				ks[i] = keyString(reflect.ValueOf(&keys[i]).Elem())
			}
			sort.SliceStable(idx, func(a, b int) bool { return ks[idx[a]] < ks[idx[b]] })
			Instances++
			if Choose != nil {
				alts := alternatives(n)
				if c := Choose(len(alts)+1, site); c > 0 {
					p := alts[c-1]
					order := make([]int, n)
					for i := range p {
						order[i] = idx[p[i]]
					}
					idx = order
				}
			}
		}
		for _, i := range idx {
			k := keys[i]
			v, ok := m[k] // entries deleted meanwhile are skipped, entries added meanwhile are not visited
			if !ok {
				continue
			}
			if !yield(k, v) {
				return
			}
		}
	}
}

// A subprocess (the instrumented goyang command) is controlled through the environment:
// VERIFRT_PREFIX="c0,c1,..." fixes the answers of the first range instances (0 afterwards) and
// VERIFRT_LOG names a file that receives one "width site" line per instance.
func init() {
	pfx := os.Getenv("VERIFRT_PREFIX")
	logf := os.Getenv("VERIFRT_LOG")
	if pfx == "" && logf == "" {
		return
	}
	var prefix []int
	for _, s := range strings.Split(pfx, ",") {
		if s != "" {
			n, _ := strconv.Atoi(s)
			prefix = append(prefix, n)
		}
	}
	var out *os.File
	if logf != "" {
		out, _ = os.OpenFile(logf, os.O_CREATE|os.O_WRONLY|os.O_TRUNC, 0o644)
	}
	i := 0
	Choose = func(n int, site string) int {
		c := 0
		if i < len(prefix) {
			c = prefix[i]
			if c >= n {
				fmt.Fprintf(os.Stderr, "verifrt: replay divergence at instance %d: %d of %d\n", i, c, n)
				os.Exit(97)
			}
		}
		i++
		if out != nil {
			fmt.Fprintf(out, "%d %s\n", n, site)
		}
		return c
	}
}
