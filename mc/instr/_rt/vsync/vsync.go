// Prototype (validated under -race): drop-in for the subset of sync used by pkg/yang, routed through a
// cooperative scheduler whose hand-offs are raw pipe syscalls in //go:norace functions (invisible to the
// race detector). Instrumenter rewrites `"sync"` to `sync "…/verifrt/vsync"`.
// Harness: vsync.Init(n, prefix); spawn n goroutines {ThreadStart(i); body; ThreadExit(i)} with a real
// sync.WaitGroup; vsync.Start(); wg.Wait(); trace, nen, run, deadlock := vsync.Finish().
// Explorer: preemption cost of choice i = (run[i]==1 && trace[i]>0); branch on alt 1..nen[i]-1.
package vsync

import (
	"sync"
	"syscall"
	"unsafe"
)

const maxT = 8
const maxL = 1024

type sched struct {
	active          bool
	n               int
	rd, wr          [maxT]int
	mainRd, mainWr  int
	done            [maxT]bool
	pop             [maxT]int // pending op: 0 none, 1 lock, 2 rlock
	plock           [maxT]int
	writer          [maxL]int // owner+1
	readers         [maxL]int
	nlocks          int
	gen             int // number of the execution: a mutex that outlives one (package level) gets a new id in the next
	prefix          [4096]int
	plen, pos       int
	trace, nen, run [4096]int
	tlen            int
	cur             int
	deadlock        bool
}

var S sched

//go:norace
func wake(fd int) {
	var b [1]byte
	syscall.Syscall(syscall.SYS_WRITE, uintptr(fd), uintptr(unsafe.Pointer(&b[0])), 1)
}

//go:norace
func wait(fd int) {
	var b [1]byte
	for {
		n, _, e := syscall.Syscall(syscall.SYS_READ, uintptr(fd), uintptr(unsafe.Pointer(&b[0])), 1)
		if n == 1 {
			return
		}
		if e != syscall.EINTR && e != 0 {
			panic(e)
		}
	}
}

//go:norace
func (s *sched) enabled(i int) bool {
	switch s.pop[i] {
	case 1:
		return s.writer[s.plock[i]] == 0 && s.readers[s.plock[i]] == 0
	case 2:
		return s.writer[s.plock[i]] == 0
	}
	return true
}

//go:norace
func (s *sched) pick() int {
	var en [maxT]int
	k, r := 0, 0
	if s.cur >= 0 && !s.done[s.cur] && s.enabled(s.cur) {
		en[k] = s.cur
		k++
		r = 1
	}
	for i := 0; i < s.n; i++ {
		if i != s.cur && !s.done[i] && s.enabled(i) {
			en[k] = i
			k++
		}
	}
	if k == 0 {
		return -1
	}
	c := 0
	if s.pos < s.plen {
		c = s.prefix[s.pos]
	}
	s.pos++
	if c >= k {
		panic("replay divergence")
	}
	s.trace[s.tlen], s.nen[s.tlen], s.run[s.tlen] = c, k, r
	s.tlen++
	return en[c]
}

//go:norace
func (s *sched) point() {
	me := s.cur
	nx := s.pick()
	if nx == me {
		return
	}
	if nx < 0 {
		s.deadlock = true
		wake(s.mainWr)
		wait(s.rd[me])
		return
	}
	s.cur = nx
	wake(s.wr[nx])
	wait(s.rd[me])
}

//go:norace
func Init(n int, prefix []int) {
	s := &S
	s.n = n
	for i := 0; i < n; i++ {
		var p [2]int
		syscall.Pipe(p[:])
		s.rd[i], s.wr[i] = p[0], p[1]
		s.done[i], s.pop[i] = false, 0
	}
	var p [2]int
	syscall.Pipe(p[:])
	s.mainRd, s.mainWr = p[0], p[1]
	s.plen = len(prefix)
	for i := 0; i < len(prefix); i++ {
		s.prefix[i] = prefix[i]
	}
	s.pos, s.tlen, s.cur, s.deadlock = 0, 0, -1, false
	for i := 0; i < maxL; i++ {
		s.writer[i], s.readers[i] = 0, 0
	}
	s.nlocks = 1
	s.gen++
	emptyPools()
	s.active = true
}

//go:norace
func ThreadStart(me int) { wait(S.rd[me]) }

//go:norace
func ThreadExit(me int) {
	s := &S
	s.done[me] = true
	nx := s.pick()
	if nx < 0 {
		wake(s.mainWr)
		return
	}
	s.cur = nx
	wake(s.wr[nx])
}

//go:norace
func Start() { s := &S; first := s.pick(); s.cur = first; wake(s.wr[first]); wait(s.mainRd) }

//go:norace
func Finish() (trace, nen, run []int, deadlock bool) {
	s := &S
	s.active = false
	if !s.deadlock { // after a deadlock the blocked threads still sit on their pipes
		for i := 0; i < s.n; i++ {
			syscall.Close(s.rd[i])
			syscall.Close(s.wr[i])
		}
		syscall.Close(s.mainRd)
		syscall.Close(s.mainWr)
	}
	trace, nen, run = make([]int, s.tlen), make([]int, s.tlen), make([]int, s.tlen)
	for i := 0; i < s.tlen; i++ {
		trace[i], nen[i], run[i] = s.trace[i], s.nen[i], s.run[i]
	}
	return trace, nen, run, s.deadlock
}

// lid identifies a mutex within one execution.
type lid struct{ id, gen int }

//go:norace
func (s *sched) lockID(p *lid) int {
	if p.id == 0 || p.gen != s.gen {
		if s.nlocks >= maxL {
			panic("vsync: more than maxL mutexes in one execution")
		}
		p.id, p.gen = s.nlocks, s.gen
		s.nlocks++
	}
	return p.id
}

//go:norace
func acquire(idp *lid, mode int) {
	s := &S
	if !s.active {
		return
	}
	me := s.cur
	l := s.lockID(idp)
	s.pop[me], s.plock[me] = mode, l
	s.point()
	s.pop[me] = 0
	if mode == 1 {
		s.writer[l] = me + 1
	} else {
		s.readers[l]++
	}
}

//go:norace
func release(idp *lid, mode int) {
	s := &S
	if !s.active {
		return
	}
	l := s.lockID(idp)
	if mode == 1 {
		s.writer[l] = 0
	} else {
		s.readers[l]--
	}
	s.point()
}

// The real mutex is taken after the scheduler granted it (never blocks) so the race detector still
// sees the code's own synchronisation.
type Mutex struct {
	id   lid
	real sync.Mutex
}

func (m *Mutex) Lock()   { acquire(&m.id, 1); m.real.Lock() }
func (m *Mutex) Unlock() { m.real.Unlock(); release(&m.id, 1) }

type RWMutex struct {
	id   lid
	real sync.RWMutex
}

func (m *RWMutex) Lock()    { acquire(&m.id, 1); m.real.Lock() }
func (m *RWMutex) Unlock()  { m.real.Unlock(); release(&m.id, 1) }
func (m *RWMutex) RLock()   { acquire(&m.id, 2); m.real.RLock() }
func (m *RWMutex) RUnlock() { m.real.RUnlock(); release(&m.id, 2) }

// The rest of package sync is passed through unchanged: these operations are not scheduling points.
type (
	WaitGroup = sync.WaitGroup
	Once      = sync.Once
	Map       = sync.Map
	Cond      = sync.Cond
	Locker    = sync.Locker
)

// Pool stands in for sync.Pool with one of the behaviours sync.Pool may show, chosen so that nothing
// is left to chance: Get hands out the item that was Put last (the real pool may equally hand out any
// other, or none - it keeps items per processor and drops them at will, so what a caller meets would
// depend on where the runtime happened to run it). Reuse is therefore as frequent as it can be, which
// is the case in which an item that was put back in a used state shows. The pools are emptied when
// an execution under the scheduler begins, so that an execution does not depend on the one before
// it. Get and Put are not scheduling points.
type Pool struct {
	New func() any

	mu    sync.Mutex
	items []any
	known bool
}

var (
	poolsMu sync.Mutex
	pools   []*Pool
)

func (p *Pool) Get() any {
	p.mu.Lock()
	if n := len(p.items); n > 0 {
		x := p.items[n-1]
		p.items = p.items[:n-1]
		p.mu.Unlock()
		return x
	}
	p.mu.Unlock()
	if p.New != nil {
		return p.New()
	}
	return nil
}

func (p *Pool) Put(x any) {
	if x == nil {
		return
	}
	p.mu.Lock()
	p.items = append(p.items, x)
	first := !p.known
	p.known = true
	p.mu.Unlock()
	if first {
		poolsMu.Lock()
		pools = append(pools, p)
		poolsMu.Unlock()
	}
}

func emptyPools() {
	poolsMu.Lock()
	for _, p := range pools {
		p.mu.Lock()
		p.items = nil
		p.mu.Unlock()
	}
	poolsMu.Unlock()
}

// NewCond mirrors sync.NewCond.
func NewCond(l Locker) *Cond { return sync.NewCond(l) }

// TryLock is not used by the library; it is passed through and is not a scheduling point.
func (m *Mutex) TryLock() bool { return m.real.TryLock() }

// Run executes the bodies as n cooperative threads under the schedule prefix and returns the
// decisions taken: trace[i] is the choice made at point i among nen[i] enabled threads, and run[i]
// is 1 when the thread that was running was still enabled (so a non-zero choice is a preemption).
func Run(prefix []int, bodies []func()) (trace, nen, run []int, deadlock bool) {
	n := len(bodies)
	Init(n, prefix)
	var wg sync.WaitGroup
	for i := 0; i < n; i++ {
		wg.Add(1)
		go func(i int) {
			defer wg.Done()
			ThreadStart(i)
			defer ThreadExit(i)
			bodies[i]()
		}(i)
	}
	Start()
	if !S.deadlock {
		wg.Wait()
	}
	return Finish()
}
