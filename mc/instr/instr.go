// Package instr rewrites a scratch copy of goyang's working tree so that the explorer owns two
// sources of nondeterminism: (maps) every `range` over a map iterates through verifrt.Range;
// (sync) the package "sync" is replaced by the vsync shim whose lock operations are scheduling
// points of a cooperative scheduler. Both rewrites are syntax/type directed, so they apply equally
// to a refactored or mutated tree.
package instr

import (
	"bytes"
	"embed"
	"fmt"
	"go/ast"
	"go/format"
	"go/importer"
	"go/parser"
	"go/token"
	"go/types"
	"io/fs"
	"os"
	"path/filepath"
	"sort"
	"strconv"
	"strings"
)

//go:embed all:_rt
var rt embed.FS

const modulePath = "github.com/openconfig/goyang"

// CopyTree copies src to dst without .git.
func CopyTree(src, dst string) error {
	return filepath.Walk(src, func(p string, info os.FileInfo, err error) error {
		if err != nil {
			return err
		}
		rel, _ := filepath.Rel(src, p)
		if rel == ".git" {
			if info.IsDir() {
				return filepath.SkipDir
			}
			return nil // a worktree's .git is a file: skipping "the directory" would skip the whole tree
		}
		to := filepath.Join(dst, rel)
		if info.IsDir() {
			return os.MkdirAll(to, 0o755)
		}
		if !info.Mode().IsRegular() {
			return nil
		}
		b, err := os.ReadFile(p)
		if err != nil {
			return err
		}
		return os.WriteFile(to, b, 0o644)
	})
}

// InstallRuntime writes the embedded runtime packages into <copy>/pkg/verifrt and <copy>/pkg/verifrt/vsync.
func InstallRuntime(copyDir string) error {
	return fs.WalkDir(rt, "_rt", func(p string, d fs.DirEntry, err error) error {
		if err != nil || d.IsDir() {
			return err
		}
		rel := strings.TrimPrefix(p, "_rt/")
		var to string
		switch {
		case strings.HasPrefix(rel, "verifrt/"):
			to = filepath.Join(copyDir, "pkg", "verifrt", strings.TrimPrefix(rel, "verifrt/"))
		case strings.HasPrefix(rel, "vsync/"):
			to = filepath.Join(copyDir, "pkg", "verifrt", "vsync", strings.TrimPrefix(rel, "vsync/"))
		default:
			return nil
		}
		b, _ := rt.ReadFile(p)
		os.MkdirAll(filepath.Dir(to), 0o755)
		return os.WriteFile(to, b, 0o644)
	})
}

// BumpGoVersion sets the go directive of the copy's go.mod (range-over-func needs go 1.23).
func BumpGoVersion(copyDir, version string) error {
	p := filepath.Join(copyDir, "go.mod")
	b, err := os.ReadFile(p)
	if err != nil {
		return err
	}
	lines := strings.Split(string(b), "\n")
	for i, l := range lines {
		if strings.HasPrefix(l, "go ") {
			lines[i] = "go " + version
		}
		if strings.HasPrefix(l, "toolchain ") {
			lines[i] = ""
		}
	}
	return os.WriteFile(p, []byte(strings.Join(lines, "\n")), 0o644)
}

// Report says what was rewritten.
type Report struct {
	MapRanges   int
	SyncImports int
	Sites       []string
}

// Instrument rewrites the non-test Go files of the given package directories of the copy.
func Instrument(copyDir string, pkgDirs []string, maps, syncShim bool) (Report, error) {
	var rep Report
	for _, rel := range pkgDirs {
		dir := filepath.Join(copyDir, rel)
		fset := token.NewFileSet()
		pkgs, err := parser.ParseDir(fset, dir, func(fi os.FileInfo) bool { return !strings.HasSuffix(fi.Name(), "_test.go") }, parser.ParseComments)
		if err != nil {
			return rep, err
		}
		var pkgNames []string
		for n := range pkgs {
			pkgNames = append(pkgNames, n)
		}
		sort.Strings(pkgNames)
		for _, name := range pkgNames {
			pkg := pkgs[name]
			var names []string
			for fn := range pkg.Files {
				names = append(names, fn)
			}
			sort.Strings(names)
			var files []*ast.File
			for _, fn := range names {
				files = append(files, pkg.Files[fn])
			}
			info := &types.Info{Types: map[ast.Expr]types.TypeAndValue{}}
			if maps {
				conf := types.Config{Importer: importer.ForCompiler(fset, "source", nil), Error: func(err error) {}}
				conf.Check(name, fset, files, info)
			}
			for i, f := range files {
				changed := false
				if maps {
					n := 0
					ast.Inspect(f, func(nd ast.Node) bool {
						rs, ok := nd.(*ast.RangeStmt)
						if !ok {
							return true
						}
						tv, ok := info.Types[rs.X]
						if !ok || tv.Type == nil {
							return true
						}
						if _, isMap := tv.Type.Underlying().(*types.Map); !isMap {
							return true
						}
						pos := fset.Position(rs.Pos())
						site := fmt.Sprintf("%s:%d", filepath.Base(pos.Filename), pos.Line)
						rs.X = &ast.CallExpr{Fun: &ast.SelectorExpr{X: ast.NewIdent("verifrt"), Sel: ast.NewIdent("Range")},
							Args: []ast.Expr{rs.X, &ast.BasicLit{Kind: token.STRING, Value: strconv.Quote(site)}}}
						rep.Sites = append(rep.Sites, site)
						n++
						return true
					})
					if n > 0 {
						rep.MapRanges += n
						imp := &ast.ImportSpec{Path: &ast.BasicLit{Kind: token.STRING, Value: strconv.Quote(modulePath + "/pkg/verifrt")}}
						f.Imports = append(f.Imports, imp)
						f.Decls = append([]ast.Decl{&ast.GenDecl{Tok: token.IMPORT, Specs: []ast.Spec{imp}}}, f.Decls...)
						changed = true
					}
				}
				if syncShim {
					for _, im := range f.Imports {
						if im.Path.Value == `"sync"` {
							im.Path.Value = strconv.Quote(modulePath + "/pkg/verifrt/vsync")
							if im.Name == nil {
								im.Name = ast.NewIdent("sync")
							}
							rep.SyncImports++
							changed = true
						}
					}
				}
				if changed {
					var buf bytes.Buffer
					if err := format.Node(&buf, fset, f); err != nil {
						return rep, err
					}
					if err := os.WriteFile(names[i], buf.Bytes(), 0o644); err != nil {
						return rep, err
					}
				}
			}
		}
	}
	return rep, nil
}
