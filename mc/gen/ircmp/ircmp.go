// Package ircmp compares the Entry trees goyang builds with the expected trees of the IR reference.
package ircmp

import (
	"fmt"
	"sort"
	"strings"

	"github.com/openconfig/goyang/pkg/yang"
	"verif/mc/dump"
	"verif/mc/gen/ir"
)

// KindOf names an entry's kind in IR terms.
func KindOf(e *yang.Entry) string {
	switch {
	case e.Kind == yang.LeafEntry && e.ListAttr != nil:
		return "leaf-list"
	case e.Kind == yang.LeafEntry:
		return "leaf"
	case e.RPC != nil:
		return "rpc"
	case isAction(e):
		// an action written without input and output has no RPC part (an rpc gets an empty one)
		return "rpc"
	case e.Kind == yang.ChoiceEntry:
		return "choice"
	case e.Kind == yang.CaseEntry:
		return "case"
	case e.Kind == yang.InputEntry:
		return "input"
	case e.Kind == yang.OutputEntry:
		return "output"
	case e.Kind == yang.NotificationEntry:
		return "notification"
	case e.Kind == yang.AnyDataEntry:
		return "anydata"
	case e.Kind == yang.AnyXMLEntry:
		return "anyxml"
	case e.ListAttr != nil:
		return "list"
	}
	return "container"
}

func isAction(e *yang.Entry) bool {
	_, ok := e.Node.(*yang.Action)
	return ok
}

// What selects the attributes compared.
type What struct {
	Shape, NS, RO, Type, Attrs bool
}

var All = What{true, true, true, true, true}

// Kids returns the children of an entry including rpc input and output.
func Kids(e *yang.Entry) map[string]*yang.Entry {
	kids := map[string]*yang.Entry{}
	for k, v := range e.Dir {
		kids[k] = v
	}
	if e.RPC != nil {
		if e.RPC.Input != nil {
			kids["input"] = e.RPC.Input
		}
		if e.RPC.Output != nil {
			kids["output"] = e.RPC.Output
		}
	}
	return kids
}

// Compare reports differences between expected n and observed e (path-prefixed, sorted).
func Compare(n *ir.E, e *yang.Entry, what What) []string {
	d := map[string]bool{}
	compare(n, e, "", what, d)
	var out []string
	for k := range d {
		out = append(out, k)
	}
	sort.Strings(out)
	return out
}

func safe(f func() string) (s string) {
	defer func() {
		if r := recover(); r != nil {
			s = "PANIC"
		}
	}()
	return f()
}

func compare(n *ir.E, e *yang.Entry, path string, w What, d map[string]bool) {
	add := func(f string, a ...any) { d[path+": "+fmt.Sprintf(f, a...)] = true }
	if n.Kind != "module" {
		if k := KindOf(e); w.Shape && k != n.Kind {
			add("kind %s, want %s", k, n.Kind)
		}
		if w.Shape {
			// the kind predicates say what the kind is
			is := map[string]bool{"leaf": e.IsLeaf(), "leaf-list": e.IsLeafList(), "list": e.IsList(), "choice": e.IsChoice(), "case": e.IsCase()}
			for k, v := range is {
				if v != (k == n.Kind) {
					add("Is-predicate for %s says %v on a %s", k, v, n.Kind)
				}
			}
			if n.Kind == "container" && !e.IsContainer() {
				add("IsContainer is false on a container")
			}
			if leafish := n.Kind == "leaf" || n.Kind == "leaf-list"; e.IsDir() == leafish && n.Kind != "rpc" && n.Kind != "anydata" && n.Kind != "anyxml" {
				add("IsDir says %v on a %s", e.IsDir(), n.Kind)
			}
		}
		if w.NS && !n.Implicit {
			ns := strings.TrimPrefix(safe(func() string { return e.Namespace().Name }), "urn:")
			if ns != n.NS {
				add("namespace %q, want %q", ns, n.NS)
			}
			im := safe(func() string {
				m, err := e.InstantiatingModule()
				if err != nil {
					return "ERR:" + err.Error()
				}
				return m
			})
			if im != n.NS {
				add("instantiating module %q, want %q", im, n.NS)
			}
			// asked a second time, the answers are the same
			if ns2 := strings.TrimPrefix(safe(func() string { return e.Namespace().Name }), "urn:"); ns2 != ns {
				add("namespace %q when asked again, %q before", ns2, ns)
			}
			if m2, err := e.InstantiatingModule(); err == nil && m2 != im {
				add("instantiating module %q when asked again, %q before", m2, im)
			}
		}
		if w.RO {
			if ro := safe(func() string { return fmt.Sprint(e.ReadOnly()) }); ro != fmt.Sprint(n.RO) {
				add("read-only %s, want %v", ro, n.RO)
			}
		}
		if w.Type && n.TypeKind != "" {
			switch {
			case e.Type == nil:
				add("no type, want %s", n.TypeKind)
			case yang.TypeKindToName[e.Type.Kind] != n.TypeKind:
				add("type kind %s, want %s (%s)", yang.TypeKindToName[e.Type.Kind], n.TypeKind, dump.Type(e.Type, 0))
			case n.TypeName != "" && e.Type.Name != n.TypeName:
				add("type name %s, want %s", e.Type.Name, n.TypeName)
			}
		}
		if w.Attrs {
			def := ""
			if len(e.Default) > 0 {
				def = strings.Join(e.Default, ",")
			}
			if def != n.Default {
				add("default %q, want %q", def, n.Default)
			}
			if n.Min != "" && (e.ListAttr == nil || fmt.Sprint(e.ListAttr.MinElements) != n.Min) {
				add("min-elements differ, want %s", n.Min)
			}
			if n.Max != "" && (e.ListAttr == nil || fmt.Sprint(e.ListAttr.MaxElements) != n.Max) {
				add("max-elements differ, want %s", n.Max)
			}
			// constraints and extension statements written on the node travel with every copy
			wantMust := 0
			if n.Must != "" {
				wantMust = 1
			}
			if got := len(e.Extra["must"]); got != wantMust {
				add("%d must constraints, want %d", got, wantMust)
			}
			var notes []string
			for _, x := range e.Exts {
				if x.Keyword == "x:note" {
					notes = append(notes, x.Argument)
				}
			}
			if want := n.Ext; (want == "" && len(notes) > 0) || (want != "" && (len(notes) != 1 || notes[0] != want)) {
				add("extension statements %q, want %q", notes, want)
			}
		}
	}
	kids := Kids(e)
	for name, c := range n.Kids {
		ce := kids[name]
		if ce == nil {
			if w.Shape {
				// an unwritten, unaugmented input/output may be absent
				if (name == "input" || name == "output") && len(c.Kids) == 0 {
					continue
				}
				d[path+"/"+name+": missing"] = true
			}
			continue
		}
		if w.Shape && ce.Parent != e {
			d[path+"/"+name+": parent link does not point to the node it is filed under"] = true
		}
		compare(c, ce, path+"/"+name, w, d)
	}
	if w.Shape {
		for k, ce := range kids {
			if n.Kids[k] == nil {
				if (k == "input" || k == "output") && len(Kids(ce)) == 0 {
					continue
				}
				d[path+"/"+k+": unexpected node"] = true
			}
		}
	}
}

// Load parses the world's modules in the given order and processes them.
func Load(w *ir.World, order []string) (ms *yang.Modules, loadErr error, errs []error) {
	ms = yang.NewModules()
	for _, n := range order {
		if err := ms.Parse(w.Mods[n].Text(), n+".yang"); err != nil {
			return ms, fmt.Errorf("%s: %v", n, err), nil
		}
	}
	return ms, nil, ms.Process()
}

// Files renders the world for replay files.
func Files(w *ir.World, order []string) []dump.File {
	var out []dump.File
	for _, n := range order {
		out = append(out, dump.File{Name: n + ".yang", Text: w.Mods[n].Text()})
	}
	return out
}

// PrintMarks compares the RO: / rw: marks of Entry.Print with ReadOnly() node by node: Print walks
// the child maps in name order, one marked line per node.
func PrintMarks(e *yang.Entry) string {
	var sb strings.Builder
	e.Print(&sb)
	var marks []bool
	for _, l := range strings.Split(sb.String(), "\n") {
		switch t := strings.TrimLeft(l, " "); {
		case strings.HasPrefix(t, "RO: "):
			marks = append(marks, true)
		case strings.HasPrefix(t, "rw: "):
			marks = append(marks, false)
		}
	}
	var paths []string
	var want []bool
	var walk func(x *yang.Entry, p string)
	walk = func(x *yang.Entry, p string) {
		paths, want = append(paths, p), append(want, x.ReadOnly())
		var ks []string
		for k := range x.Dir {
			ks = append(ks, k)
		}
		sort.Strings(ks)
		for _, k := range ks {
			walk(x.Dir[k], p+"/"+k)
		}
	}
	walk(e, "")
	if len(marks) != len(want) {
		return fmt.Sprintf("Print marks %d nodes, the tree has %d", len(marks), len(want))
	}
	for i := range want {
		if marks[i] != want[i] {
			return fmt.Sprintf("%s: printed read-only=%v, ReadOnly()=%v", paths[i], marks[i], want[i])
		}
	}
	return ""
}
