// Package fam enumerates schema families over the IR: every instance of one feature within a bound.
package fam

import (
	"fmt"
	"strings"

	"verif/mc/gen/ir"
)

// Case is one generated program.
type Case struct {
	Desc  string
	W     *ir.World
	Flags map[string]bool
	// Uses family: the wrapper node names of the using sites (module -> node), for the independence phase.
	Sites [][2]string
}

func has(s, sub string) bool { return strings.Contains(s, sub) }

// ---------------------------------------------------------------------------------------------
// USES

type usite struct {
	mod  string
	wrap func(u *ir.S) *ir.S
	id   string
	node string // name of the top-level node that holds the copy
}

func usesSites() []usite {
	return []usite{
		{"a", func(u *ir.S) *ir.S { return ir.Cont("ua", u) }, "a:container", "ua"},
		{"b", func(u *ir.S) *ir.S { return ir.Cont("ub", u) }, "b:container", "ub"},
		{"b", func(u *ir.S) *ir.S { return ir.Cont("ubf", u).WithCfg("false") }, "b:container-cfg-false", "ubf"},
		{"a", func(u *ir.S) *ir.S { return ir.N("list", "uli", u) }, "a:list", "uli"},
		{"b", func(u *ir.S) *ir.S { return ir.N("choice", "uch", ir.N("case", "uc", u)) }, "b:case", "uch"},
		{"a", func(u *ir.S) *ir.S { return ir.N("rpc", "urpc", ir.N("input", "", u)) }, "a:rpc-input", "urpc"},
		{"b", func(u *ir.S) *ir.S { return ir.N("rpc", "urpo", ir.N("output", "", u)) }, "b:rpc-output", "urpo"},
		{"b", func(u *ir.S) *ir.S { return ir.N("notification", "un", u) }, "b:notification", "un"},
		{"as", func(u *ir.S) *ir.S { return ir.Cont("uas", u) }, "as:container", "uas"},
		{"b", func(u *ir.S) *ir.S { return ir.Cont("ub2", ir.Cont("deep", u)) }, "b:nested-container", "ub2"},
	}
}

func usesBodies(T string) [][]*ir.S {
	leafD := ir.Leaf("gd", T)
	leafD.Default = "3"
	ll := &ir.S{Kind: "leaf-list", Name: "gll", Type: T, Min: "1", Max: "4"}
	ll3 := &ir.S{Kind: "leaf-list", Name: "gl3", Type: T, Default: "1,2,3"} // three defaults: a slice with spare capacity
	li := &ir.S{Kind: "list", Name: "gli", Min: "2", Max: "7", Kids: []*ir.S{ir.Leaf("v", T)}}
	return [][]*ir.S{
		{ir.Leaf("gl", T)},
		{ir.Cont("gc", ir.Leaf("x", T), ir.Cont("in", ir.Leaf("y", "string")).WithCfg("true")).WithCfg("false")},
		{li},
		{ir.N("choice", "gch", ir.Leaf("s", T), ir.N("case", "ck", ir.Leaf("kk", "string")))},
		{ll},
		{ir.Cont("ga", ir.N("action", "go", ir.N("input", "", ir.Leaf("p", T)), ir.N("output", "", ir.Leaf("q", "string"))), ir.N("action", "bare"), ir.Leaf("beside", T), ir.Cont("below", ir.Leaf("deep", "string")))},
		{ir.Uses("g2")},
		{ir.Typedef("lt", "int64"), ir.Leaf("ltl", "lt")},
		{leafD, ir.N("anydata", "gad"), ir.N("anyxml", "gax")},
		{ir.Cont("gn", ir.Uses("g2"), ir.Leaf("own", T))},
		{ll3, ir.Leaf("after", T)},
		// constraints and extension statements on the grouping's nodes
		{&ir.S{Kind: "leaf", Name: "gm", Type: T, Must: "1 = 1", Ext: "on-leaf"}, &ir.S{Kind: "container", Name: "gmc", Ext: "on-container", Must: "2 = 2", Kids: []*ir.S{ir.Leaf("inner", "string")}}},
		// directory nodes without children (their child map is empty, not absent)
		{ir.Cont("ge"), ir.Leaf("gl2", T), ir.N("choice", "gce", ir.N("case", "emptycase"), ir.Leaf("gcs", T))},
		// choices nested below shorthand members of other choices
		{ir.N("choice", "och", ir.Cont("oc", ir.N("choice", "ich", ir.Leaf("il", T), ir.N("case", "ick", ir.Leaf("ikl", "string")))), ir.N("list", "ol", ir.N("choice", "lch", ir.Leaf("ll2", T))))},
		// awkward but legal names: statement keywords (a container named input inside an rpc's input),
		// siblings that differ only in case, dots, dashes, a lone underscore, numeric suffixes whose
		// natural and lexicographic orders differ
		{ir.Cont("input", ir.Leaf("type", T), ir.Leaf("Type", T), ir.Cont("output", ir.Leaf("default", T), ir.Leaf("config", "string"))),
			ir.Leaf("a.b", T), ir.Leaf("a-b", T), ir.Leaf("_", T), ir.Leaf("e10", T), ir.Leaf("e9", T),
			ir.N("choice", "case", ir.N("case", "choice", ir.Leaf("uses", "string")), ir.Leaf("leaf", T))},
	}
}

// USES enumerates grouping definition sites x bodies x pairs of using sites x the type used inside.
func USES(tier string, f func(Case)) {
	types := []string{"string", "t"} // t is int8 in a, int16 in b, int32 inside a container of a
	if tier == "thorough" {
		types = append(types, "OWN:t") // spelled with the defining module's own prefix: binds like the bare name
	}
	// split: g in submodule as, g2 (used by some bodies of g) at the top of a, g3 (used by g2) in a
	// second submodule as2; split-inc: the same with as including its sibling as2
	defSites := []string{"a-top", "a-container", "as-top", "b-top", "split", "split-inc"}
	sites := usesSites()
	for _, T := range types {
		for bi, body0 := range usesBodies(T) {
			for _, ds := range defSites {
				body := body0
				if strings.HasPrefix(T, "OWN:") {
					// the grouping is written in a (or its submodule) or in b: use that module's prefix
					pfx := "a"
					if ds == "b-top" {
						pfx = "b"
					}
					body = usesBodies(pfx + ":t")[bi]
				}
				for si, s1 := range sites {
					for sj, s2 := range sites {
						if sj < si {
							continue
						}
						special := func(id string) bool { return has(id, "rpc") || has(id, "notification") }
						if ds == "a-container" && (special(s1.id) || special(s2.id)) {
							continue // rpc and notification only at module top level
						}
						if (bi == 1 || bi == 5) && (special(s1.id) || special(s2.id)) {
							continue // explicit config, and actions, are not used inside rpc/notification
						}
						a := &ir.Mod{Name: "a", Includes: []string{"as"}, Imports: []string{"b"}}
						as := &ir.Mod{Name: "as", Owner: "a", Imports: []string{"b"}}
						b := &ir.Mod{Name: "b", Imports: []string{"a"}}
						as2 := &ir.Mod{Name: "as2", Owner: "a", Imports: []string{"b"}}
						a.Body = append(a.Body, ir.Typedef("t", "int8"))
						b.Body = append(b.Body, ir.Typedef("t", "int16"))
						var kids []*ir.S
						for _, k := range body {
							kids = append(kids, k.Clone())
						}
						g := ir.Group("g", kids...)
						Tn := T
						if strings.HasPrefix(T, "OWN:") {
							Tn = "a:t"
							if ds == "b-top" {
								Tn = "b:t"
							}
						}
						g2 := ir.Group("g2", ir.Leaf("g2l", Tn), ir.Uses("g3"))
						g3 := ir.Group("g3", ir.Leaf("g3l", Tn))
						name := map[string]string{}
						flags := map[string]bool{}
						switch ds {
						case "a-top":
							a.Body = append(a.Body, g, g2, g3)
							name["a"], name["as"], name["b"] = "g", "a:g", "a:g"
						case "as-top":
							as.Body = append(as.Body, g, g2, g3)
							name["a"], name["as"], name["b"] = "g", "g", "a:g"
						case "b-top":
							b.Body = append(b.Body, g, g2, g3)
							name["a"], name["as"], name["b"] = "b:g", "b:g", "g"
						case "split", "split-inc":
							as.Body = append(as.Body, g)
							a.Body = append(a.Body, g2)
							as2.Body = append(as2.Body, g3)
							a.Includes = []string{"as", "as2"}
							if ds == "split-inc" {
								as.Includes = []string{"as2"}
							}
							name["a"], name["as"], name["b"] = "g", "g", "a:g"
						}
						var used [][2]string
						if ds == "a-container" {
							if s1.mod != "a" || s2.mod != "a" {
								continue
							}
							// a scoped grouping named with the module's own prefix is still the scoped one:
							// by the second using site, by a lone site for every other body, and by g2
							// for the remaining bodies
							first := "g"
							if sj == si && bi%2 == 1 {
								first = "a:g"
							}
							if bi%2 == 0 {
								g2.Kids[1].Name = "a:g3"
							}
							c := ir.Cont("scopec", g, g2, g3, ir.Typedef("t", "int32"), s1.wrap(ir.Uses(first)))
							if sj != si {
								c.Kids = append(c.Kids, s2.wrap(ir.Uses("a:g")))
							}
							a.Body = append(a.Body, c)
						} else {
							mods := map[string]*ir.Mod{"a": a, "as": as, "b": b}
							// a submodule sees its owner's top-level definitions only per the RFC; the
							// library does not implement that direction (recorded finding), so the
							// submodule uses only what it or an imported module defines
							if (s1.mod == "as" || s2.mod == "as") && ds == "a-top" {
								flags["submodule-uses-owner-definition"] = true
							}
							mods[s1.mod].Body = append(mods[s1.mod].Body, s1.wrap(ir.Uses(name[s1.mod])))
							used = append(used, [2]string{s1.mod, s1.node})
							if sj != si {
								mods[s2.mod].Body = append(mods[s2.mod].Body, s2.wrap(ir.Uses(name[s2.mod])))
								used = append(used, [2]string{s2.mod, s2.node})
							}
						}
						if T != "string" && (ds == "as-top" || has(ds, "split")) {
							flags["submodule-uses-owner-definition"] = true // type t of the owner referenced from the submodule
						}
						variant := ""
						switch (bi + si + sj) % 4 {
						case 1: // every module carries a revision: registered under name and name@revision
							a.Rev, as.Rev, as2.Rev, b.Rev = "2020-01-01", "2019-05-05", "2018-03-03", "2021-02-02"
							variant = " revisions"
						case 2: // the submodule knows module b under a prefix of its own
							if ds == "b-top" && (s1.mod == "as" || s2.mod == "as") {
								as.Imports = nil
								as.Alias = map[string]string{"z": "b"}
								for _, st := range as.Body {
									renameUses(st, "b:g", "z:g")
								}
								variant = " submodule-alias"
							}
						}
						mods := []*ir.Mod{a, as, b}
						if has(ds, "split") {
							mods = []*ir.Mod{a, as, as2, b}
						}
						if (bi+si+sj)%4 == 3 && (ds == "as-top" || has(ds, "split")) {
							// the grouping (written in the submodule) has a leaf whose type carries a
							// prefix that the submodule binds to b and its owner to a third module
							g.Kids = append(g.Kids, ir.Leaf("fp", "p:t"))
							as.Alias = map[string]string{"p": "b"}
							a.Alias = map[string]string{"p": "c"}
							mods = append(mods, &ir.Mod{Name: "c", Body: []*ir.S{ir.Typedef("t", "uint8"), ir.Leaf("cpad", "string")}})
							variant = " one-prefix-two-modules"
						}
						w := ir.NewWorld(mods...)
						f(Case{Desc: fmt.Sprintf("T=%s body#%d def=%s uses=%s,%s%s", T, bi, ds, s1.id, s2.id, variant), W: w, Flags: flags, Sites: used})
						// the same schema with its prefixes spelled otherwise (dotted; the names of
						// other loaded modules; one prefix declared by all modules)
						ps := 1 + (bi+si+sj)%(ir.PrefixSchemes-1)
						f(Case{Desc: fmt.Sprintf("T=%s body#%d def=%s uses=%s,%s%s prefix-scheme=%d", T, bi, ds, s1.id, s2.id, variant, ps), W: ir.Reprefix(w, ps), Flags: flags, Sites: used})
					}
				}
			}
		}
	}
}

func renameUses(s *ir.S, from, to string) {
	if s.Kind == "uses" && s.Name == from {
		s.Name = to
	}
	for _, k := range s.Kids {
		renameUses(k, from, to)
	}
}

// ---------------------------------------------------------------------------------------------
// AUG

type AugSpec struct {
	Mod    string
	Target string // slash separated names below module a
	Body   int
	// Pfx (of the first augment of a list): the prefix scheme of the whole world, see ir.Reprefix
	Pfx int `json:",omitempty"`
}

func augBase() (a, as *ir.Mod) {
	a = &ir.Mod{Name: "a", Includes: []string{"as"}}
	as = &ir.Mod{Name: "as", Owner: "a"}
	a.Body = []*ir.S{
		ir.Group("ga", ir.Leaf("gal", "string"), ir.Cont("gac", ir.Leaf("deep", "string")), ir.Cont("gempty")),
		ir.Cont("top", ir.Cont("c", ir.Leaf("l", "string")), ir.N("list", "li", ir.Leaf("v", "string")),
			// shorthand members that hold a leaf of their own name: a path that spells the implied case
			// (.../ch/sc/sc) reads one level too deep as long as the implied cases are not there
			ir.N("choice", "ch", ir.N("case", "ka", ir.Leaf("kk", "string")), ir.Leaf("s", "string"),
				ir.Cont("sc", ir.Leaf("sc", "string"), ir.Leaf("o", "string")), ir.N("list", "sl", ir.Leaf("sl", "string"))),
			// ... and one that holds a container of its own name (targets: AugTargetsKnown)
			ir.N("choice", "chm", ir.Cont("sm", ir.Cont("sm", ir.Leaf("x", "string")), ir.Leaf("y", "string"))),
			ir.Leaf("tl", "string"), &ir.S{Kind: "leaf-list", Name: "tll", Type: "string"}, ir.Cont("u", ir.Uses("ga")), ir.Cont("u2", ir.Uses("ga")), ir.Cont("empty")),
		ir.N("rpc", "r"),
		ir.N("rpc", "r2", ir.N("input", "", ir.Leaf("i", "string"))),
		ir.N("notification", "n", ir.Leaf("nl", "string")),
	}
	// (an rpc without input and output written in the submodule: its tree is copied into the module's)
	as.Body = []*ir.S{ir.Cont("subc", ir.Leaf("sl", "string")), ir.N("rpc", "sr")}
	return
}

var AugTargets = []string{"top", "top/c", "top/li", "top/ch", "top/ch/ka", "top/tl", "top/tll", "r/input", "r/output", "r2/input", "r2/output", "n", "top/nope",
	"top/c/e", "top/e", "top/u", "top/u/gac", "subc", "top/ch/kz", "r2/input/e", "top/c/e/h", "top/u/gempty", "top/empty",
	// through the implied case of a shorthand member, spelled as RFC 7950 7.9.2 requires: the member container, the
	// member list, the leaf inside the member (cannot have children), the container inside the member of chm
	// the member of chm, which holds a container of its own name (the library used to graft into that
	// inner container; repaired, f8c6f7c)
	"top/ch/sc/sc", "top/ch/sl/sl", "top/ch/sc/sc/sc", "top/chm/sm/sm/sm", "top/chm/sm/sm",
	// input and output, not written, of an rpc that is written in the submodule
	"sr/input", "sr/output"}

// AugTargetsKnown: targets on which the library is known to fail (none at present); only C07 uses them.
var AugTargetsKnown = []string{}

// AUGKnown enumerates the single augments of AugTargetsKnown.
func AUGKnown(f func(augs []AugSpec)) {
	for _, t := range AugTargetsKnown {
		for b := 0; b < AugBodies; b++ {
			if !augFits(t, b) {
				continue
			}
			for _, m := range []string{"a", "as", "b", "c"} {
				f([]AugSpec{{Mod: m, Target: t, Body: b}})
			}
		}
	}
}

func augBody(i int) []*ir.S {
	switch i {
	case 0:
		return []*ir.S{ir.Leaf("x", "string")}
	case 1:
		return []*ir.S{ir.Cont("e", ir.Leaf("f", "string"))}
	case 2:
		return []*ir.S{ir.Leaf("l", "string")} // collides under top/c
	case 3:
		return []*ir.S{ir.Leaf("x", "string"), ir.Leaf("z", "string")}
	case 4:
		return []*ir.S{ir.Uses("a:ga")}
	case 5:
		return []*ir.S{ir.N("case", "kz", ir.Leaf("kzl", "string"))}
	case 6:
		return []*ir.S{ir.Cont("e", ir.Cont("h", ir.Leaf("hh", "string")))}
	case 7:
		return []*ir.S{ir.Cont("e", ir.N("choice", "ech", ir.Leaf("el", "string"), ir.Cont("ec", ir.N("choice", "ech2", ir.Leaf("el2", "string")))))}
	}
	return nil
}

const AugBodies = 8

// AugWorld builds the modules for a list of augments in declaration order.
func AugWorld(augs []AugSpec) *ir.World {
	a, as := augBase()
	mods := map[string]*ir.Mod{"a": a, "as": as}
	order := []*ir.Mod{a, as}
	for _, n := range []string{"b", "c"} {
		used := false
		for _, x := range augs {
			if x.Mod == n {
				used = true
			}
		}
		if used {
			m := &ir.Mod{Name: n, Imports: []string{"a"}}
			mods[n] = m
			order = append(order, m)
		}
	}
	for _, x := range augs {
		body := augBody(x.Body)
		if x.Mod == "a" || x.Mod == "as" {
			for _, s := range body {
				if s.Kind == "uses" {
					s.Name = "ga"
				}
			}
		}
		path := "/a:" + strings.ReplaceAll(x.Target, "/", "/a:")
		mods[x.Mod].Body = append(mods[x.Mod].Body, ir.Aug(path, body...))
	}
	h := 0
	for _, x := range augs {
		h += len(x.Target)*7 + x.Body*3 + len(x.Mod)
	}
	if h%3 == 1 { // every module carries a revision
		for i, m := range order {
			m.Rev = fmt.Sprintf("202%d-01-01", i)
		}
	}
	return ir.Reprefix(ir.NewWorld(order...), augs[0].Pfx)
}

// validBody says whether the body kind fits the target kind in YANG terms (case only into a choice).
func augFits(target string, body int) bool {
	isChoice := target == "top/ch"
	if body == 5 {
		return isChoice
	}
	return true
}

// AUG enumerates single augments and restricted pairs and triples (chains, collisions, same target).
func AUG(tier string, f func(augs []AugSpec)) {
	mods := []string{"a", "as", "b", "c"}
	var one []AugSpec
	for _, t := range AugTargets {
		for b := 0; b < AugBodies; b++ {
			if !augFits(t, b) {
				continue
			}
			for _, m := range mods {
				one = append(one, AugSpec{Mod: m, Target: t, Body: b})
			}
		}
	}
	withPfx := func(augs []AugSpec, ps int) []AugSpec {
		out := append([]AugSpec{}, augs...)
		out[0].Pfx = ps
		return out
	}
	for _, a := range one {
		f([]AugSpec{a})
		for ps := 1; ps < ir.PrefixSchemes; ps++ {
			f(withPfx([]AugSpec{a}, ps))
		}
	}
	stride := 11
	if tier == "thorough" {
		stride = 2
	}
	for i, a := range one {
		if i%stride != 1 {
			continue
		}
		for j, b := range one {
			f([]AugSpec{a, b})
			if j%5 == i%5 {
				f(withPfx([]AugSpec{a, b}, 1+(i+j)%(ir.PrefixSchemes-1)))
			}
		}
	}
	// chains of three: e created by the first, h below e by the second, a leaf below h by the third
	for _, m1 := range mods {
		for _, m2 := range mods {
			for _, m3 := range mods {
				for _, p := range [][3]int{{0, 1, 2}, {2, 1, 0}, {1, 2, 0}, {2, 0, 1}} {
					specs := []AugSpec{{Mod: m1, Target: "top/c", Body: 1}, {Mod: m2, Target: "top/c/e", Body: 6}, {Mod: m3, Target: "top/c/e/e/h", Body: 0}}
					f([]AugSpec{specs[p[0]], specs[p[1]], specs[p[2]]})
					f(withPfx([]AugSpec{specs[p[0]], specs[p[1]], specs[p[2]]}, 1+(p[0]+len(m1)+len(m2)*2+len(m3))%(ir.PrefixSchemes-1)))
				}
			}
		}
	}
}

// ---------------------------------------------------------------------------------------------
// CFG

var tri = []string{"", "true", "false"}

// CFG enumerates config assignments over composition contexts.
func CFG(tier string, f func(Case)) {
	k := 0
	mk := func(desc string, mods ...*ir.Mod) {
		w := ir.NewWorld(mods...)
		f(Case{Desc: desc, W: w})
		if len(mods) > 1 {
			k++
			ps := 1 + k%(ir.PrefixSchemes-1)
			f(Case{Desc: fmt.Sprintf("%s prefix-scheme=%d", desc, ps), W: ir.Reprefix(w, ps)})
		}
	}
	// 1. plain nesting, five nodes deep
	for c := 0; c < 243; c++ {
		x := []string{tri[c%3], tri[c/3%3], tri[c/9%3], tri[c/27%3], tri[c/81%3]}
		leaf := ir.Leaf("x", "string").WithCfg(x[4])
		a := &ir.Mod{Name: "a", Body: []*ir.S{ir.Cont("c1", ir.Cont("c2", ir.N("list", "l3", ir.Cont("c4", leaf).WithCfg(x[3])).WithCfg(x[2])).WithCfg(x[1])).WithCfg(x[0])}}
		mk(fmt.Sprintf("nest %v", x), a)
	}
	// 2. through uses: config at the user, on the grouping's container, on its leaf; grouping in a, user in b or a
	for c := 0; c < 81; c++ {
		x := []string{tri[c%3], tri[c/3%3], tri[c/9%3], tri[c/27%3]}
		for _, user := range []string{"a", "b", "as"} {
			a := &ir.Mod{Name: "a", Includes: []string{"as"}, Imports: []string{"b"}}
			as := &ir.Mod{Name: "as", Owner: "a", Imports: []string{"b"}}
			b := &ir.Mod{Name: "b", Imports: []string{"a"}}
			g := ir.Group("g", ir.Cont("gc", ir.Leaf("gl", "string").WithCfg(x[2]), ir.Uses("g2")).WithCfg(x[1]))
			g2 := ir.Group("g2", ir.Leaf("g2l", "string").WithCfg(x[3]))
			b.Body = append(b.Body, g, g2)
			u := ir.Cont("u", ir.Uses("b:g")).WithCfg(x[0])
			switch user {
			case "a":
				a.Body = append(a.Body, u)
			case "as":
				as.Body = append(as.Body, u)
			default:
				u.Kids[0].Name = "g"
				b.Body = append(b.Body, u)
			}
			mk(fmt.Sprintf("uses user=%s %v", user, x), a, as, b)
		}
	}
	// 3. through augment from another module (and from a submodule)
	for c := 0; c < 81; c++ {
		x := []string{tri[c%3], tri[c/3%3], tri[c/9%3], tri[c/27%3]}
		for _, augr := range []string{"b", "as", "a"} {
			a := &ir.Mod{Name: "a", Includes: []string{"as"}}
			as := &ir.Mod{Name: "as", Owner: "a"}
			b := &ir.Mod{Name: "b", Imports: []string{"a"}}
			a.Body = append(a.Body, ir.Cont("t", ir.Cont("t2").WithCfg(x[1])).WithCfg(x[0]))
			aug := ir.Aug("/a:t/a:t2", ir.Cont("ac", ir.Leaf("al", "string").WithCfg(x[3])).WithCfg(x[2]))
			m := map[string]*ir.Mod{"a": a, "as": as, "b": b}[augr]
			m.Body = append(m.Body, aug)
			mk(fmt.Sprintf("augment by=%s %v", augr, x), a, as, b)
		}
	}
	// 4. choice / case / implicit case
	for c := 0; c < 243; c++ {
		x := []string{tri[c%3], tri[c/3%3], tri[c/9%3], tri[c/27%3], tri[c/81%3]}
		// (a case takes no config statement; the container inside it does)
		a := &ir.Mod{Name: "a", Body: []*ir.S{ir.Cont("c", ir.N("choice", "ch", ir.N("case", "ca", ir.Cont("cc", ir.Leaf("x", "string").WithCfg(x[3])).WithCfg(x[2])), ir.Leaf("sh", "string").WithCfg(x[4])).WithCfg(x[1])).WithCfg(x[0])}}
		mk(fmt.Sprintf("choice %v", x), a)
	}
	// 4b. explicit cases that hold a child of their own name (as an implied case does) next to other
	// nodes: the child's config is the child's; written in place, and brought in by an augment
	for c := 0; c < 81; c++ {
		x := []string{tri[c%3], tri[c/3%3], tri[c/9%3], tri[c/27%3]}
		for _, byAug := range []bool{false, true} {
			same := ir.Cont("k", ir.Leaf("in", "string")).WithCfg(x[2])
			caseK := ir.N("case", "k", ir.Leaf("beside", "string"), ir.Cont("besidec", ir.Leaf("deep", "string")))
			a := &ir.Mod{Name: "a"}
			b := &ir.Mod{Name: "b", Imports: []string{"a"}}
			if byAug {
				b.Body = append(b.Body, ir.Aug("/a:c/a:ch/a:k", same))
			} else {
				caseK.Kids = append([]*ir.S{same}, caseK.Kids...)
			}
			a.Body = []*ir.S{ir.Cont("c", ir.N("choice", "ch", caseK, ir.N("case", "m", ir.Leaf("m", "string").WithCfg(x[3]), ir.Leaf("other", "string"))).WithCfg(x[1])).WithCfg(x[0])}
			mk(fmt.Sprintf("case-with-child-of-its-name aug=%v %v", byAug, x), a, b)
		}
	}
	// 5. rpc / action / notification (no explicit config inside), under configured ancestors
	for c := 0; c < 9; c++ {
		x := []string{tri[c%3], tri[c/3%3]}
		a := &ir.Mod{Name: "a", Imports: []string{"b"}}
		b := &ir.Mod{Name: "b", Imports: []string{"a"}}
		b.Body = append(b.Body, ir.Group("io", ir.Leaf("p", "string"), ir.Cont("pc", ir.Leaf("q", "string"))))
		a.Body = append(a.Body,
			ir.N("rpc", "r", ir.N("input", "", ir.Uses("b:io")), ir.N("output", "", ir.Uses("b:io"), ir.Leaf("o", "string"))),
			ir.N("notification", "n", ir.Uses("b:io")),
			ir.Cont("c", ir.N("list", "li", ir.N("action", "act", ir.N("input", "", ir.Leaf("ai", "string")), ir.N("output", "", ir.Cont("oc", ir.Leaf("ao", "string"))))).WithCfg(x[1])).WithCfg(x[0]))
		b.Body = append(b.Body, ir.Aug("/a:r/a:output", ir.Leaf("augo", "string")), ir.Aug("/a:r/a:input", ir.Leaf("augi", "string")), ir.Aug("/a:c/a:li/a:act/a:output/a:oc", ir.Leaf("augao", "string")))
		mk(fmt.Sprintf("rpc-action-notification %v", x), a, b)
	}
}
