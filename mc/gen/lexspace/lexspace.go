// Package lexspace enumerates the lexical input spaces shared by C01, C02 and C16: every sequence
// of symbols up to a length over small alphabets of characters (L1), lexical pieces (L2) and
// argument pieces inside one statement (L2s). Enumeration is deterministic and sharded by the
// first symbols.
package lexspace

import (
	"fmt"
	"strings"
)

// Space is one alphabet with optional fixed prefix/suffix around every generated text.
type Space struct {
	Name           string
	Alpha          []string
	Prefix, Suffix string
	Max            int // maximal number of symbols
	ShardDepth     int // shards are the sequences of this many leading symbols (plus one shard for shorter ones)
}

var (
	alphaL1  = []string{"a", " ", "\n", "\t", "\"", "'", "\\", "/", "*", "+", ";", "{", "}", "é", "\r"}
	alphaL2  = []string{"k", "pattern", " ", "\n", "\t", "\"", "'", "\\n", "\\q", "\\\\", "+", ";", "{", "}", "//c\n", "/*c*/", "é", "/*c\né*/", "'y\né'"}
	alphaL2s = []string{"'x'", "/*c*/", "\"", "a", " ", "    ", "\t", "\n", "+", "\\t", "\\q", "é", "\r\n"}
	// characters of two, three and four bytes, the replacement character U+FFFD written out (legal text,
	// and what a decoder answers for invalid bytes), a combining mark; in tokens, strings and comments
	alphaL2u = []string{"a", " ", "\n", "\"", ";", "{", "}", "é", "€", "\uFFFD", "😀", "e\u0301", "\t", "'\uFFFD'", "/*\uFFFD€*/"}
	alphaL1t = []string{"a", " ", "\n", "\"", "'", "\\", "/", "*", ";", "{"}
	// bytes that are not text: NUL, a lone continuation byte, a truncated lead byte, form feed, DEL
	alphaL1b = []string{"a", " ", "\n", "\"", ";", "{", "}", "\\", "\x00", "\x80", "\xc3", "\f", "\x7f"}
)

// Spaces returns the spaces of a tier.
func Spaces(tier string) []Space {
	if tier == "thorough" {
		return []Space{
			{"L1", alphaL1, "", "", 7, 2},
			{"L1t", alphaL1t, "", "", 8, 2},
			{"L2", alphaL2, "", "", 7, 2},
			{"L2s-k", alphaL2s, "k ", ";", 7, 2},
			{"L2s-pattern", alphaL2s, "pattern ", ";", 6, 2},
			{"L2s-tab", alphaL2s, "\tk ", ";", 6, 2},
			{"L1b", alphaL1b, "", "", 6, 2},
			{"L2s-mbc", alphaL2s, "k /*é*/", ";", 6, 2},
			{"L2s-mbq", alphaL2s, "k 'é'+", ";", 6, 2},
			{"L2s-tail", alphaL2s, "\t\tk \"a", "\"; q r;", 6, 2},
			{"L2s-mbk", alphaL2s, "é ", ";", 6, 2},
			{"L2s-mbd", alphaL2s, "k \"é\"+", ";", 6, 2},
			{"L2s-mbs", alphaL2s, "u \"é\"; k ", ";", 6, 2},
			{"L2u", alphaL2u, "", " q r;", 6, 2},
			{"L2s-mbd2", alphaL2s, "k \"aé€\" + ", ";", 6, 2},
		}
	}
	return []Space{
		{"L1", alphaL1, "", "", 6, 2},
		{"L2", alphaL2, "", "", 5, 2},
		{"L2s-k", alphaL2s, "k ", ";", 6, 2},
		{"L2s-pattern", alphaL2s, "pattern ", ";", 5, 2},
		{"L2s-tab", alphaL2s, "\tk ", ";", 5, 2},
		{"L1b", alphaL1b, "", "", 5, 2},
		// a multi-byte rune in a comment or single-quoted piece on the line of an opening quote
		{"L2s-mbc", alphaL2s, "k /*é*/", ";", 5, 2},
		{"L2s-mbq", alphaL2s, "k 'é'+", ";", 5, 2},
		// inside a double-quoted string that opens beyond two tabs, with another statement after the
		// closing quote on the same line
		{"L2s-tail", alphaL2s, "\t\tk \"a", "\"; q r;", 5, 2},
		// a multi-byte rune in the keyword, in an earlier double-quoted piece and in an earlier statement
		// on the line of an opening quote
		{"L2s-mbk", alphaL2s, "é ", ";", 5, 2},
		{"L2s-mbd", alphaL2s, "k \"é\"+", ";", 5, 2},
		{"L2s-mbs", alphaL2s, "u \"é\"; k ", ";", 5, 2},
		{"L2u", alphaL2u, "", " q r;", 5, 2},
		// characters of two and three bytes inside an earlier double-quoted piece (not at its start)
		{"L2s-mbd2", alphaL2s, "k \"aé€\" + ", ";", 5, 2},
	}
}

// Shards lists shard names "<space>/<i>" (i = -1 for the texts shorter than ShardDepth).
func Shards(tier string) []string {
	var out []string
	for _, sp := range Spaces(tier) {
		out = append(out, sp.Name+"/-1")
		n := 1
		for i := 0; i < sp.ShardDepth; i++ {
			n *= len(sp.Alpha)
		}
		for i := 0; i < n; i++ {
			out = append(out, fmt.Sprintf("%s/%d", sp.Name, i))
		}
	}
	return out
}

// Find returns the space and shard index for a shard name.
func Find(tier, shard string) (Space, int) {
	name, idx, _ := strings.Cut(shard, "/")
	var i int
	fmt.Sscanf(idx, "%d", &i)
	for _, sp := range Spaces(tier) {
		if sp.Name == name {
			return sp, i
		}
	}
	panic("unknown space " + shard)
}

// Enumerate calls f with every text of the shard; f returns false to stop.
func Enumerate(sp Space, shard int, f func(text string, symbols int) bool) {
	a := sp.Alpha
	if shard < 0 {
		var rec func(s string, d int) bool
		rec = func(s string, d int) bool {
			if !f(sp.Prefix+s+sp.Suffix, d) {
				return false
			}
			if d == sp.ShardDepth-1 || d == sp.Max {
				return true
			}
			for _, x := range a {
				if !rec(s+x, d+1) {
					return false
				}
			}
			return true
		}
		rec("", 0)
		return
	}
	lead := ""
	k := shard
	var syms []string
	for i := 0; i < sp.ShardDepth; i++ {
		syms = append([]string{a[k%len(a)]}, syms...)
		k /= len(a)
	}
	lead = strings.Join(syms, "")
	if sp.ShardDepth > sp.Max {
		return
	}
	var rec func(s string, d int) bool
	rec = func(s string, d int) bool {
		if !f(sp.Prefix+s+sp.Suffix, d) {
			return false
		}
		if d == sp.Max {
			return true
		}
		for _, x := range a {
			if !rec(s+x, d+1) {
				return false
			}
		}
		return true
	}
	rec(lead, sp.ShardDepth)
}

// Keywords: every statement keyword of RFC 7950, spellings next to the one keyword whose argument is
// read in a mode of its own (pattern), and extension keywords that a library might be tempted to
// treat like it.
var Keywords = strings.Fields(`action anydata anyxml argument augment base belongs-to bit case choice config contact container default description deviate deviation enum error-app-tag error-message extension feature fraction-digits grouping identity if-feature import include input key leaf leaf-list length list mandatory max-elements min-elements modifier module must namespace notification ordered-by organization output path pattern position prefix presence range reference refine require-instance revision revision-date rpc status submodule type typedef unique units uses value when yang-version yin-element
 Pattern PATTERN patterns pattern- -pattern p:pattern pattern:p posix-pattern p:posix-pattern oc-ext:posix-pattern p:regex p:regexp p:length p:range p:path p:must p:when p:xpath p:default p:ext k`)

// KeywordTexts: one statement per keyword and argument form - arguments with escapes that only a
// pattern may keep, in double quotes, single quotes, unquoted and concatenated; and the same as a
// substatement.
func KeywordTexts() []string {
	var out []string
	for _, k := range Keywords {
		for _, arg := range []string{`"\d"`, `"a\.b"`, `"\q" + "x"`, `'x' + "\d"`, `'\d'`, `\d`, `"\\d"`, `"a\tb\n\"c\\"`, `"\`, `"\d`} {
			out = append(out, k+" "+arg+";", "m { "+k+" "+arg+"; }", k+" "+arg+" { "+k+" "+arg+"; }")
		}
	}
	return out
}

// PairPool returns the texts of the pair space: every text of First is parsed, then every text of
// Second in the same process, whose reading must be what it is on its own. First holds the short
// texts of the piece alphabets and texts after which a reader is most likely to keep something:
// aborted in the middle of a line at some column (unterminated quotes and comments, the cut-off
// after too many errors), ended inside blocks, inside a multi-line string, after tabs and
// multi-byte characters. Second holds the texts whose reading depends on columns, lines and nesting:
// the argument-piece texts up to three (four) pieces, multi-line strings opening on the first line at
// several columns with continuation lines indented around that column.
func PairPool(tier string) (first, second []string) {
	add := func(dst *[]string, sp Space, max int) {
		sp.Max, sp.ShardDepth = max, max+1
		Enumerate(sp, -1, func(t string, _ int) bool { *dst = append(*dst, t); return true })
	}
	n1, n2 := 2, 3
	if tier == "thorough" {
		n1, n2 = 3, 4
	}
	add(&first, Space{"L2", alphaL2, "", "", 0, 0}, n1)
	add(&first, Space{"L2s-k", alphaL2s, "k ", ";", 0, 0}, 2)
	for _, pad := range []string{"", " ", "        ", "\t", "\t\t \t", "ééé ", "k { l \"x\n  y\";\n      "} {
		for _, tail := range []string{"k 'never closed;\n", "k 'never closed", "k \"never closed;\n", "k \"never\n   closed", "k /* never closed;\n", "k /* never closed", "k \"a\\", "k 'a' +", "k a", "k a {", "k a { l b; ", "k \"a\n        b\" \"c\" {", "} ", "k \"a\\q\" 'b", strings.Repeat("\"a\" ", 9), strings.Repeat("} ", 9), strings.Repeat("k \"\\q\";", 9) + "k 'x"} {
			first = append(first, pad+tail)
		}
	}
	add(&second, Space{"L2s-k", alphaL2s, "k ", ";", 0, 0}, n2)
	add(&second, Space{"L2s-tab", alphaL2s, "\tk ", ";", 0, 0}, 2)
	add(&second, Space{"L2s-mbc", alphaL2s, "k /*é*/", ";", 0, 0}, 2)
	add(&second, Space{"L2", alphaL2, "", "", 0, 0}, 2)
	for _, q := range []int{0, 1, 3, 8, 17} {
		pad := strings.Repeat(" ", q)
		for _, i := range []int{0, 1, q + 2, q + 3, q + 4, q + 9, 2*q + 8} {
			ind := strings.Repeat(" ", i)
			second = append(second, pad+"k \"first\n"+ind+"second\n"+ind+"  third\";", pad+"k 'a' + \"first\n"+ind+"second\";", pad+"k \"first\n\t"+ind+"second\";")
		}
	}
	return
}
