// Package corpus enumerates module sets from all schema families for the checks that quantify over
// "all processed trees" (C04 invariants, C17 lookups).
package corpus

import (
	"fmt"

	"verif/mc/dump"
	"verif/mc/gen/fam"
	"verif/mc/gen/ircmp"
	"verif/mc/props/c05"
)

// Set is one module set.
type Set struct {
	Family string
	Desc   string
	Files  []dump.File
}

// Each calls f with every set whose running index falls into the shard. stride > 1 thins the big
// families (every stride-th program).
func Each(tier string, shard, nShards, stride int, f func(Set)) {
	i := 0
	emit := func(s Set) {
		i++
		if (i-1)%nShards == shard {
			f(s)
		}
	}
	k := 0
	fam.USES(tier, func(c fam.Case) {
		k++
		if k%stride == 0 {
			emit(Set{"uses", c.Desc, ircmp.Files(c.W, c.W.Order)})
		}
	})
	k = 0
	fam.AUG(tier, func(augs []fam.AugSpec) {
		k++
		if k%stride == 0 {
			w := fam.AugWorld(augs)
			emit(Set{"aug", fmt.Sprint(augs), ircmp.Files(w, w.Order)})
		}
	})
	k = 0
	fam.CFG(tier, func(c fam.Case) {
		k++
		if k%stride == 0 || stride <= 4 {
			emit(Set{"cfg", c.Desc, ircmp.Files(c.W, c.W.Order)})
		}
	})
	names, files := c05.Scenarios()
	for j := range names {
		emit(Set{"conflict", names[j], files[j]})
	}
}
