// Package corpus enumerates module sets from all schema families for the checks that quantify over
// "all processed trees" (C04 invariants, C17 lookups).
package corpus

import (
	"fmt"
	"strings"

	"verif/mc/dump"
	"verif/mc/gen/fam"
	"verif/mc/gen/ircmp"
	"verif/mc/gen/scale"
	"verif/mc/props/c05"
)

// Set is one module set.
type Set struct {
	Family string
	Desc   string
	Files  []dump.File
}

// Each calls f with every set whose running index falls into the shard. stride > 1 thins the big
// families (every stride-th program).
func Each(tier string, shard, nShards, stride int, f func(Set)) {
	i := 0
	emit := func(s Set) {
		i++
		if (i-1)%nShards == shard {
			f(s)
		}
	}
	k := 0
	fam.USES(tier, func(c fam.Case) {
		k++
		if k%stride == 0 {
			emit(Set{"uses", c.Desc, ircmp.Files(c.W, c.W.Order)})
		}
	})
	k = 0
	fam.AUG(tier, func(augs []fam.AugSpec) {
		k++
		if k%stride == 0 {
			w := fam.AugWorld(augs)
			emit(Set{"aug", fmt.Sprint(augs), ircmp.Files(w, w.Order)})
		}
	})
	k = 0
	fam.CFG(tier, func(c fam.Case) {
		k++
		if k%stride == 0 || stride <= 4 {
			emit(Set{"cfg", c.Desc, ircmp.Files(c.W, c.W.Order)})
		}
	})
	for _, s := range prefixSets() {
		emit(s)
	}
	for _, s := range lateRevisionSets() {
		emit(s)
	}
	for _, s := range inconsistentDeviationSets() {
		emit(s)
	}
	for _, s := range scaleSets(tier) {
		emit(s)
	}
	names, files := c05.Scenarios()
	for j := range names {
		emit(Set{"conflict", names[j], files[j]})
	}
}

// prefixSets: modules that know each other under prefixes that differ from the module names, differ
// between importers and collide with other modules' names, with data trees, augments and uses in
// every module, so that a path means something only in the module that spells it.
func prefixSets() []Set {
	var out []Set
	// the last two: c knows a as b and b as a - each prefix is the name of the other import
	for v, px := range [][3]string{{"x", "y", "z"}, {"b", "a", "c"}, {"c", "c", "a"}, {"a1", "b", "a"}, {"x", "b", "a"}, {"a.b", "b", "a"}} {
		// px[0]: how b calls a; px[1]: how c calls a; px[2]: how c calls b
		if px[1] == px[2] {
			continue
		}
		a := `module a { namespace "urn:a"; prefix a; grouping g { leaf gl { type string; } container gc { leaf gd { type string; } } } container top { container c { leaf l { type string; } } choice ch { leaf s { type string; } case k { leaf kk { type string; } } } } rpc r { input { leaf i { type string; } } } }`
		b := fmt.Sprintf(`module b { namespace "urn:b"; prefix b; import a { prefix %[1]s; } container bt { leaf bl { type string; } uses %[1]s:g; } augment /%[1]s:top/%[1]s:c { container be { leaf bf { type string; } } } augment /%[1]s:r/%[1]s:output { leaf bo { type string; } } }`, px[0])
		imports := fmt.Sprintf(`import a { prefix %[1]s; } import b { prefix %[2]s; }`, px[1], px[2])
		c := fmt.Sprintf(`module c { namespace "urn:c"; prefix c; `+imports+` container ct { leaf cl { type string; } uses %[1]s:g; } augment /%[1]s:top { leaf cy { type string; } container cc { uses %[1]s:g; } } augment /%[2]s:bt { leaf cz { type string; } } augment /%[1]s:top/%[1]s:ch { leaf cs { type string; } } }`, px[1], px[2])
		if v == 5 {
			// without the augment into b: lookups from c's own nodes are then the only users of the prefix
			c = strings.Replace(c, fmt.Sprintf(` augment /%s:bt { leaf cz { type string; } }`, px[2]), "", 1)
		}
		out = append(out, Set{"prefix", fmt.Sprintf("prefix-variant-%d b:a=%s c:a=%s c:b=%s", v, px[0], px[1], px[2]),
			[]dump.File{{Name: "a.yang", Text: a}, {Name: "b.yang", Text: b}, {Name: "c.yang", Text: c}}})
	}
	// augments whose target path runs through the implied case of a shorthand choice member, with
	// a choice in their body; deviations of rpc input/output
	out = append(out,
		Set{"late", "augment-through-implied-case", []dump.File{{Name: "m.yang", Text: `module m { namespace "urn:m"; prefix m; container top { choice ch { container x { leaf l { type string; } } leaf s { type string; } } } augment /m:top/m:ch/m:x/m:x { choice inner { leaf il { type string; } container ic { choice deeper { leaf dl { type string; } } } } } }`}}},
		Set{"late", "augment-through-implied-case-two-modules", []dump.File{{Name: "m.yang", Text: `module m { namespace "urn:m"; prefix m; container top { choice ch { container x { leaf l { type string; } } } } }`},
			{Name: "n.yang", Text: `module n { namespace "urn:n"; prefix n; import m { prefix m; } augment /m:top/m:ch/m:x/m:x { choice inner { leaf il { type string; } } } augment /m:top/m:ch { leaf late { type string; } } }`}}},
		// a node that one module augments (so that the augment machinery has looked its path up) and
		// another module then declares not supported, alone or with what stands above it
		Set{"late", "not-supported-target-of-an-augment", []dump.File{{Name: "b.yang", Text: `module b { namespace "urn:b"; prefix b; container c { container x { leaf xl { type string; } } container y { container inner { leaf il { type string; } } } leaf keep { type string; } } }`},
			{Name: "a.yang", Text: `module a { namespace "urn:a"; prefix a; import b { prefix b; } augment /b:c/b:x { leaf ax { type string; } } augment /b:c/b:y/b:inner { leaf ai { type string; } } container own { leaf ol { type string; } } }`},
			{Name: "d.yang", Text: `module d { namespace "urn:d"; prefix d; import b { prefix b; } deviation /b:c/b:x { deviate not-supported; } deviation /b:c/b:y { deviate not-supported; } }`}}},
		Set{"late", "not-supported-rpc-io", []dump.File{{Name: "m.yang", Text: `module m { namespace "urn:m"; prefix m; rpc r { input { leaf i { type string; } } output { leaf o { type string; } } } container c { action act { input { leaf ai { type string; } } } } deviation /m:r/m:input { deviate not-supported; } deviation /m:c/m:act/m:input { deviate not-supported; } }`}}},
	)
	return out
}

// lateRevisionSets: problems that only exist after an augment was merged or when a deviation is
// applied, aimed at the newest or at an older revision of a module of which one or two revisions are
// loaded (the importer selects with revision-date or takes what it gets).
func lateRevisionSets() []Set {
	var out []Set
	base := func(rev, extra string) dump.File {
		return dump.File{Name: "base@" + rev + ".yang", Text: `module base { namespace "urn:base"; prefix base; revision ` + rev + `; container c { leaf x { type string; } ` + extra + ` } choice ch { leaf s { type string; } } rpc r { input { leaf i { type string; } } } }`}
	}
	old, new := base("2020-01-01", ""), base("2021-06-06", "leaf y { type string; }")
	problems := []struct{ name, body string }{
		{"none", `augment /b:c { leaf fine { type string; } }`},
		{"collision", `augment /b:c { leaf x { type string; } }`},
		{"bad-body", `augment /b:c { leaf z { type u:nosuch; } }`},
		{"two-augments-one-name", `augment /b:c { leaf n { type string; } } augment /b:c { leaf n { type int8; } }`},
		{"choice-collision", `augment /b:ch { leaf s { type string; } }`},
		{"rpc-input-collision", `augment /b:r/b:input { leaf i { type string; } }`},
		// into the implied case of a shorthand member: applied by the very last pass only
		{"implied-case-fine", `augment /b:ch/b:s { leaf beside { type string; } }`},
		{"implied-case-collision", `augment /b:ch/b:s { leaf s { type string; } }`},
		{"implied-case-bad-body", `augment /b:ch/b:s { leaf z { type u:nosuch; } }`},
		{"implied-case-bad-body-deep", `augment /b:ch/b:s { container zc { list zl { key k; leaf k { type u:nosuch; } } } }`},
		{"deviation-missing-target", `deviation /b:c/b:nope { deviate not-supported; }`},
		{"deviation-bad-type", `deviation /b:c/b:x { deviate replace { type u:nosuch; } }`},
	}
	for _, loaded := range []struct {
		name  string
		files []dump.File
	}{{"old+new", []dump.File{old, new}}, {"new+old", []dump.File{new, old}}, {"old", []dump.File{old}}} {
		for _, sel := range []struct{ name, stmt string }{{"unpinned", ""}, {"pinned-old", " revision-date 2020-01-01;"}, {"pinned-new", " revision-date 2021-06-06;"}} {
			if sel.name == "pinned-new" && loaded.name == "old" {
				continue
			}
			for _, p := range problems {
				user := dump.File{Name: "user.yang", Text: `module user { namespace "urn:user"; prefix u; import base { prefix b;` + sel.stmt + ` } ` + p.body + ` }`}
				out = append(out, Set{"late", fmt.Sprintf("late-revision loaded=%s import=%s problem=%s", loaded.name, sel.name, p.name), append(append([]dump.File{}, loaded.files...), user)})
			}
		}
	}
	return out
}

// inconsistentDeviationSets: deviations that are applicable one by one but leave the target in a
// state a schema could not be written in (min above max, mandatory with a default, a default the new
// type does not admit, config true below config false, a list without its key): whatever the library
// makes of them, a clean Process must leave proper trees without recorded errors.
func inconsistentDeviationSets() []Set {
	base := `module base { namespace "urn:base"; prefix base;
 container top { list li { key k; unique "u"; leaf k { type string; } leaf u { type string; } min-elements 2; } leaf-list ll { type string; min-elements 3; max-elements 5; }
  leaf d { type string; default abc; } leaf m { type string; mandatory true; } container ro { config false; leaf x { type string; } list rl { key k; leaf k { type string; } max-elements 4; } }
  choice ch { default s; leaf s { type string; } leaf t { type string; } } }
 grouping g { list gl { key k; leaf k { type string; } min-elements 1; } } container u1 { uses g; } container u2 { uses g; }
}`
	devs := []struct{ name, body string }{
		{"min-above-max-by-add", `deviation /b:top/b:li { deviate add { max-elements 1; } }`},
		{"min-above-max-by-replace-min", `deviation /b:top/b:ll { deviate replace { min-elements 9; } }`},
		{"min-above-max-by-replace-max", `deviation /b:top/b:ll { deviate replace { max-elements 2; } }`},
		{"min-above-max-in-a-grouping-copy", `deviation /b:u1/b:gl { deviate add { max-elements 0; } }`},
		{"min-above-max-two-steps", `deviation /b:top/b:ro/b:rl { deviate add { min-elements 3; } deviate replace { max-elements 2; } }`},
		{"mandatory-with-default", `deviation /b:top/b:d { deviate add { mandatory true; } }`},
		{"default-on-mandatory", `deviation /b:top/b:m { deviate add { default x; } }`},
		{"default-not-of-new-type", `deviation /b:top/b:d { deviate replace { type int8; } }`},
		{"config-true-below-false", `deviation /b:top/b:ro/b:x { deviate replace { config true; } }`},
		{"key-leaf-not-supported", `deviation /b:top/b:li/b:k { deviate not-supported; }`},
		{"unique-leaf-not-supported", `deviation /b:top/b:li/b:u { deviate not-supported; }`},
		{"choice-default-case-not-supported", `deviation /b:top/b:ch/b:s { deviate not-supported; }`},
		{"mandatory-choice-with-default", `deviation /b:top/b:ch { deviate add { mandatory true; } }`},
		{"not-supported-twice-in-one-deviation", `deviation /b:top/b:d { deviate not-supported; deviate not-supported; }`},
		{"not-supported-twice-in-two-deviations", `deviation /b:top/b:m { deviate not-supported; } deviation /b:top/b:ro { deviate not-supported; } deviation /b:top/b:ro/b:x { deviate not-supported; }`},
		{"not-supported-then-add", `deviation /b:top/b:ll { deviate not-supported; deviate add { default x; } }`},
	}
	var out []Set
	for _, d := range devs {
		out = append(out, Set{"late", "inconsistent-deviation " + d.name, []dump.File{{Name: "base.yang", Text: base},
			{Name: "dev.yang", Text: `module dev { namespace "urn:dev"; prefix dev; import base { prefix b; } ` + d.body + ` }`}}})
	}
	return out
}

// scaleSets: the shapes of package scale at every size up to a bound and around the powers of two
// beyond it - deep nesting (with an augment and a deviation at the bottom), wide containers (plain,
// copied from a grouping, grafted by an augment), long typedef, identity and grouping chains, many
// imports, many includes.
func scaleSets(tier string) []Set {
	var out []Set
	add := func(desc string, fs ...dump.File) { out = append(out, Set{"scale", desc, fs}) }
	deepMax, wideUp, wideMax := 40, 20, 65
	if tier == "thorough" {
		deepMax, wideUp, wideMax = 70, 36, 257
	}
	for _, n := range scale.Sizes(deepMax, deepMax) {
		user := `module u { yang-version 1.1; namespace "urn:u"; prefix u; import b { prefix b; } augment ` + scale.DeepPath("b", n) + ` { leaf grafted { type string; } container gc { leaf gl { type int8; } } } deviation ` + scale.DeepPath("b", n) + `/b:x { deviate replace { default changed; } } deviation ` + scale.DeepPath("b", n) + `/b:li { deviate replace { max-elements 3; } } }`
		add(fmt.Sprintf("scale deep n=%d", n), scale.Deep(n), dump.File{Name: "u.yang", Text: user})
	}
	for _, n := range scale.Sizes(wideUp, wideMax) {
		add(fmt.Sprintf("scale wide n=%d", n), scale.Wide(n)...)
	}
	chainUp, chainMax := 20, 65
	if tier == "thorough" {
		chainUp, chainMax = 40, 129
	}
	for _, n := range scale.Sizes(chainUp, chainMax) {
		f, _ := scale.TypedefChain(n, 0, false)
		add(fmt.Sprintf("scale typedef-chain n=%d", n), f)
		add(fmt.Sprintf("scale identity-chain n=%d", n), scale.IdentityChain(n, false))
		add(fmt.Sprintf("scale identity-fan n=%d", n), scale.IdentityFan(n))
		add(fmt.Sprintf("scale grouping-chain n=%d", n), scale.GroupingChain(n, false))
	}
	impUp, impMax := 10, 17
	if tier == "thorough" {
		impUp, impMax = 20, 65
	}
	for _, n := range scale.Sizes(impUp, impMax) {
		add(fmt.Sprintf("scale imports n=%d", n), scale.Imports(n)...)
		add(fmt.Sprintf("scale includes n=%d", n), scale.Includes(n, false)...)
		add(fmt.Sprintf("scale includes-nested n=%d", n), scale.Includes(n, true)...)
		add(fmt.Sprintf("scale groupings n=%d", n), scale.ManyGroupings(n)...)
		add(fmt.Sprintf("scale many-uses n=%d", n), scale.ManyUses(n)...)
		add(fmt.Sprintf("scale many-augments n=%d", n), scale.ManyAugments(n)...)
		add(fmt.Sprintf("scale many-deviations n=%d", n), scale.ManyDeviations(n)...)
		add(fmt.Sprintf("scale many-module-identities n=%d", n), scale.ManyModuleIdentities(n)...)
		add(fmt.Sprintf("scale counts n=%d", n), scale.Counts(n))
		add(fmt.Sprintf("scale many-leaves n=%d", n), scale.ManyLeaves(n))
		add(fmt.Sprintf("scale uses-in-one-node n=%d", n), scale.UsesInOneNode(n))
		if n <= 12 {
			add(fmt.Sprintf("scale augment-ladder n=%d", n), scale.AugmentLadder(n)...)
		}
	}
	return out
}
