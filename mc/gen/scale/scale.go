// Package scale generates one canonical program per (shape, size): the other families stay within
// the small scope (a handful of modules and statements), and a defect behind an internal threshold -
// a fixed-size buffer, a fast path for short inputs, a cache bound, a block size - needs a size they
// never reach. Every shape is swept over every size from 1 to a bound (and around the powers of two
// beyond it where the shape is cheap), so the size parameter itself is explored exhaustively.
package scale

import (
	"fmt"
	"strings"

	"verif/mc/dump"
)

// Sizes returns every size from 1 to upTo, then the values p-1, p, p+1 for the powers of two p up to
// max (deduplicated, ascending).
func Sizes(upTo, max int) []int {
	var out []int
	for n := 1; n <= upTo; n++ {
		out = append(out, n)
	}
	for p := 2; p <= max; p *= 2 {
		for _, n := range []int{p - 1, p, p + 1} {
			if n > upTo && n <= max+1 {
				out = append(out, n)
			}
		}
	}
	return out
}

func hdr(name string) string {
	return fmt.Sprintf(`module %s { yang-version 1.1; namespace "urn:%s"; prefix %s;`, name, name, name)
}

// Name returns an identifier of exactly n bytes that starts with the given stem letter.
func Name(stem byte, n int) string {
	b := make([]byte, n)
	for i := range b {
		b[i] = "abcdefghij"[i%10]
	}
	b[0] = stem
	return string(b)
}

// Deep: containers c1 > c2 > ... > cn below a config-false top container in module b, a leaf x and a
// list li at the bottom. Path returns the absolute path of depth-k container (k = 0: top) with prefix p.
func Deep(n int) dump.File {
	var sb strings.Builder
	sb.WriteString(hdr("b") + " container top { config false;")
	for i := 1; i <= n; i++ {
		fmt.Fprintf(&sb, " container c%d {", i)
	}
	sb.WriteString(` leaf x { type string; default d; } list li { key k; leaf k { type string; } max-elements 7; } leaf other { type int8; }`)
	for i := 0; i <= n; i++ {
		sb.WriteString(" }")
	}
	sb.WriteString(" }")
	return dump.File{Name: "b.yang", Text: sb.String()}
}

// DeepPath is the absolute path of the container at depth k of Deep (0: top), spelled with prefix p.
func DeepPath(p string, k int) string {
	s := "/" + p + ":top"
	for i := 1; i <= k; i++ {
		s += fmt.Sprintf("/%s:c%d", p, i)
	}
	return s
}

// DeepNames lists the node names from top down to depth k.
func DeepNames(k int) []string {
	out := []string{"top"}
	for i := 1; i <= k; i++ {
		out = append(out, fmt.Sprintf("c%d", i))
	}
	return out
}

// Wide: module w with a container holding n leaves l0..l(n-1), a container sub after the first third
// and a choice with a shorthand member after the second third; the same body as grouping g (used by
// Wide's container u below config false, and by module user).
func Wide(n int) []dump.File {
	var body strings.Builder
	for i := 0; i < n; i++ {
		fmt.Fprintf(&body, " leaf l%d { type string; }", i)
		if i == n/3 {
			body.WriteString(" container sub { leaf deep { type int8; } }")
		}
		if i == 2*n/3 {
			body.WriteString(" choice ch { leaf alt { type string; } case k { leaf kk { type string; } } }")
		}
	}
	w := hdr("w") + " grouping g { container state {" + body.String() + " } } container plain {" + body.String() + " } container u { config false; uses g; } }"
	user := hdr("user") + ` import w { prefix w; } container top { config false; uses w:g; } container rw { uses w:g; } augment /w:plain { container grafted {` + body.String() + ` } } }`
	return []dump.File{{Name: "w.yang", Text: w}, {Name: "user.yang", Text: user}}
}

// TypedefChain: t1 <- t2 <- ... <- tn (t1 is int16 with a range, the last one adds units), each name
// padded to nameLen bytes when nameLen > 0; leaf l of type tn. cyclic: t1 is derived from tn instead.
func TypedefChain(n, nameLen int, cyclic bool) (dump.File, string) {
	name := func(i int) string {
		s := fmt.Sprintf("t%d", i)
		if nameLen > len(s)+1 {
			s += "_" + Name('x', nameLen-len(s)-1)
		}
		return s
	}
	var sb strings.Builder
	sb.WriteString(hdr("m"))
	base := `int16 { range "1..500"; }`
	if cyclic {
		base = name(n) + ";"
	} else {
		base = "type " + base
	}
	if cyclic {
		fmt.Fprintf(&sb, " typedef %s { type %s }", name(1), base)
	} else {
		fmt.Fprintf(&sb, " typedef %s { %s default 7; }", name(1), base)
	}
	for i := 2; i <= n; i++ {
		fmt.Fprintf(&sb, " typedef %s { type %s;", name(i), name(i-1))
		if i == n {
			sb.WriteString(" units last;")
		}
		sb.WriteString(" }")
	}
	fmt.Fprintf(&sb, " leaf l { type %s; } }", name(n))
	return dump.File{Name: "m.yang", Text: sb.String()}, name(n)
}

// IdentityChain: root <- i1 <- ... <- in, plus a diamond at the end (x has bases in and i1 when n > 1)
// and an identityref leaf on root. cyclic: two more identities that derive from each other below in.
func IdentityChain(n int, cyclic bool) dump.File {
	var sb strings.Builder
	sb.WriteString(hdr("m") + " identity root;")
	prev := "root"
	for i := 1; i <= n; i++ {
		fmt.Fprintf(&sb, " identity i%d { base %s; }", i, prev)
		prev = fmt.Sprintf("i%d", i)
	}
	if n > 1 {
		fmt.Fprintf(&sb, " identity x { base %s; base i1; }", prev)
	} else {
		fmt.Fprintf(&sb, " identity x { base %s; }", prev)
	}
	if cyclic {
		fmt.Fprintf(&sb, " identity cy1 { base %s; base cy2; } identity cy2 { base cy1; }", prev)
	}
	sb.WriteString(" leaf r { type identityref { base root; } } }")
	return dump.File{Name: "m.yang", Text: sb.String()}
}

// IdentityFan: root with n directly derived identities d0.. and one identity with two of them as
// bases per ten.
func IdentityFan(n int) dump.File {
	var sb strings.Builder
	sb.WriteString(hdr("m") + " identity root;")
	for i := 0; i < n; i++ {
		fmt.Fprintf(&sb, " identity d%d { base root; }", i)
		if i%10 == 9 {
			fmt.Fprintf(&sb, " identity j%d { base d%d; base d%d; }", i, i, i-5)
		}
	}
	sb.WriteString(" leaf r { type identityref { base root; } } }")
	return dump.File{Name: "m.yang", Text: sb.String()}
}

// GroupingChain: g1 uses g2 uses ... uses gn (each adds a leaf), container c uses g1. cyclic: gn uses g1.
func GroupingChain(n int, cyclic bool) dump.File {
	var sb strings.Builder
	sb.WriteString(hdr("m"))
	for i := 1; i <= n; i++ {
		fmt.Fprintf(&sb, " grouping g%d { leaf l%d { type string; }", i, i)
		if i < n {
			fmt.Fprintf(&sb, " container c%d { uses g%d; }", i, i+1)
		} else if cyclic {
			sb.WriteString(" container back { uses g1; }")
		}
		sb.WriteString(" }")
	}
	sb.WriteString(" container c { uses g1; } }")
	return dump.File{Name: "m.yang", Text: sb.String()}
}

// Imports: module m importing lib1..libn (each with a typedef and an identity), with a typedef, an
// identity, a leaf, and an augment through every prefix.
func Imports(n int) []dump.File {
	var fs []dump.File
	var sb strings.Builder
	sb.WriteString(hdr("m"))
	for i := 1; i <= n; i++ {
		fmt.Fprintf(&sb, " import lib%d { prefix %s; }", i, ImportPrefix(n, i))
		fs = append(fs, dump.File{Name: fmt.Sprintf("lib%d.yang", i), Text: hdr(fmt.Sprintf("lib%d", i)) + fmt.Sprintf(` typedef t { type int8 { range "0..%d"; } } identity b; container c; }`, i%100+1)})
	}
	for i := 1; i <= n; i++ {
		p := ImportPrefix(n, i)
		fmt.Fprintf(&sb, " typedef t%d { type %s:t; } identity i%d { base %s:b; } leaf l%d { type %s:t; } augment /%s:c { leaf a { type t%d; } } deviation /%s:c { deviate add { config false; } }", i, p, i, p, i, p, p, i, p)
	}
	sb.WriteString(" }")
	return append([]dump.File{{Name: "m.yang", Text: sb.String()}}, fs...)
}

// ImportPrefix is the prefix under which Imports(n) imports lib(i): vendor-style words that sort in
// another order than the module names (and than the import statements).
func ImportPrefix(n, i int) string {
	words := []string{"sys", "acl", "if", "hw", "auth", "ospf", "netinst", "bgp", "qos", "lldp", "vlan", "aaa", "ntp", "dns", "mpls", "te", "isis"}
	return fmt.Sprintf("%s%d", words[(i*5)%len(words)], n+1-i)
}

// Includes: module m with submodules s1..sn (each a typedef, an identity derived from the previous
// submodule's, a container); when nested, s(i) includes s(i+1) and m includes only s1.
func Includes(n int, nested bool) []dump.File {
	var sb strings.Builder
	sb.WriteString(hdr("m"))
	var fs []dump.File
	for i := 1; i <= n; i++ {
		if !nested || i == 1 {
			fmt.Fprintf(&sb, " include s%d;", i)
		}
		var ss strings.Builder
		fmt.Fprintf(&ss, "submodule s%d { yang-version 1.1; belongs-to m { prefix m; }", i)
		if nested && i < n {
			fmt.Fprintf(&ss, " include s%d;", i+1)
		}
		fmt.Fprintf(&ss, " typedef t%d { type int8; } container c%d { leaf l { type t%d; } }", i, i, i)
		if i == 1 {
			ss.WriteString(" identity id1;")
		} else if !nested {
			fmt.Fprintf(&ss, " include s%d; identity id%d { base id%d; }", i-1, i, i-1)
		} else {
			fmt.Fprintf(&ss, " identity id%d;", i)
		}
		ss.WriteString(" }")
		fs = append(fs, dump.File{Name: fmt.Sprintf("s%d.yang", i), Text: ss.String()})
	}
	sb.WriteString(" leaf top { type string; } }")
	return append([]dump.File{{Name: "m.yang", Text: sb.String()}}, fs...)
}

// RangeParts: the restriction "1 | 3 | 5 ..." with n single-value parts (of which the k-th, 1-based,
// is replaced by bad when bad != "").
func RangeParts(n, k int, bad string) string {
	var parts []string
	for i := 0; i < n; i++ {
		p := fmt.Sprint(2*i + 1)
		if i+1 == k && bad != "" {
			p = bad
		}
		parts = append(parts, p)
	}
	return strings.Join(parts, " | ")
}

// Nested: the statement text k1 { k2 { ... kn a; } } in compact or one-brace-per-line layout.
func Nested(n int, pretty bool) string {
	var sb strings.Builder
	nl := ""
	if pretty {
		nl = "\n"
	}
	for i := 1; i < n; i++ {
		fmt.Fprintf(&sb, "k%d {%s", i, nl)
	}
	fmt.Fprintf(&sb, "k%d a;%s", n, nl)
	for i := 1; i < n; i++ {
		sb.WriteString("}" + nl)
	}
	return sb.String()
}

// ManyGroupings: module a defines n groupings (one of them named target, like a grouping of the
// imported module b with another body) and uses b:target, target and a:target.
func ManyGroupings(n int) []dump.File {
	var sb strings.Builder
	sb.WriteString(hdr("a") + " import b { prefix b; }")
	for i := 0; i < n-1; i++ {
		fmt.Fprintf(&sb, " grouping g%d { leaf l%d { type string; } }", i, i)
	}
	sb.WriteString(" grouping target { leaf from-a { type string; } }")
	sb.WriteString(" container viab { uses b:target; } container bare { uses target; } container own { uses a:target; } container last { uses g0; } }")
	b := hdr("b") + " grouping target { leaf from-b { type int8; } container inner { leaf deep { type string; } } } }"
	return []dump.File{{Name: "a.yang", Text: sb.String()}, {Name: "b.yang", Text: b}}
}

// IncludeTrees calls f with every ordered rooted tree on k nodes (node 0 is the module, the others
// its submodules s1..s(k-1) in preorder): kids[i] lists the children of node i in include order.
func IncludeTrees(k int, f func(kids [][]int)) {
	// enumerate by parent vectors that are valid preorders: parent[i] is an ancestor-or-last-path
	// node of i-1's root path
	parent := make([]int, k)
	var rec func(i int, path []int)
	rec = func(i int, path []int) {
		if i == k {
			kids := make([][]int, k)
			for c := 1; c < k; c++ {
				kids[parent[c]] = append(kids[parent[c]], c)
			}
			f(kids)
			return
		}
		// node i may hang below any node on the current root path
		for d := len(path) - 1; d >= 0; d-- {
			parent[i] = path[d]
			rec(i+1, append(append([]int{}, path[:d+1]...), i))
		}
	}
	if k == 1 {
		f(make([][]int, 1))
		return
	}
	rec(1, []int{0})
}

// IncludeTreeFiles renders an include tree: every submodule declares an identity derived from the
// module's root identity (written with the belongs-to prefix) and a typedef used by its own leaf.
func IncludeTreeFiles(kids [][]int, reverse bool) []dump.File {
	name := func(i int) string {
		if i == 0 {
			return "m"
		}
		return fmt.Sprintf("s%d", i)
	}
	var fs []dump.File
	for i := range kids {
		var sb strings.Builder
		if i == 0 {
			sb.WriteString(hdr("m") + " identity root; leaf r { type identityref { base root; } }")
		} else {
			fmt.Fprintf(&sb, "submodule s%d { yang-version 1.1; belongs-to m { prefix m; } identity id%d { base m:root; } typedef t%d { type int8; } container c%d { leaf l { type t%d; } }", i, i, i, i, i)
		}
		ks := kids[i]
		if reverse {
			ks = append([]int{}, ks...)
			for a, b := 0, len(ks)-1; a < b; a, b = a+1, b-1 {
				ks[a], ks[b] = ks[b], ks[a]
			}
		}
		for _, c := range ks {
			fmt.Fprintf(&sb, " include %s;", name(c))
		}
		sb.WriteString(" }")
		fs = append(fs, dump.File{Name: name(i) + ".yang", Text: sb.String()})
	}
	return fs
}

// ManyUses: grouping g (a leaf with a default, a leaf-list with three defaults, a container with a
// list) used in n containers u0.. of module a and in n containers of module b.
func ManyUses(n int) []dump.File {
	var a, b strings.Builder
	a.WriteString(hdr("a") + ` typedef t { type int8 { range "1..9"; } } grouping g { leaf gl { type t; default 3; } leaf-list gll { type string; default x; default y; default z; } container gc { list gli { key k; leaf k { type string; } max-elements 5; } } }`)
	b.WriteString(hdr("b") + " import a { prefix a; }")
	for i := 0; i < n; i++ {
		fmt.Fprintf(&a, " container u%d { uses g; }", i)
		fmt.Fprintf(&b, " container v%d { config false; uses a:g; }", i)
	}
	a.WriteString(" }")
	b.WriteString(" }")
	return []dump.File{{Name: "a.yang", Text: a.String()}, {Name: "b.yang", Text: b.String()}}
}

// ManyLeaves: n leaves of typedef t, n leaves narrowing it, n leaf-lists of it, spread over two
// containers.
func ManyLeaves(n int) dump.File {
	var sb strings.Builder
	sb.WriteString(hdr("m") + ` typedef t { type int16 { range "1..500"; } units u; default 7; } typedef t2 { type t { range "2..400"; } }`)
	for i := 0; i < n; i++ {
		fmt.Fprintf(&sb, ` leaf a%d { type t; } leaf b%d { type t2 { range "3..%d"; } } leaf-list c%d { type t; }`, i, i, 10+i%300, i)
	}
	sb.WriteString(" }")
	return dump.File{Name: "m.yang", Text: sb.String()}
}

// ManyAugments: module b with container top; modules x0..x(n-1), each augmenting /b:top with its own
// leaf and container, x(i) also augmenting what x(i-1) grafted.
func ManyAugments(n int) []dump.File {
	fs := []dump.File{{Name: "b.yang", Text: hdr("b") + " container top { leaf own { type string; } } }"}}
	for i := 0; i < n; i++ {
		var sb strings.Builder
		name := fmt.Sprintf("x%d", i)
		sb.WriteString(hdr(name) + " import b { prefix b; }")
		if i > 0 {
			fmt.Fprintf(&sb, " import x%d { prefix p; } augment /b:top/p:c%d { leaf chained%d { type string; } }", i-1, i-1, i)
		}
		fmt.Fprintf(&sb, " augment /b:top { leaf l%d { type string; } container c%d { leaf in { type int8; } } } }", i, i)
		fs = append(fs, dump.File{Name: name + ".yang", Text: sb.String()})
	}
	return fs
}

// ManyDeviations: module b with n leaves (each with a default) and n leaf-lists in a container; one
// module with a deviation per leaf (replace default di), per second leaf-list (add max-elements) and
// not-supported for every third leaf of a second container.
func ManyDeviations(n int) []dump.File {
	var b, d strings.Builder
	b.WriteString(hdr("b") + " container top {")
	d.WriteString(hdr("d") + " import b { prefix b; }")
	for i := 0; i < n; i++ {
		fmt.Fprintf(&b, " leaf l%d { type string; default o%d; } leaf-list ll%d { type string; } leaf z%d { type int8; }", i, i, i, i)
		fmt.Fprintf(&d, " deviation /b:top/b:l%d { deviate replace { default d%d; } }", i, i)
		if i%2 == 0 {
			fmt.Fprintf(&d, " deviation /b:top/b:ll%d { deviate add { max-elements %d; } }", i, i+1)
		}
		if i%3 == 0 {
			fmt.Fprintf(&d, " deviation /b:top/b:z%d { deviate not-supported; }", i)
		}
	}
	b.WriteString(" } }")
	d.WriteString(" }")
	return []dump.File{{Name: "b.yang", Text: b.String()}, {Name: "d.yang", Text: d.String()}}
}

// ManyModuleIdentities: module m0 with identity root; modules m1..mn, each with an identity derived
// from root and from the previous module's identity, and an identityref leaf.
func ManyModuleIdentities(n int) []dump.File {
	fs := []dump.File{{Name: "m0.yang", Text: hdr("m0") + " identity root; identity id0 { base root; } leaf r { type identityref { base root; } } }"}}
	for i := 1; i <= n; i++ {
		name := fmt.Sprintf("m%d", i)
		text := hdr(name) + fmt.Sprintf(" import m0 { prefix z; } import m%d { prefix p; } identity id%d { base z:root; base p:id%d; } leaf r%d { type identityref { base p:id%d; } } }", i-1, i, i-1, i, i-1)
		if i == 1 {
			text = hdr(name) + " import m0 { prefix z; } identity id1 { base z:root; base z:id0; } leaf r1 { type identityref { base z:id0; } } }"
		}
		fs = append(fs, dump.File{Name: name + ".yang", Text: text})
	}
	return fs
}

// Counts: one module in which a count the other shapes keep small is n: patterns of one type, members
// of a union, bases of an identity, defaults of a leaf-list, key leaves of a list, must statements and
// extension statements of a leaf, revision statements of the module (the latest in the middle).
func Counts(n int) dump.File {
	var sb strings.Builder
	sb.WriteString(hdr("m"))
	for i := 0; i < n; i++ {
		date := 2000 + (i*7)%n
		if i == n/2 {
			date = 2000 + n
		}
		fmt.Fprintf(&sb, " revision %04d-01-01;", date)
	}
	sb.WriteString(" extension e { argument a; } typedef pt { type string {")
	for i := 0; i < n; i++ {
		fmt.Fprintf(&sb, ` pattern "p%d.*";`, i)
	}
	sb.WriteString(" } } typedef ut { type union {")
	for i := 0; i < n; i++ {
		fmt.Fprintf(&sb, ` type string { length "%d"; }`, i+1)
	}
	sb.WriteString(" } }")
	for i := 0; i < n; i++ {
		fmt.Fprintf(&sb, " identity b%d;", i)
	}
	sb.WriteString(" identity all {")
	for i := 0; i < n; i++ {
		fmt.Fprintf(&sb, " base b%d;", i)
	}
	sb.WriteString(" } leaf-list dl { type string;")
	for i := 0; i < n; i++ {
		fmt.Fprintf(&sb, " default d%d;", i)
	}
	sb.WriteString(" } list kl { key \"")
	for i := 0; i < n; i++ {
		fmt.Fprintf(&sb, "k%d ", i)
	}
	sb.WriteString("\";")
	for i := 0; i < n; i++ {
		fmt.Fprintf(&sb, " leaf k%d { type string; }", i)
	}
	sb.WriteString(` } typedef pd { type pt { pattern "x"; } } leaf pa { type pt { pattern "x"; } } leaf pb { type pt { pattern "x"; } } leaf pc { type pt { pattern "y"; } } leaf pe { type pd; } leaf pf { type pd { pattern "y"; } }`)
	sb.WriteString(" leaf pl { type pt; } leaf ul { type ut; } leaf ml { type string;")
	for i := 0; i < n; i++ {
		fmt.Fprintf(&sb, ` must "%d = %d"; m:e x%d;`, i, i, i)
	}
	sb.WriteString(" } }")
	return dump.File{Name: "m.yang", Text: sb.String()}
}

// LongArgs: a module whose description, namespace, pattern, default, units, must expression, path
// and an extension argument are n bytes long (the description spans lines every 70 bytes).
func LongArgs(n int) (dump.File, string) {
	arg := Name('q', n)
	var desc strings.Builder
	for i := 0; i < n; i++ {
		if i%70 == 69 {
			desc.WriteString("\n ")
		} else {
			desc.WriteByte("abcdefgh ij"[i%11])
		}
	}
	text := hdr("m") + ` extension e { argument a; } description "` + desc.String() + `"; leaf t { type string; }
 leaf l { type string { pattern "` + arg + `.*"; } default "` + arg + `"; units "` + arg + `"; must "` + arg + ` = 1"; m:e "` + arg + `"; } leaf r { type leafref { path "/m:t[m:` + arg + ` = 1]"; } } leaf after { type string; } }`
	return dump.File{Name: "m.yang", Text: text}, arg
}

// AugmentLadder: module b with container top; x0 augments /b:top with container c0, x1 augments
// /b:top/x0:c0 with c1, x2 augments /b:top/x0:c0/x1:c1 with c2 ...: a path through n+1 modules, each
// step with another prefix. Every x(i) imports b and all x(j), j < i.
func AugmentLadder(n int) []dump.File {
	fs := []dump.File{{Name: "b.yang", Text: hdr("b") + " container top { leaf own { type string; } } }"}}
	path := "/b:top"
	for i := 0; i < n; i++ {
		name := fmt.Sprintf("x%d", i)
		var sb strings.Builder
		sb.WriteString(hdr(name) + " import b { prefix b; }")
		for j := 0; j < i; j++ {
			fmt.Fprintf(&sb, " import x%d { prefix x%d; }", j, j)
		}
		fmt.Fprintf(&sb, " augment %s { container c%d { leaf l%d { type string; } } } }", path, i, i)
		fs = append(fs, dump.File{Name: name + ".yang", Text: sb.String()})
		path += fmt.Sprintf("/x%d:c%d", i, i)
	}
	return fs
}

// GroupingChainErrors: the grouping chain with k leaves of k different unknown types at the bottom.
func GroupingChainErrors(n, k int) dump.File {
	f := GroupingChain(n, false)
	var sb strings.Builder
	for i := 0; i < k; i++ {
		fmt.Fprintf(&sb, " leaf bad%d { type nosuch%d; }", i, i)
	}
	last := fmt.Sprintf("grouping g%d { leaf l%d { type string; }", n, n)
	f.Text = strings.Replace(f.Text, last, last+sb.String(), 1)
	return f
}

// EqualNames: m0 with identity root; n modules, each declaring identities named a, k and z (the same
// names in every module) and one of its own, all derived from root (z also from the previous
// module's k).
func EqualNames(n int) []dump.File {
	fs := []dump.File{{Name: "m0.yang", Text: hdr("m0") + " identity root; leaf r { type identityref { base root; } } }"}}
	for i := 1; i <= n; i++ {
		name := fmt.Sprintf("m%d", i)
		prev := ""
		zb := ""
		if i > 1 {
			prev = fmt.Sprintf(" import m%d { prefix p; }", i-1)
			zb = " base p:k;"
		}
		fs = append(fs, dump.File{Name: name + ".yang", Text: hdr(name) + " import m0 { prefix z; }" + prev + fmt.Sprintf(" identity a { base z:root; } identity k { base z:root; } identity z { base z:root;%s } identity own%d { base z:root; } }", zb, i)})
	}
	return fs
}

// UsesInOneNode: container top with n uses statements of n groupings, each bringing a container with
// a leaf, a list with a key, and an action with input.
func UsesInOneNode(n int) dump.File {
	var sb strings.Builder
	sb.WriteString(hdr("m"))
	for i := 0; i < n; i++ {
		fmt.Fprintf(&sb, " grouping g%d { container c%d { leaf l%d { type string; } list li { key k; leaf k { type string; } } action a%d { input { leaf p { type string; } } } } leaf top%d { type string; } }", i, i, i, i, i)
	}
	sb.WriteString(" container top {")
	for i := 0; i < n; i++ {
		fmt.Fprintf(&sb, " uses g%d;", i)
	}
	sb.WriteString(" } }")
	return dump.File{Name: "m.yang", Text: sb.String()}
}

// ImportLadder: n levels of two modules each; both modules of a level import both modules of the
// next level, and the two at the bottom import a module that is not there (missing) or a last,
// complete one. Every module is reached on 2^level paths: a resolver that walks paths instead of
// modules does not come back.
func ImportLadder(n int, missing bool) []dump.File {
	var fs []dump.File
	for l := 0; l < n; l++ {
		for _, side := range []string{"a", "b"} {
			name := fmt.Sprintf("l%d%s", l, side)
			var sb strings.Builder
			sb.WriteString(hdr(name))
			if l+1 < n {
				fmt.Fprintf(&sb, " import l%da { prefix x; } import l%db { prefix y; } leaf v { type x:t; }", l+1, l+1)
			} else {
				sb.WriteString(" import bottom { prefix x; }")
			}
			sb.WriteString(" typedef t { type string; } }")
			fs = append(fs, dump.File{Name: name + ".yang", Text: sb.String()})
		}
	}
	if !missing {
		fs = append(fs, dump.File{Name: "bottom.yang", Text: hdr("bottom") + " typedef t { type string; } }"})
	}
	return fs
}
