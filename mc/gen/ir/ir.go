// Package ir is a small schema IR with a renderer to YANG text and an independent reference
// semantics: lexical lookup of groupings and typedefs, inlining of uses in the definition scope,
// grafting of augments to a fixpoint, implicit cases after augmentation, and evaluation of effective
// config, namespace attribution and resolved base types on the normalised tree. It knows nothing
// about goyang; harnesses compare its expected trees with the Entry trees goyang builds.
package ir

import (
	"fmt"
	"sort"
	"strings"
)

// S is one statement of the data-definition subset.
type S struct {
	Kind    string // container leaf leaf-list list choice case uses grouping typedef rpc action input output notification anydata augment
	Name    string // node name; uses: grouping name as written; augment: target path as written
	Cfg     string // "", "true", "false"
	Type    string // leaf, leaf-list, typedef: type name as written
	Default string
	Min     string
	Max     string
	Must    string // a must constraint (kept by the library in Entry.Extra)
	Ext     string // argument of an extension statement x:note below the node
	Kids    []*S
}

// Mod is a module or (Owner != "") a submodule of Owner. The prefix of a module is its name; a
// submodule refers to its owner by the owner's name.
type Mod struct {
	Name     string
	Owner    string
	Imports  []string
	Alias    map[string]string // further imports under a prefix that differs from the module name: prefix -> module
	Includes []string
	Rev      string // revision date ("" = none): the module is then registered under name and name@rev
	Body     []*S
	// BelongsPfx: for a submodule, the prefix its belongs-to statement declares ("" = the owner's
	// name). It is the only way the submodule can name its module's definitions; the prefix the
	// owner declares for itself is not in scope there and may be bound to an import.
	BelongsPfx string
	// Prefix: the prefix a module declares for itself ("" = its name).
	Prefix string
}

func Leaf(n, t string) *S              { return &S{Kind: "leaf", Name: n, Type: t} }
func Cont(n string, kids ...*S) *S     { return &S{Kind: "container", Name: n, Kids: kids} }
func Uses(g string) *S                 { return &S{Kind: "uses", Name: g} }
func Group(n string, kids ...*S) *S    { return &S{Kind: "grouping", Name: n, Kids: kids} }
func Typedef(n, t string) *S           { return &S{Kind: "typedef", Name: n, Type: t} }
func Aug(target string, kids ...*S) *S { return &S{Kind: "augment", Name: target, Kids: kids} }
func N(kind, name string, kids ...*S) *S {
	return &S{Kind: kind, Name: name, Kids: kids}
}
func (s *S) WithCfg(c string) *S { s.Cfg = c; return s }

// Clone deep-copies a statement.
func (s *S) Clone() *S {
	c := *s
	c.Kids = nil
	for _, k := range s.Kids {
		c.Kids = append(c.Kids, k.Clone())
	}
	return &c
}

// Render prints a statement as YANG.
func Render(s *S) string {
	var sb strings.Builder
	switch s.Kind {
	case "uses":
		return fmt.Sprintf("uses %s;", s.Name)
	case "typedef":
		return fmt.Sprintf("typedef %s { type %s; }", s.Name, s.Type)
	case "leaf", "leaf-list":
		fmt.Fprintf(&sb, "%s %s { type %s;", s.Kind, s.Name, s.Type)
	case "input", "output":
		fmt.Fprintf(&sb, "%s {", s.Kind)
	case "list":
		fmt.Fprintf(&sb, "list %s { key k; leaf k { type string; }", s.Name)
	case "augment":
		fmt.Fprintf(&sb, "augment %q {", s.Name)
	default:
		fmt.Fprintf(&sb, "%s %s {", s.Kind, s.Name)
	}
	if s.Cfg != "" {
		fmt.Fprintf(&sb, " config %s;", s.Cfg)
	}
	if s.Default != "" {
		for _, d := range strings.Split(s.Default, ",") { // a leaf-list may have several
			fmt.Fprintf(&sb, " default %q;", d)
		}
	}
	if s.Min != "" {
		fmt.Fprintf(&sb, " min-elements %s;", s.Min)
	}
	if s.Max != "" {
		fmt.Fprintf(&sb, " max-elements %s;", s.Max)
	}
	if s.Must != "" {
		fmt.Fprintf(&sb, " must %q;", s.Must)
	}
	if s.Ext != "" {
		fmt.Fprintf(&sb, " x:note %q;", s.Ext)
	}
	for _, k := range s.Kids {
		sb.WriteString(" " + Render(k))
	}
	sb.WriteString(" }")
	return sb.String()
}

// Text renders a module.
func (m *Mod) Text() string {
	var sb strings.Builder
	if m.Owner != "" {
		bp := m.BelongsPfx
		if bp == "" {
			bp = m.Owner
		}
		fmt.Fprintf(&sb, "submodule %s { belongs-to %s { prefix %s; }", m.Name, m.Owner, bp)
	} else {
		pfx := m.Prefix
		if pfx == "" {
			pfx = m.Name
		}
		fmt.Fprintf(&sb, `module %s { namespace "urn:%s"; prefix %s;`, m.Name, m.Name, pfx)
	}
	if m.Rev != "" {
		fmt.Fprintf(&sb, " revision %s;", m.Rev)
	}
	for _, i := range m.Imports {
		fmt.Fprintf(&sb, " import %s { prefix %s; }", i, i)
	}
	var aliases []string
	for p := range m.Alias {
		aliases = append(aliases, p)
	}
	sort.Strings(aliases)
	for _, p := range aliases {
		fmt.Fprintf(&sb, " import %s { prefix %s; }", m.Alias[p], p)
	}
	for _, i := range m.Includes {
		fmt.Fprintf(&sb, " include %s;", i)
	}
	for _, s := range m.Body {
		sb.WriteString(" " + Render(s))
	}
	sb.WriteString(" }")
	return sb.String()
}

// ---------------------------------------------------------------------------------------------
// expected tree

// E is a node of the expected (normalised) tree.
type E struct {
	Kind      string // module container leaf leaf-list list choice case rpc input output notification anydata
	Name      string
	NS        string // module whose text placed the node
	Cfg       string // explicit config on this node
	RO        bool   // effective: filled by Finish
	TypeKind  string // resolved built-in type name for leaves
	TypeName  string // name of the nearest typedef in the chain ("" if the leaf names a built-in directly)
	Default   string
	Min, Max  string
	Must, Ext string
	Implicit  bool // implicit case: its own namespace is not compared
	Kids      map[string]*E
	Parent    *E
}

func newE(kind, name, ns string) *E { return &E{Kind: kind, Name: name, NS: ns, Kids: map[string]*E{}} }

type scope struct {
	parent    *scope
	groupings map[string]*S
	typedefs  map[string]string
	mod       *Mod
}

func newScope(p *scope, m *Mod, stmts []*S) *scope {
	sc := &scope{parent: p, groupings: map[string]*S{}, typedefs: map[string]string{}, mod: m}
	for _, s := range stmts {
		if s.Kind == "grouping" {
			sc.groupings[s.Name] = s
		}
		if s.Kind == "typedef" {
			sc.typedefs[s.Name] = s.Type
		}
	}
	return sc
}

// World is a set of modules with the reference semantics.
type World struct {
	Mods  map[string]*Mod
	Order []string // all module and submodule names
	top   map[string]*scope
	Trees map[string]*E // expected tree per (owner) module
	// Problems the reference predicts Process must report (any error text will do).
	MustError []string
}

// NewWorld builds the scopes.
func NewWorld(mods ...*Mod) *World {
	w := &World{Mods: map[string]*Mod{}, top: map[string]*scope{}, Trees: map[string]*E{}}
	for _, m := range mods {
		w.Mods[m.Name] = m
		w.Order = append(w.Order, m.Name)
		w.top[m.Name] = newScope(nil, m, m.Body)
	}
	return w
}

// ownPrefix is the prefix under which the text of m names its own module.
func (w *World) ownPrefix(m *Mod) string {
	if m.Owner != "" && m.BelongsPfx != "" {
		return m.BelongsPfx
	}
	if m.Owner == "" && m.Prefix != "" {
		return m.Prefix
	}
	return w.ownerName(m)
}

func (w *World) ownerName(m *Mod) string {
	if m.Owner != "" {
		return m.Owner
	}
	return m.Name
}

// ownerTops: the top scope of the owner module and of all its submodules (a module and its
// submodules form one name space for top-level definitions).
func (w *World) ownerTops(m *Mod) []*scope {
	own := w.Mods[w.ownerName(m)]
	if own == nil {
		return []*scope{w.top[m.Name]}
	}
	out := []*scope{w.top[own.Name]}
	var names []string
	for n, x := range w.Mods {
		if x.Owner == own.Name {
			names = append(names, n)
		}
	}
	sort.Strings(names)
	for _, n := range names {
		out = append(out, w.top[n])
	}
	return out
}

func split(name string) (pfx, base string) {
	if i := strings.Index(name, ":"); i >= 0 {
		return name[:i], name[i+1:]
	}
	return "", name
}

func (w *World) imports(m *Mod, pfx string) *Mod {
	if t, ok := m.Alias[pfx]; ok {
		return w.Mods[t]
	}
	for _, i := range m.Imports {
		if i == pfx {
			return w.Mods[i]
		}
	}
	return nil
}

func (w *World) findGrouping(sc *scope, name string) (*S, *scope) {
	pfx, base := split(name)
	if pfx == "" || pfx == w.ownPrefix(sc.mod) {
		for s := sc; s != nil; s = s.parent {
			if g, ok := s.groupings[base]; ok {
				return g, s
			}
		}
		for _, t := range w.ownerTops(sc.mod) {
			if g, ok := t.groupings[base]; ok {
				return g, t
			}
		}
		return nil, nil
	}
	if m := w.imports(sc.mod, pfx); m != nil {
		for _, t := range w.ownerTops(m) {
			if g, ok := t.groupings[base]; ok {
				return g, t
			}
		}
	}
	return nil, nil
}

var builtin = map[string]bool{"string": true, "int8": true, "int16": true, "int32": true, "int64": true, "uint8": true, "uint16": true, "uint32": true, "uint64": true, "boolean": true, "empty": true, "binary": true}

// ResolveType returns the built-in base and the name of the first typedef on the chain.
func (w *World) resolveType(sc *scope, name string) (kind, first string, ok bool) {
	for depth := 0; depth < 12; depth++ {
		pfx, base := split(name)
		if pfx == "" && builtin[base] {
			return base, first, true
		}
		found := false
		if pfx == "" || pfx == w.ownPrefix(sc.mod) {
			for s := sc; s != nil && !found; s = s.parent {
				if t, ok := s.typedefs[base]; ok {
					name, sc, found = t, s, true
				}
			}
			if !found {
				for _, t := range w.ownerTops(sc.mod) {
					if tt, ok := t.typedefs[base]; ok {
						name, sc, found = tt, t, true
						break
					}
				}
			}
		} else if m := w.imports(sc.mod, pfx); m != nil {
			for _, t := range w.ownerTops(m) {
				if tt, ok := t.typedefs[base]; ok {
					name, sc, found = tt, t, true
					break
				}
			}
		}
		if !found {
			return "", "", false
		}
		if first == "" {
			first = base
		}
	}
	return "", "", false
}

// expand instantiates stmts (written in scope sc) below e; ns is the module placing the nodes.
func (w *World) expand(stmts []*S, sc *scope, e *E, ns string, depth int) {
	if depth > 20 {
		w.MustError = append(w.MustError, "grouping cycle")
		return
	}
	local := newScope(sc, sc.mod, stmts)
	for _, s := range stmts {
		switch s.Kind {
		case "grouping", "typedef", "augment":
			continue
		case "uses":
			g, gsc := w.findGrouping(local, s.Name)
			if g == nil {
				w.MustError = append(w.MustError, "unknown grouping "+s.Name)
				continue
			}
			// names inside the grouping resolve where it is defined; the copies belong to ns
			w.expand(g.Kids, gsc, e, ns, depth+1)
			continue
		}
		n := newE(s.Kind, s.Name, ns)
		if s.Kind == "action" {
			n.Kind = "rpc"
		}
		if s.Kind == "input" || s.Kind == "output" {
			n.Name = s.Kind
		}
		n.Cfg, n.Default, n.Min, n.Max = s.Cfg, s.Default, s.Min, s.Max
		n.Must, n.Ext = s.Must, s.Ext
		if s.Kind == "leaf" || s.Kind == "leaf-list" {
			k, first, ok := w.resolveType(local, s.Type)
			if !ok {
				w.MustError = append(w.MustError, "unknown type "+s.Type)
			}
			n.TypeKind, n.TypeName = k, first
		}
		if s.Kind == "list" {
			kk := newE("leaf", "k", ns)
			kk.TypeKind = "string"
			kk.Parent = n
			n.Kids["k"] = kk
		}
		if old := e.Kids[n.Name]; old != nil {
			w.MustError = append(w.MustError, "duplicate node "+n.Name)
			continue
		}
		n.Parent = e
		e.Kids[n.Name] = n
		w.expand(s.Kids, local, n, ns, depth)
	}
}

// find walks a path from the roots; prefixes are resolved through the imports of ctx.
func (w *World) find(ctx *Mod, path string, create bool) *E {
	if !strings.HasPrefix(path, "/") {
		return nil
	}
	parts := strings.Split(path[1:], "/")
	var cur *E
	skipStep := false
	for i, p := range parts {
		pfx, base := split(p)
		if i == 0 {
			var m *Mod
			if pfx == "" || pfx == w.ownPrefix(ctx) {
				m = w.Mods[w.ownerName(ctx)]
			} else {
				m = w.imports(ctx, pfx)
			}
			if m == nil {
				return nil
			}
			cur = w.Trees[w.ownerName(m)]
			if cur == nil {
				return nil
			}
		}
		next := cur.Kids[base]
		if skipStep {
			// the second of the two steps that name a shorthand member of a choice the RFC way
			// (implied case, then the member): already taken
			skipStep = false
			continue
		}
		if next != nil && cur.Kind == "choice" && next.Kind != "case" && i+1 < len(parts) {
			if _, nb := split(parts[i+1]); nb == base {
				skipStep = true
			}
		}
		if next == nil && cur.Kind == "rpc" && (base == "input" || base == "output") && create {
			// an rpc or action always has an input and an output, written or not
			next = newE(base, base, cur.NS)
			next.Parent = cur
			cur.Kids[base] = next
		}
		if next == nil {
			return nil
		}
		cur = next
	}
	return cur
}

func canHaveChildren(e *E) bool {
	switch e.Kind {
	case "leaf", "leaf-list", "anydata", "anyxml", "rpc":
		return false
	}
	return true
}

// Build computes the expected trees: inline uses, graft augments to a fixpoint, insert implicit
// cases, evaluate config. It returns false when the reference cannot decide (generator error).
func (w *World) Build() {
	for _, name := range w.Order {
		m := w.Mods[name]
		own := w.ownerName(m)
		if w.Trees[own] == nil {
			w.Trees[own] = newE("module", own, own)
		}
	}
	for _, name := range w.Order {
		m := w.Mods[name]
		w.expand(m.Body, w.top[name], w.Trees[w.ownerName(m)], w.ownerName(m), 0)
	}
	// augments to a fixpoint
	type pending struct {
		m *Mod
		a *S
	}
	var todo []pending
	for _, name := range w.Order {
		for _, s := range w.Mods[name].Body {
			if s.Kind == "augment" {
				todo = append(todo, pending{w.Mods[name], s})
			}
		}
	}
	for progress := true; progress && len(todo) > 0; {
		progress = false
		var rest []pending
		for _, p := range todo {
			t := w.find(p.m, p.a.Name, true)
			if t == nil {
				rest = append(rest, p)
				continue
			}
			progress = true
			if !canHaveChildren(t) {
				w.MustError = append(w.MustError, "augment target cannot have children: "+p.a.Name)
				continue
			}
			// collision check first: an augment that collides is reported, not half-applied
			tmp := newE(t.Kind, t.Name, t.NS)
			before := len(w.MustError)
			w.expand(p.a.Kids, newScope(w.top[p.m.Name], p.m, nil), tmp, w.ownerName(p.m), 0)
			if len(w.MustError) > before {
				continue
			}
			coll := false
			for k := range tmp.Kids {
				if t.Kids[k] != nil {
					coll = true
				}
			}
			if coll {
				w.MustError = append(w.MustError, "augment collides with an existing child: "+p.a.Name)
				continue
			}
			for k, c := range tmp.Kids {
				c.Parent = t
				t.Kids[k] = c
			}
		}
		todo = rest
	}
	for _, p := range todo {
		w.MustError = append(w.MustError, "augment target not found: "+p.a.Name)
	}
	for _, t := range w.Trees {
		implicitCases(t)
		finish(t, false, false)
	}
}

func implicitCases(e *E) {
	if e.Kind == "choice" {
		for k, c := range e.Kids {
			if c.Kind != "case" {
				cs := newE("case", c.Name, c.NS)
				cs.Implicit = true
				cs.Parent = e
				cs.Cfg = c.Cfg // the library copies the member's config onto the implicit case
				cs.Kids[c.Name] = c
				c.Parent = cs
				e.Kids[k] = cs
			}
		}
	}
	for _, c := range e.Kids {
		implicitCases(c)
	}
}

func finish(e *E, ro, inOutput bool) {
	switch {
	case e.Kind == "output" || inOutput:
		inOutput = true
		ro = true
	case e.Cfg == "false":
		ro = true
	case e.Cfg == "true":
		ro = false
	}
	e.RO = ro
	for _, c := range e.Kids {
		finish(c, ro, inOutput)
	}
}

// Walk visits the tree in name order.
func (e *E) Walk(path string, f func(path string, n *E)) {
	f(path, e)
	var ks []string
	for k := range e.Kids {
		ks = append(ks, k)
	}
	sort.Strings(ks)
	for _, k := range ks {
		e.Kids[k].Walk(path+"/"+k, f)
	}
}

// ---------------------------------------------------------------------------------------------
// prefix schemes

// PrefixSchemes is the number of ways Reprefix can spell the prefixes of a world (scheme 0 is the
// plain one: every prefix equals the name of the module it stands for).
const PrefixSchemes = 6

// Reprefix returns a copy of the world in which the same modules know themselves and one another
// under other prefixes; every prefixed reference in the bodies is rewritten accordingly, so the
// meaning of the schema - and with it the expected trees - is unchanged.
//
//	1: prefixes with dots in them; own, import and belongs-to prefixes all differ
//	2: every module declares, and is imported under, the NAME of another loaded module
//	3: all modules declare the same prefix; importers bind distinct ones
func Reprefix(w *World, scheme int) *World {
	if scheme == 0 {
		return w
	}
	var tops []string // the modules proper, in order
	for _, n := range w.Order {
		if w.Mods[n].Owner == "" {
			tops = append(tops, n)
		}
	}
	next := map[string]string{}
	for i, n := range tops {
		next[n] = tops[(i+1)%len(tops)]
	}
	rank := map[string]int{}
	for i, n := range tops {
		rank[n] = i
	}
	// schemes 4 and 5: the prefixes of the modules form a chain in which each is a proper prefix
	// (4: k, k-y, k-y-y) or a proper suffix (5: k, y-k, y-y-k) of the next; a module is known by
	// its chain prefix everywhere
	chain := func(m string) string {
		// (letters no family uses for an alias prefix of its own)
		if scheme == 4 {
			return "k" + strings.Repeat("-y", rank[m])
		}
		return strings.Repeat("y-", rank[m]) + "k"
	}
	own := func(m string) string { // the prefix module m declares for itself
		switch scheme {
		case 1:
			return "p." + m
		case 2:
			return next[m]
		case 4, 5:
			return chain(m)
		}
		return "q"
	}
	imp := func(importer, m string) string { // the prefix importer binds m to
		switch scheme {
		case 1:
			return "i." + m + ".x"
		case 2:
			return next[m]
		case 4, 5:
			return chain(m)
		}
		return "i" + m
	}
	belongs := func(owner string) string {
		if scheme == 1 {
			return "o." + owner
		}
		return own(owner)
	}
	var mods []*Mod
	for _, n := range w.Order {
		old := w.Mods[n]
		m := *old
		m.Imports, m.Alias, m.Body = nil, map[string]string{}, nil
		ren := map[string]string{}
		if old.Owner != "" {
			m.BelongsPfx = belongs(old.Owner)
			ren[w.ownPrefix(old)] = m.BelongsPfx
		} else {
			m.Prefix = own(old.Name)
			ren[w.ownPrefix(old)] = m.Prefix
		}
		for _, x := range old.Imports {
			p := imp(old.Name, x)
			m.Alias[p] = x
			ren[x] = p
		}
		for p, x := range old.Alias {
			m.Alias[p] = x
		}
		ref := func(s string) string {
			if pfx, base := split(s); pfx != "" {
				if np, ok := ren[pfx]; ok {
					return np + ":" + base
				}
			}
			return s
		}
		var walk func(s *S)
		walk = func(s *S) {
			switch s.Kind {
			case "uses":
				s.Name = ref(s.Name)
			case "augment":
				steps := strings.Split(s.Name, "/")
				for i := range steps {
					steps[i] = ref(steps[i])
				}
				s.Name = strings.Join(steps, "/")
			}
			if s.Type != "" {
				s.Type = ref(s.Type)
			}
			for _, k := range s.Kids {
				walk(k)
			}
		}
		for _, s := range old.Body {
			c := s.Clone()
			walk(c)
			m.Body = append(m.Body, c)
		}
		mods = append(mods, &m)
	}
	return NewWorld(mods...)
}
