//go:build !verif

// Package sched runs thread bodies under the cooperative scheduler of the sync shim when the worker
// is linked against the instrumented copy; otherwise it is inert.
package sched

func Active() bool { return false }

func Run(prefix []int, bodies []func()) (trace, nen, run []int, deadlock bool) {
	panic("sched: not an instrumented build")
}
