//go:build verif

// Package sched runs thread bodies under the cooperative scheduler of the sync shim when the worker
// is linked against the instrumented copy; otherwise it is inert.
package sched

import "github.com/openconfig/goyang/pkg/verifrt/vsync"

func Active() bool { return true }

// Run executes bodies under the schedule prefix; see vsync.Run.
func Run(prefix []int, bodies []func()) (trace, nen, run []int, deadlock bool) {
	return vsync.Run(prefix, bodies)
}
