package main

import "fmt"

func buildInstrumented(variant, scratch string) (string, []string, string, error) {
	return "", nil, "", fmt.Errorf("variant %s not built yet", variant)
}
