package main

import (
	"bytes"
	"fmt"
	"os"
	"os/exec"
	"path/filepath"
	"strings"

	"verif/mc/instr"
)

// buildInstrumented copies /repo's working tree to the scratch directory, rewrites the copy
// (order: map ranges; sched: sync shim), checks that the repository's own suite still passes on
// the rewritten copy (conformance of the instrumentation), and builds the worker against it.
func buildInstrumented(variant, scratch string) (worker string, extraEnv []string, suiteNote string, err error) {
	copyDir := filepath.Join(scratch, "goyang")
	if err = instr.CopyTree(repoDir, copyDir); err != nil {
		return
	}
	if err = instr.InstallRuntime(copyDir); err != nil {
		return
	}
	if err = instr.BumpGoVersion(copyDir, "1.23"); err != nil {
		return
	}
	rep, e := instr.Instrument(copyDir, []string{"pkg/yang", "pkg/indent", "pkg/yangentry", "."}, variant == "order", variant == "sched")
	if e != nil {
		return "", nil, "", fmt.Errorf("instrumenting: %v", e)
	}
	if variant == "order" && rep.MapRanges == 0 {
		return "", nil, "", fmt.Errorf("instrumenter found no range-over-map statement")
	}
	if variant == "sched" && rep.SyncImports == 0 {
		return "", nil, "", fmt.Errorf("instrumenter found no sync import")
	}
	// conformance: the repository's own tests on the rewritten copy (canonical order / free-running)
	skipSuite := os.Getenv("VERIF_SKIP_SUITE") != ""
	if !skipSuite {
		cmd := exec.Command("go", "test", "-vet=off", "-count=1", "./...")
		cmd.Dir = copyDir
		cmd.Env = goEnv()
		var out bytes.Buffer
		cmd.Stdout, cmd.Stderr = &out, &out
		if e := cmd.Run(); e != nil {
			// Is it the instrumentation, or does /repo fail its own suite anyway? Only the former is
			// an error of the machinery.
			plain := exec.Command("go", "test", "-vet=off", "-count=1", "./...")
			plain.Dir = repoDir
			plain.Env = goEnv()
			var pout bytes.Buffer
			plain.Stdout, plain.Stderr = &pout, &pout
			if pe := plain.Run(); pe == nil {
				return "", nil, "", fmt.Errorf("the repository's own suite passes on /repo but fails on the instrumented copy: the instrumentation does not conform\n%s", tail(out.String(), 3000))
			}
			suiteNote = fmt.Sprintf("conformance inconclusive: the repository's own suite fails on /repo itself as well as on the instrumented copy (%d map ranges rewritten, %d sync imports redirected)", rep.MapRanges, rep.SyncImports)
		} else {
			suiteNote = fmt.Sprintf("repository suite passes on the instrumented copy (%d map ranges rewritten, %d sync imports redirected)", rep.MapRanges, rep.SyncImports)
		}
	} else {
		suiteNote = fmt.Sprintf("suite skipped by VERIF_SKIP_SUITE (%d map ranges rewritten, %d sync imports redirected)", rep.MapRanges, rep.SyncImports)
	}
	// module file pointing the harness at the copy
	b, err := os.ReadFile(filepath.Join(verifDir, "mc", "go.mod"))
	if err != nil {
		return
	}
	mod := strings.Replace(string(b), "=> "+"/repo", "=> "+copyDir, 1)
	mod = strings.Replace(mod, "=> "+repoDir, "=> "+copyDir, 1)
	mod = strings.Replace(mod, "go 1.22.0", "go 1.23", 1)
	modfile := filepath.Join(scratch, "go.mod")
	if err = os.WriteFile(modfile, []byte(mod), 0o644); err != nil {
		return
	}
	sum, _ := os.ReadFile(filepath.Join(repoDir, "go.sum"))
	os.WriteFile(filepath.Join(scratch, "go.sum"), sum, 0o644)
	worker = filepath.Join(scratch, "worker")
	os.Remove(worker)
	args := []string{"build", "-modfile=" + modfile, "-tags", "verif", "-o", worker}
	if variant == "sched" {
		args = append(args, "-race")
	}
	args = append(args, "./cmd/worker")
	cmd := exec.Command("go", args...)
	cmd.Dir = filepath.Join(verifDir, "mc")
	cmd.Env = goEnv()
	var out bytes.Buffer
	cmd.Stdout, cmd.Stderr = &out, &out
	if e := cmd.Run(); e != nil {
		return "", nil, "", fmt.Errorf("%v\n%s", e, out.String())
	}
	if variant == "order" {
		// the instrumented command-line tool, for the reproducibility of its renderings
		cli := filepath.Join(scratch, "goyang-cli")
		cmd := exec.Command("go", "build", "-o", cli, ".")
		cmd.Dir = copyDir
		cmd.Env = goEnv()
		out.Reset()
		cmd.Stdout, cmd.Stderr = &out, &out
		if e := cmd.Run(); e != nil {
			return "", nil, "", fmt.Errorf("building the instrumented goyang command: %v\n%s", e, out.String())
		}
		extraEnv = append(extraEnv, "VERIF_CLI="+cli)
	}
	extraEnv = append(extraEnv, "VERIF_SCRATCH_DIR="+scratch)
	return worker, extraEnv, suiteNote, nil
}

func tail(s string, n int) string {
	if len(s) > n {
		return s[len(s)-n:]
	}
	return s
}
