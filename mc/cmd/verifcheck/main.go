// verifcheck is the driver: it builds the worker for one property from /repo's current working tree
// (or from an instrumented scratch copy of it), distributes the property's shards over worker
// processes with crash isolation, classifies failures against known_findings.json, confirms new
// ones by replay in fresh processes, and writes evidence and replay files.
//
//	verifcheck <prop> <quick|thorough>
//	verifcheck replay <replay.json>
package main

import (
	"bytes"
	"context"
	"crypto/sha1"
	"encoding/json"
	"fmt"
	"os"
	"os/exec"
	"path/filepath"
	"sort"
	"strconv"
	"strings"
	"sync"
	"time"
	"unsafe"

	"verif/mc/core"
)

var (
	verifDir = envOr("VERIF_DIR", "/verif")
	repoDir  = envOr("VERIF_REPO", "/repo")
	workRoot = envOr("VERIF_SCRATCH", "/var/tmp/verif-work")
)

// variant of build each property needs.
var variants = map[string]string{
	"C05": "order", "C11": "order", "C19": "sched",
}

func envOr(k, d string) string {
	if v := os.Getenv(k); v != "" {
		return v
	}
	return d
}

func internal(f string, a ...any) {
	fmt.Fprintf(os.Stderr, "verifcheck: INTERNAL ERROR: "+f+"\n", a...)
	os.Exit(2)
}

func goEnv() []string {
	env := os.Environ()
	env = append(env, "GOFLAGS=-mod=mod", "GOPROXY=off", "GOSUMDB=off", "GOTOOLCHAIN=local", "GONOSUMDB=*", "GONOSUMCHECK=1")
	return env
}

type known struct {
	Property string `json:"property"`
	Class    string `json:"class"`
	Failure  string `json:"failure"`
	Witness  string `json:"witness"`
	Why      string `json:"why"`
}

type knownFile struct {
	Findings []known  `json:"findings"`
	Fixed    []string `json:"fixed"`
}

func loadKnown() knownFile {
	var kf knownFile
	b, err := os.ReadFile(filepath.Join(verifDir, "known_findings.json"))
	if err != nil {
		return kf
	}
	if err := json.Unmarshal(b, &kf); err != nil {
		internal("known_findings.json: %v", err)
	}
	return kf
}

type crash struct {
	Shard string
	Case  int64
	Kind  string
	Text  string
}

func classifyDeath(stderr string, hang bool) string {
	switch {
	case hang:
		return "hang"
	case strings.Contains(stderr, "stack overflow") || strings.Contains(stderr, "goroutine stack exceeds"):
		return "stack-overflow"
	case strings.Contains(stderr, "concurrent map"):
		return "concurrent-map"
	case strings.Contains(stderr, "out of memory") || strings.Contains(stderr, "cannot allocate"):
		return "out-of-memory"
	case strings.Contains(stderr, "all goroutines are asleep"):
		return "deadlock"
	case strings.Contains(stderr, "DATA RACE"):
		return "data-race"
	case strings.Contains(stderr, "panic:"):
		return "panic"
	}
	return "died"
}

func readProgress(path string) int64 {
	b, err := os.ReadFile(path)
	if err != nil || len(b) < 8 {
		return -1
	}
	return *(*int64)(unsafe.Pointer(&b[0]))
}

type runner struct {
	prop, tier string
	worker     string
	scratch    string
	deadline   time.Time
	seed       int64
	extraEnv   []string
	noResume   bool
}

// runShard runs one shard to completion. After a worker death the case the worker had announced is
// "poisoned" (reported by the harness as fatal:<kind> instead of executed) and the shard is run
// again, fast-forwarding past the cases already executed where the harness allows it. Failures are
// streamed by the worker as it finds them, so those of a dead attempt are kept.
func (r *runner) runShard(idx int, shard string) (*core.Result, []crash, error) {
	var crashes []crash
	var poison []string
	var streamed []core.Failure
	var resume int64
	prog := filepath.Join(r.scratch, fmt.Sprintf("progress.%d", idx))
	maxDeaths := 60
	if r.noResume {
		maxDeaths = 12
	}
	giveUp := func(why string) (*core.Result, []crash, error) {
		// Deaths that could not all be worked around: report what is known instead of failing.
		res := &core.Result{Property: r.prop, Tier: r.tier, Shard: shard, Outcomes: map[string]int64{}, FailCounts: map[string]int64{}, Exhaustive: false}
		res.Notes = append(res.Notes, why)
		for _, c := range crashes {
			f := core.Failure{Property: r.prop, Tier: r.tier, Shard: shard, Case: c.Case, Classes: []string{}, Fingerprint: "fatal:" + c.Kind,
				Input: json.RawMessage(fmt.Sprintf(`{"shard":%q,"case":%d,"note":"input not recovered: the shard was abandoned after repeated worker deaths"}`, shard, c.Case)), Observed: c.Text}
			streamed = append(streamed, f)
		}
		mergeStreamed(res, streamed)
		return res, crashes, nil
	}
	for attempt := 0; ; attempt++ {
		if len(crashes) >= maxDeaths {
			return giveUp(fmt.Sprintf("abandoned after %d worker deaths", len(crashes)))
		}
		if len(crashes) > 0 && time.Now().After(r.deadline) {
			return giveUp(fmt.Sprintf("internal deadline reached after %d worker deaths", len(crashes)))
		}
		os.Remove(prog)
		args := []string{"run", r.prop, r.tier, shard, "-progress", prog, "-deadline", strconv.FormatInt(r.deadline.Unix(), 10), "-seed", strconv.FormatInt(r.seed, 10)}
		if len(poison) > 0 {
			args = append(args, "-poison", strings.Join(poison, ","))
		}
		if resume > 0 && !r.noResume {
			args = append(args, "-resume", strconv.FormatInt(resume, 10))
		}
		ctx, cancel := context.WithDeadline(context.Background(), r.deadline.Add(90*time.Second))
		cmd := exec.CommandContext(ctx, r.worker, args...)
		cmd.Dir = emptyDir(r.worker)
		cmd.Env = append(append(goEnv(), "GOMAXPROCS=1", raceEnv(r.worker)), r.extraEnv...)
		var out, errb bytes.Buffer
		cmd.Stdout, cmd.Stderr = &out, &errb
		err := cmd.Run()
		timedOut := ctx.Err() == context.DeadlineExceeded
		cancel()
		lines := bytes.Split(bytes.TrimSpace(out.Bytes()), []byte("\n"))
		for _, l := range lines {
			if bytes.HasPrefix(l, []byte(`{"failure":`)) {
				var w struct {
					Failure core.Failure `json:"failure"`
				}
				if json.Unmarshal(l, &w) == nil {
					streamed = append(streamed, w.Failure)
				}
			}
		}
		if err == nil {
			var res core.Result
			if e := json.Unmarshal(lines[len(lines)-1], &res); e != nil {
				return nil, crashes, fmt.Errorf("shard %s: bad result record: %v: %.300s", shard, e, out.String())
			}
			if resume > 0 && !r.noResume {
				res.Notes = append(res.Notes, fmt.Sprintf("counts exclude the %d cases executed by attempts that died", resume))
			}
			mergeStreamed(&res, streamed)
			return &res, crashes, nil
		}
		if timedOut {
			if len(crashes) > 0 {
				return giveUp("the hard deadline passed while working around worker deaths")
			}
			return nil, crashes, fmt.Errorf("shard %s: worker overran the hard deadline", shard)
		}
		hang := strings.Contains(out.String(), `"hang":true`)
		if ee, ok := err.(*exec.ExitError); ok && ee.ExitCode() == 2 && strings.Contains(errb.String(), "worker:") {
			return nil, crashes, fmt.Errorf("shard %s: %s", shard, strings.TrimSpace(errb.String()))
		}
		caseNo := readProgress(prog)
		kind := classifyDeath(errb.String(), hang)
		if caseNo < 0 {
			return nil, crashes, fmt.Errorf("shard %s: worker died before its first case (%s): %.2000s", shard, kind, errb.String())
		}
		txt := errb.String()
		if len(txt) > 1500 {
			txt = txt[:1500]
		}
		crashes = append(crashes, crash{shard, caseNo, kind, txt})
		poison = append(poison, fmt.Sprintf("%d:%s", caseNo, kind))
		resume = caseNo
	}
}

// mergeStreamed adds failures streamed by attempts that died to the result of the final attempt.
func mergeStreamed(res *core.Result, streamed []core.Failure) {
	have := map[string]bool{}
	for _, f := range res.Failures {
		have[fmt.Sprintf("%d|%s", f.Case, f.Key())] = true
	}
	for _, f := range streamed {
		k := fmt.Sprintf("%d|%s", f.Case, f.Key())
		if have[k] {
			continue
		}
		have[k] = true
		res.Failures = append(res.Failures, f)
		if res.FailCounts == nil {
			res.FailCounts = map[string]int64{}
		}
		res.FailCounts[f.Key()]++
	}
}

type evidence struct {
	PropertyID  string         `json:"property_id"`
	Tier        string         `json:"tier"`
	Seed        int64          `json:"seed"`
	Level       string         `json:"level"`
	Coverage    map[string]any `json:"coverage"`
	Assumptions []string       `json:"assumptions"`
	WallS       float64        `json:"wall_s"`
	Violations  int            `json:"violations"`
}

func main() {
	if len(os.Args) < 3 {
		fmt.Fprintln(os.Stderr, "usage: verifcheck <prop> <quick|thorough> | verifcheck replay <file>")
		os.Exit(2)
	}
	if os.Args[1] == "replay" {
		os.Exit(replayCmd(os.Args[2]))
	}
	prop, tier := os.Args[1], os.Args[2]
	if t := os.Getenv("VERIF_TIER"); t == "quick" || t == "thorough" {
		tier = t
	}
	if tier != "quick" && tier != "thorough" {
		internal("tier must be quick or thorough")
	}
	seed, _ := strconv.ParseInt(os.Getenv("VERIF_SEED"), 10, 64)
	t0 := time.Now()
	scratch := filepath.Join(workRoot, prop)
	os.RemoveAll(scratch)
	if err := os.MkdirAll(scratch, 0o755); err != nil {
		internal("%v", err)
	}
	code := check(prop, tier, seed, scratch, t0)
	if os.Getenv("VERIF_KEEP") == "" {
		os.RemoveAll(scratch)
	}
	os.Exit(code)
}

func check(prop, tier string, seed int64, scratch string, t0 time.Time) int {
	variant := variants[prop]
	if variant == "" {
		variant = "plain"
	}
	worker, extraEnv, suiteNote, err := buildWorker(variant, scratch)
	if err != nil {
		internal("building the %s worker failed:\n%v", variant, err)
	}
	budget := 240 * time.Second // (the quick checks take 5 - 80 s on an idle machine; the budget only matters under load)
	if tier == "thorough" {
		budget = 15 * time.Minute
	}
	if s := os.Getenv("VERIF_BUDGET_S"); s != "" {
		if n, err := strconv.Atoi(s); err == nil {
			budget = time.Duration(n) * time.Second
		}
	}
	deadline := time.Now().Add(budget)

	// meta + shard list
	var meta struct {
		Variant     string   `json:"variant"`
		Rule        string   `json:"rule"`
		Assumptions []string `json:"assumptions"`
		NoResume    bool     `json:"no_resume"`
	}
	if out, err := runWorker(worker, extraEnv, "meta", prop); err != nil {
		internal("worker meta: %v", err)
	} else if err := json.Unmarshal(out, &meta); err != nil {
		internal("worker meta: %v", err)
	}
	if meta.Variant != variant {
		internal("driver builds variant %q for %s but the harness wants %q", variant, prop, meta.Variant)
	}
	var shards []string
	if out, err := runWorker(worker, extraEnv, "list", prop, tier); err != nil {
		internal("worker list: %v", err)
	} else if err := json.Unmarshal(out, &shards); err != nil {
		internal("worker list: %v", err)
	}
	if len(shards) == 0 {
		internal("no shards")
	}
	// VERIF_SEED only rotates the hand-out order.
	if seed != 0 {
		k := int(uint64(seed) % uint64(len(shards)))
		shards = append(append([]string{}, shards[k:]...), shards[:k]...)
	}

	r := &runner{prop: prop, tier: tier, worker: worker, scratch: scratch, deadline: deadline, seed: seed, extraEnv: extraEnv, noResume: meta.NoResume}
	par := 16
	if s := os.Getenv("VERIF_PAR"); s != "" {
		if n, err := strconv.Atoi(s); err == nil && n > 0 {
			par = n
		}
	}
	type done struct {
		res     *core.Result
		crashes []crash
		err     error
		shard   string
	}
	results := make([]done, len(shards))
	var wg sync.WaitGroup
	next := 0
	var mu sync.Mutex
	for w := 0; w < par; w++ {
		wg.Add(1)
		go func() {
			defer wg.Done()
			for {
				mu.Lock()
				i := next
				next++
				mu.Unlock()
				if i >= len(shards) {
					return
				}
				if time.Now().After(deadline) {
					results[i] = done{shard: shards[i]}
					continue
				}
				res, cr, err := r.runShard(i, shards[i])
				results[i] = done{res, cr, err, shards[i]}
			}
		}()
	}
	wg.Wait()

	// aggregate
	agg := core.Result{Outcomes: map[string]int64{}, FailCounts: map[string]int64{}, Exhaustive: true}
	var allFailures []core.Failure
	var allCrashes []crash
	var subspaces []map[string]any
	skipped := 0
	var notes []string
	for _, d := range results {
		if d.err != nil {
			internal("%v", d.err)
		}
		allCrashes = append(allCrashes, d.crashes...)
		if d.res == nil {
			skipped++
			agg.Exhaustive = false
			continue
		}
		res := d.res
		agg.Executions += res.Executions
		agg.Edges += res.Edges
		agg.States += res.States
		agg.Validated += res.Validated
		agg.Nontrivial += res.Nontrivial
		agg.Excluded += res.Excluded
		for k, v := range res.Outcomes {
			agg.Outcomes[k] += v
		}
		for k, v := range res.FailCounts {
			agg.FailCounts[k] += v
		}
		if !res.Exhaustive {
			agg.Exhaustive = false
		}
		if res.Bound != "" {
			agg.Bound = res.Bound
		}
		for _, s := range res.Samples {
			if len(agg.Samples) < 8 {
				agg.Samples = append(agg.Samples, s)
			}
		}
		for _, n := range res.Notes {
			if len(notes) < 30 {
				notes = append(notes, res.Shard+": "+n)
			}
		}
		allFailures = append(allFailures, res.Failures...)
		subspaces = append(subspaces, map[string]any{"shard": res.Shard, "executions": res.Executions, "states": res.States, "exhaustive": res.Exhaustive, "wall_s": round(res.WallS)})
	}
	if skipped > 0 {
		notes = append(notes, fmt.Sprintf("%d of %d shards not started before the internal deadline", skipped, len(shards)))
	}

	// classify
	kf := loadKnown()
	groups := map[string][]core.Failure{}
	var keys []string
	for _, f := range allFailures {
		k := f.Key()
		if _, ok := groups[k]; !ok {
			keys = append(keys, k)
		}
		groups[k] = append(groups[k], f)
	}
	sort.Strings(keys)
	violations := 0
	knownSeen := map[int]int64{}
	knownEg := map[int]string{}
	exit := 0
	os.MkdirAll(filepath.Join(verifDir, "replays", prop), 0o755)
	var violationLines []string
	for _, k := range keys {
		fs := groups[k]
		// the simplest witness of the group is the one confirmed and written out
		sort.SliceStable(fs, func(i, j int) bool { return len(fs[i].Input) < len(fs[j].Input) })
		f := fs[0]
		ki := -1
		for i, kn := range kf.Findings {
			if kn.Property != prop || kn.Failure != f.Fingerprint {
				continue
			}
			for _, c := range f.Classes {
				if c == kn.Class {
					ki = i
				}
			}
			if ki >= 0 {
				break
			}
		}
		if ki >= 0 {
			knownSeen[ki] += agg.FailCounts[k]
			if knownEg[ki] == "" {
				knownEg[ki] = string(f.Input)
			}
			continue
		}
		// a new failure: confirm by replay in fresh processes
		path := writeReplay(prop, &f)
		okN, badN, detail := 0, 0, ""
		if strings.HasPrefix(f.Fingerprint, "fatal:") && bytes.Contains(f.Input, []byte("input not recovered")) {
			okN = 5 // the worker deaths themselves were observed (repeatedly); there is no input to replay
		} else {
			okN, badN, detail = confirm(worker, extraEnv, prop, tier, path, f.Fingerprint, 5)
			if okN == 0 && (strings.HasPrefix(f.Fingerprint, "cold:") || strings.HasPrefix(f.Fingerprint, "stress:")) {
				// free-running rounds depend on real timing: give them more fresh processes
				okN, badN, detail = confirm(worker, extraEnv, prop, tier, path, f.Fingerprint, 20)
			}
		}
		if okN == 0 && !strings.HasPrefix(f.Fingerprint, "fatal:") {
			// The case alone does not fail. It may need what the cases before it left behind in the
			// process (state that survives a call): run its shard again, in fresh processes, up to
			// the case. Two reproductions out of two confirm it, and the replay file says so.
			h := 0
			for i := 0; i < 2; i++ {
				if confirmWithHistory(worker, extraEnv, prop, tier, &f) {
					h++
				}
			}
			if h == 2 {
				f.NeedsHistory = true
				path = writeReplay(prop, &f)
				okN = 5
				detail = "fails only after the cases that precede it in shard " + f.Shard
				fmt.Fprintf(os.Stderr, "note: %s: %s\n", f.Fingerprint, detail)
			}
		}
		// A failure is confirmed when it shows again in a fresh process - with whatever fingerprint:
		// the oracles are deterministic functions of what the library returns, but the library's own
		// behaviour may depend on Go's map iteration order (uncontrolled outside the order variant),
		// on the race detector's bounded memory, or end in a crash one time and a wrong tree the
		// next. One reproduction out of five confirms; none at all is treated as an error of the
		// machinery, because then nothing distinguishes the report from harness nondeterminism.
		need := 1
		switch {
		case okN >= need:
			violations += int(agg.FailCounts[k])
			violationLines = append(violationLines, fmt.Sprintf("VIOLATION property=%s replay=%s", prop, path))
			fmt.Fprintf(os.Stderr, "violation (reproduced %d/5): classes=%v fingerprint=%s count=%d\n  input=%.600s\n  expected=%.600s\n  observed=%.600s\n", okN, f.Classes, f.Fingerprint, agg.FailCounts[k], f.Input, f.Expected, f.Observed)
			if len(fs) > 1 {
				var where []string
				for i, g := range fs {
					if i < 40 {
						where = append(where, g.Shard)
					}
				}
				fmt.Fprintf(os.Stderr, "  also in shards: %s\n", strings.Join(where, " "))
			}
			exit = 1
		default:
			fmt.Fprintf(os.Stderr, "verifcheck: INTERNAL ERROR: failure %s did not reproduce deterministically on replay (%d/5 reproduced, %d differed): %s\n  replay=%s\n", k, okN, badN, detail, path)
			if exit == 0 {
				exit = 2
			}
		}
	}
	for i, kn := range kf.Findings {
		if kn.Property != prop {
			continue
		}
		if n := knownSeen[i]; n > 0 {
			fmt.Printf("KNOWN-FINDING: property=%s class=%s failure=%s count=%d witness=%s\n", prop, kn.Class, kn.Failure, n, oneLine(knownEg[i], 300))
		} else if agg.Exhaustive {
			fmt.Fprintf(os.Stderr, "note: known finding %s/%s (%s) did not occur in this run\n", prop, kn.Class, kn.Failure)
		}
	}
	for _, l := range violationLines {
		fmt.Println(l)
	}

	// evidence
	states := agg.States
	if states == 0 {
		states = agg.Executions
	}
	samples := make([]any, 0, len(agg.Samples))
	for _, s := range agg.Samples {
		var v any
		if json.Unmarshal([]byte(s), &v) == nil {
			samples = append(samples, v)
		} else {
			samples = append(samples, s)
		}
	}
	var crashList []map[string]any
	for _, c := range allCrashes {
		if len(crashList) < 20 {
			crashList = append(crashList, map[string]any{"shard": c.Shard, "case": c.Case, "kind": c.Kind})
		}
	}
	knownList := []map[string]any{}
	for i, kn := range kf.Findings {
		if kn.Property == prop {
			knownList = append(knownList, map[string]any{"class": kn.Class, "failure": kn.Failure, "occurrences": knownSeen[i]})
		}
	}
	cov := map[string]any{
		"states":                        states,
		"transitions":                   agg.Edges,
		"traces_validated_against_impl": agg.Validated,
		"evaluations":                   agg.Executions,
		"distinct_nontrivial":           agg.Nontrivial,
		"excluded_outside_quantifier":   agg.Excluded,
		"rule":                          meta.Rule,
		"samples":                       samples,
		"exhaustive":                    agg.Exhaustive,
		"bound_completed":               agg.Bound,
		"distinct_outcomes":             len(agg.Outcomes),
		"outcome_histogram":             agg.Outcomes,
		"shards":                        len(shards),
		"shards_skipped_by_deadline":    skipped,
		"worker_deaths":                 len(allCrashes),
		"worker_death_samples":          crashList,
		"known_findings":                knownList,
		"build_variant":                 variant,
		"notes":                         notes,
		"subspaces":                     subspaces,
	}
	if suiteNote != "" {
		cov["instrumentation_conformance"] = suiteNote
	}
	ev := evidence{PropertyID: prop, Tier: tier, Seed: seed, Level: "model_checking", Coverage: cov, Assumptions: meta.Assumptions, WallS: round(time.Since(t0).Seconds()), Violations: violations}
	b, _ := json.MarshalIndent(ev, "", " ")
	os.MkdirAll(filepath.Join(verifDir, "evidence"), 0o755)
	if err := os.WriteFile(filepath.Join(verifDir, "evidence", prop+".json"), append(b, '\n'), 0o644); err != nil {
		internal("%v", err)
	}
	fmt.Fprintf(os.Stderr, "%s %s: executions=%d states=%d transitions=%d validated=%d nontrivial=%d outcomes=%d exhaustive=%v deaths=%d violations=%d wall=%.1fs\n",
		prop, tier, agg.Executions, states, agg.Edges, agg.Validated, agg.Nontrivial, len(agg.Outcomes), agg.Exhaustive, len(allCrashes), violations, time.Since(t0).Seconds())
	return exit
}

// emptyDir returns an empty directory next to the worker binary: the library searches the current
// directory for modules it cannot find, so workers must run where there is nothing to find.
func emptyDir(worker string) string {
	d := filepath.Join(filepath.Dir(worker), "cwd")
	os.MkdirAll(d, 0o755)
	return d
}

// raceEnv makes a race-enabled worker log race reports to files next to the binary and carry on, so
// that the harness can attribute each report to the schedule that produced it.
func raceEnv(worker string) string {
	d := filepath.Join(filepath.Dir(worker), "race")
	os.MkdirAll(d, 0o755)
	return "GORACE=halt_on_error=0 exitcode=0 log_path=" + filepath.Join(d, "r")
}

func round(f float64) float64 { return float64(int64(f*100)) / 100 }

func oneLine(s string, n int) string {
	s = strings.ReplaceAll(s, "\n", "\\n")
	if len(s) > n {
		s = s[:n] + "…"
	}
	return s
}

func runWorker(worker string, extraEnv []string, args ...string) ([]byte, error) {
	ctx, cancel := context.WithTimeout(context.Background(), 120*time.Second)
	defer cancel()
	cmd := exec.CommandContext(ctx, worker, args...)
	cmd.Dir = emptyDir(worker)
	cmd.Env = append(append(goEnv(), "GOMAXPROCS=1"), extraEnv...)
	var out, errb bytes.Buffer
	cmd.Stdout, cmd.Stderr = &out, &errb
	if err := cmd.Run(); err != nil {
		return out.Bytes(), fmt.Errorf("%v: %.3000s", err, errb.String())
	}
	return out.Bytes(), nil
}

func writeReplay(prop string, f *core.Failure) string {
	b, _ := json.MarshalIndent(f, "", " ")
	h := sha1.Sum([]byte(f.Key() + string(f.Input)))
	path := filepath.Join(verifDir, "replays", prop, fmt.Sprintf("%x.json", h[:6]))
	os.WriteFile(path, append(b, '\n'), 0o644)
	return path
}

// confirm replays a failure n times in fresh processes; it returns how many runs failed with the
// same fingerprint and how many behaved differently.
func confirm(worker string, extraEnv []string, prop, tier, path, fingerprint string, n int) (same, other int, detail string) {
	for i := 0; i < n; i++ {
		ctx, cancel := context.WithTimeout(context.Background(), 90*time.Second)
		cmd := exec.CommandContext(ctx, worker, "replay", prop, tier, path)
		cmd.Dir = emptyDir(worker)
		cmd.Env = append(append(goEnv(), "GOMAXPROCS=1", raceEnv(worker)), extraEnv...)
		var out, errb bytes.Buffer
		cmd.Stdout, cmd.Stderr = &out, &errb
		err := cmd.Run()
		timedOut := ctx.Err() != nil
		cancel()
		if err != nil {
			same++ // the replay died: the case fails
			detail = "replay died: " + classifyDeath(errb.String(), timedOut)
			continue
		}
		var r struct {
			Fails       bool   `json:"fails"`
			Fingerprint string `json:"fingerprint"`
			Detail      string `json:"detail"`
		}
		lines := bytes.Split(bytes.TrimSpace(out.Bytes()), []byte("\n"))
		json.Unmarshal(lines[len(lines)-1], &r)
		if r.Fails {
			same++
		} else {
			other++
			detail = fmt.Sprintf("replay gave fails=%v fingerprint=%q %s", r.Fails, r.Fingerprint, r.Detail)
		}
	}
	return
}

// confirmWithHistory runs the shard of a failure again in a fresh process, up to and including the
// failing case, and says whether that case fails again.
func confirmWithHistory(worker string, extraEnv []string, prop, tier string, f *core.Failure) bool {
	ctx, cancel := context.WithTimeout(context.Background(), 600*time.Second)
	defer cancel()
	cmd := exec.CommandContext(ctx, worker, "run", prop, tier, f.Shard, "-stopafter", fmt.Sprint(f.Case))
	cmd.Dir = emptyDir(worker)
	cmd.Env = append(append(goEnv(), "GOMAXPROCS=1", raceEnv(worker)), extraEnv...)
	var out bytes.Buffer
	cmd.Stdout = &out
	cmd.Run()
	for _, line := range bytes.Split(out.Bytes(), []byte("\n")) {
		var rec struct {
			Failure  *core.Failure  `json:"failure"`
			Failures []core.Failure `json:"failures"`
		}
		if json.Unmarshal(line, &rec) != nil {
			continue
		}
		if rec.Failure != nil && rec.Failure.Case == f.Case {
			return true
		}
		for _, g := range rec.Failures {
			if g.Case == f.Case {
				return true
			}
		}
	}
	return false
}

func replayCmd(path string) int {
	b, err := os.ReadFile(path)
	if err != nil {
		internal("%v", err)
	}
	if abs, e := filepath.Abs(path); e == nil {
		path = abs // the worker runs in a directory of its own
	}
	var f core.Failure
	if err := json.Unmarshal(b, &f); err != nil {
		internal("%v", err)
	}
	scratch := filepath.Join(workRoot, "replay-"+f.Property)
	os.RemoveAll(scratch)
	os.MkdirAll(scratch, 0o755)
	defer os.RemoveAll(scratch)
	variant := variants[f.Property]
	if variant == "" {
		variant = "plain"
	}
	worker, extraEnv, _, err := buildWorker(variant, scratch)
	if err != nil {
		internal("build: %v", err)
	}
	tier := f.Tier
	if tier == "" {
		tier = "quick"
	}
	same, other, detail := 0, 0, ""
	if f.NeedsHistory {
		if confirmWithHistory(worker, extraEnv, f.Property, tier, &f) {
			same = 1
		} else {
			detail = "shard " + f.Shard + " run up to case " + fmt.Sprint(f.Case) + ": the case does not fail"
		}
	} else {
		same, other, detail = confirm(worker, extraEnv, f.Property, tier, path, f.Fingerprint, 1)
	}
	fmt.Printf("classes=%v fingerprint=%s\ninput=%s\nexpected=%s\nobserved=%s\n", f.Classes, f.Fingerprint, f.Input, f.Expected, f.Observed)
	os.RemoveAll(scratch)
	if same == 1 {
		fmt.Printf("VIOLATION property=%s replay=%s\n", f.Property, path)
		return 1
	}
	_ = other
	fmt.Printf("not reproduced: %s\n", detail)
	return 0
}
