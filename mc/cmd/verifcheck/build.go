package main

import (
	"bytes"
	"fmt"
	"os"
	"os/exec"
	"path/filepath"
)

// buildWorker builds the worker binary for a variant from /repo's current working tree.
func buildWorker(variant, scratch string) (worker string, extraEnv []string, suiteNote string, err error) {
	worker = filepath.Join(scratch, "worker")
	os.Remove(worker)
	switch variant {
	case "plain":
		cmd := exec.Command("go", "build", "-o", worker, "./cmd/worker")
		cmd.Dir = filepath.Join(verifDir, "mc")
		cmd.Env = goEnv()
		var out bytes.Buffer
		cmd.Stdout, cmd.Stderr = &out, &out
		if e := cmd.Run(); e != nil {
			return "", nil, "", fmt.Errorf("%v\n%s", e, out.String())
		}
		// the goyang command as it is in /repo, for the checks that drive it
		cli := filepath.Join(scratch, "goyang-cli")
		cc := exec.Command("go", "build", "-o", cli, ".")
		cc.Dir = repoDir
		cc.Env = goEnv()
		out.Reset()
		cc.Stdout, cc.Stderr = &out, &out
		if e := cc.Run(); e != nil {
			return "", nil, "", fmt.Errorf("building the goyang command: %v\n%s", e, out.String())
		}
		return worker, []string{"VERIF_CLI=" + cli, "VERIF_SCRATCH_DIR=" + scratch}, "", nil
	}
	return buildInstrumented(variant, scratch)
}
