package main

import (
	"bytes"
	"fmt"
	"os"
	"os/exec"
	"path/filepath"
)

// buildWorker builds the worker binary for a variant from /repo's current working tree.
func buildWorker(variant, scratch string) (worker string, extraEnv []string, suiteNote string, err error) {
	worker = filepath.Join(scratch, "worker")
	os.Remove(worker)
	switch variant {
	case "plain":
		cmd := exec.Command("go", "build", "-o", worker, "./cmd/worker")
		cmd.Dir = filepath.Join(verifDir, "mc")
		cmd.Env = goEnv()
		var out bytes.Buffer
		cmd.Stdout, cmd.Stderr = &out, &out
		if e := cmd.Run(); e != nil {
			return "", nil, "", fmt.Errorf("%v\n%s", e, out.String())
		}
		return worker, nil, "", nil
	}
	return buildInstrumented(variant, scratch)
}
