// worker is linked against /repo's current working tree (or an instrumented scratch copy of it) and
// explores one shard of one property per invocation.
//
//	worker list   <prop> <tier>
//	worker meta   <prop>
//	worker run    <prop> <tier> <shard> [-progress file] [-deadline unix] [-poison a,b] [-seed n] [-stopafter case]
//	worker replay <prop> <tier> <failure.json>
package main

import (
	"encoding/json"
	"fmt"
	"os"
	"strconv"
	"strings"
	"time"

	"verif/mc/core"
	_ "verif/mc/props"
)

func die(f string, a ...any) {
	fmt.Fprintf(os.Stderr, "worker: "+f+"\n", a...)
	os.Exit(2)
}

func main() {
	if len(os.Args) < 3 {
		die("usage")
	}
	cmd, id := os.Args[1], os.Args[2]
	p := core.Lookup(id)
	if p == nil {
		die("unknown property %s (have %v)", id, core.All())
	}
	core.InitProcess(raceBuild)
	enc := json.NewEncoder(os.Stdout)
	switch cmd {
	case "list":
		enc.Encode(p.Shards(os.Args[3]))
	case "meta":
		enc.Encode(map[string]any{"id": p.ID, "variant": p.Variant, "rule": p.Rule, "assumptions": p.Assumptions, "no_resume": p.NoResume})
	case "run":
		tier, shard := os.Args[3], os.Args[4]
		var progress string
		var deadline time.Time
		poison := map[int64]string{}
		var seed, resume int64
		stopAfter := int64(-1)
		a := os.Args[5:]
		for i := 0; i+1 < len(a); i += 2 {
			switch a[i] {
			case "-progress":
				progress = a[i+1]
			case "-deadline":
				n, _ := strconv.ParseInt(a[i+1], 10, 64)
				if n > 0 {
					deadline = time.Unix(n, 0)
				}
			case "-resume":
				resume, _ = strconv.ParseInt(a[i+1], 10, 64)
			case "-stopafter":
				stopAfter, _ = strconv.ParseInt(a[i+1], 10, 64)
			case "-seed":
				seed, _ = strconv.ParseInt(a[i+1], 10, 64)
			case "-poison":
				for _, s := range strings.Split(a[i+1], ",") {
					if k, kind, ok := strings.Cut(s, ":"); ok {
						n, _ := strconv.ParseInt(k, 10, 64)
						poison[n] = kind
					}
				}
			}
		}
		c := core.NewCtx(id, tier, shard, deadline, progress, poison)
		c.Seed = seed
		c.Resume = resume
		c.StopAfter = stopAfter
		c.StartWatchdog(40 * time.Second)
		p.Run(c)
		enc.Encode(c.Finish())
	case "replay":
		tier := os.Args[3]
		b, err := os.ReadFile(os.Args[4])
		if err != nil {
			die("%v", err)
		}
		var f core.Failure
		if err := json.Unmarshal(b, &f); err != nil {
			die("%v", err)
		}
		fails, fp, detail := p.Replay(tier, f.Input)
		enc.Encode(map[string]any{"fails": fails, "fingerprint": fp, "detail": detail})
	default:
		die("unknown command %s", cmd)
	}
}
