// Package dump renders everything that is observable through goyang's exported API about a processed
// module set in a canonical, sorted text form. It is the comparison basis of all differential
// oracles (load orders, map orders, split vs. unsplit, once vs. twice, concurrent vs. sequential).
package dump

import (
	"fmt"
	"sort"
	"strings"

	"github.com/openconfig/goyang/pkg/yang"
)

// Options select what is included.
type Options struct {
	Positions bool // include source positions of nodes (off for metamorphic comparisons across different texts)
	NoNS      bool // omit namespace / instantiating-module attribution
	NoExtra   bool // omit Entry.Extra ("extra-unstable": a node merged from a submodule carries the submodule's belongs-to there)
}

func enumText(e *yang.EnumType) string {
	if e == nil {
		return ""
	}
	nm := e.NameMap()
	var names []string
	for n := range nm {
		names = append(names, n)
	}
	sort.Strings(names)
	var sb strings.Builder
	for _, n := range names {
		fmt.Fprintf(&sb, "%s=%d,", n, nm[n])
	}
	vm := e.ValueMap()
	var vals []int64
	for v := range vm {
		vals = append(vals, v)
	}
	sort.Slice(vals, func(i, j int) bool { return vals[i] < vals[j] })
	sb.WriteString("/")
	for _, v := range vals {
		fmt.Fprintf(&sb, "%d=%s,", v, vm[v])
	}
	return sb.String()
}

func identName(i *yang.Identity) string {
	if i == nil {
		return "<nil>"
	}
	m := "?"
	if r := yang.RootNode(i); r != nil {
		m = r.Name
	}
	return m + ":" + i.Name
}

// Type renders a resolved type.
func Type(t *yang.YangType, depth int) string {
	if t == nil {
		return "<nil>"
	}
	if depth > 8 {
		return "<deep>"
	}
	var sb strings.Builder
	fmt.Fprintf(&sb, "{%s kind=%s", t.Name, yang.TypeKindToName[t.Kind])
	if t.Units != "" {
		fmt.Fprintf(&sb, " units=%q", t.Units)
	}
	if t.HasDefault || t.Default != "" {
		fmt.Fprintf(&sb, " default=%q/%v", t.Default, t.HasDefault)
	}
	if t.FractionDigits != 0 {
		fmt.Fprintf(&sb, " fd=%d", t.FractionDigits)
	}
	if len(t.Range) > 0 {
		fmt.Fprintf(&sb, " range=%s", t.Range)
	}
	if len(t.Length) > 0 {
		fmt.Fprintf(&sb, " length=%s", t.Length)
	}
	if len(t.Pattern) > 0 {
		fmt.Fprintf(&sb, " pattern=%q", t.Pattern)
	}
	if len(t.POSIXPattern) > 0 {
		fmt.Fprintf(&sb, " posix=%q", t.POSIXPattern)
	}
	if t.Enum != nil {
		fmt.Fprintf(&sb, " enum=%s", enumText(t.Enum))
	}
	if t.Bit != nil {
		fmt.Fprintf(&sb, " bit=%s", enumText(t.Bit))
	}
	if t.Path != "" {
		fmt.Fprintf(&sb, " path=%q", t.Path)
	}
	if t.OptionalInstance {
		sb.WriteString(" optional-instance")
	}
	if t.IdentityBase != nil {
		fmt.Fprintf(&sb, " base=%s values=[", identName(t.IdentityBase))
		for _, v := range t.IdentityBase.Values {
			sb.WriteString(identName(v) + " ")
		}
		sb.WriteString("]")
	}
	if len(t.Type) > 0 {
		sb.WriteString(" union=[")
		for _, u := range t.Type {
			sb.WriteString(Type(u, depth+1))
		}
		sb.WriteString("]")
	}
	sb.WriteString("}")
	return sb.String()
}

func safe(f func() string) (s string) {
	defer func() {
		if r := recover(); r != nil {
			s = fmt.Sprintf("<panic: %v>", r)
		}
	}()
	return f()
}

// Entry renders one entry and its subtree.
func Entry(sb *strings.Builder, e *yang.Entry, ind string, o Options, seen map[*yang.Entry]bool) {
	if e == nil {
		fmt.Fprintf(sb, "%s<nil>\n", ind)
		return
	}
	if seen[e] {
		fmt.Fprintf(sb, "%s%s <shared-or-cyclic>\n", ind, e.Name)
		return
	}
	seen[e] = true
	fmt.Fprintf(sb, "%s%s kind=%v config=%v", ind, e.Name, e.Kind, e.Config)
	if e.Mandatory != yang.TSUnset {
		fmt.Fprintf(sb, " mandatory=%v", e.Mandatory)
	}
	if len(e.Default) > 0 {
		fmt.Fprintf(sb, " default=%q", e.Default)
	}
	if e.Units != "" {
		fmt.Fprintf(sb, " units=%q", e.Units)
	}
	if e.Key != "" {
		fmt.Fprintf(sb, " key=%q", e.Key)
	}
	if e.ListAttr != nil {
		fmt.Fprintf(sb, " list[min=%d max=%d user=%v]", e.ListAttr.MinElements, e.ListAttr.MaxElements, e.ListAttr.OrderedByUser)
	}
	if e.Description != "" {
		fmt.Fprintf(sb, " desc=%q", e.Description)
	}
	if e.Prefix != nil {
		fmt.Fprintf(sb, " prefix=%s", e.Prefix.Name)
	}
	fmt.Fprintf(sb, " ro=%s", safe(func() string { return fmt.Sprint(e.ReadOnly()) }))
	if !o.NoNS {
		fmt.Fprintf(sb, " ns=%s", safe(func() string { return e.Namespace().Name }))
		fmt.Fprintf(sb, " im=%s", safe(func() string {
			m, err := e.InstantiatingModule()
			if err != nil {
				return "<err>"
			}
			return m
		}))
	}
	if e.Type != nil {
		fmt.Fprintf(sb, " type=%s", Type(e.Type, 0))
		if dv := safe(func() string { return fmt.Sprintf("%q", e.DefaultValues()) }); dv != "[]" {
			fmt.Fprintf(sb, " defaults=%s", dv)
		}
	}
	if e.Parent != nil {
		fmt.Fprintf(sb, " parent=%s", e.Parent.Name)
	}
	if len(e.Errors) > 0 {
		var es []string
		for _, err := range e.Errors {
			es = append(es, err.Error())
		}
		sort.Strings(es)
		fmt.Fprintf(sb, " ERRORS=%q", es)
	}
	if len(e.Augments) > 0 {
		fmt.Fprintf(sb, " unapplied-augments=%d", len(e.Augments))
	}
	if n := len(e.Exts); n > 0 {
		var xs []string
		for _, x := range e.Exts {
			xs = append(xs, x.Keyword+"="+x.Argument)
		}
		fmt.Fprintf(sb, " exts=%q", xs)
	}
	if len(e.Extra) > 0 && !o.NoExtra {
		var ks []string
		for k, v := range e.Extra {
			if len(v) > 0 {
				ks = append(ks, fmt.Sprintf("%s*%d", k, len(v)))
			}
		}
		sort.Strings(ks)
		if len(ks) > 0 {
			fmt.Fprintf(sb, " extra=%v", ks)
		}
	}
	if o.Positions && e.Node != nil {
		fmt.Fprintf(sb, " at=%s", safe(func() string { return yang.Source(e.Node) }))
	}
	sb.WriteString("\n")
	var ks []string
	for k := range e.Dir {
		ks = append(ks, k)
	}
	sort.Strings(ks)
	for _, k := range ks {
		c := e.Dir[k]
		if c != nil && c.Name != k {
			fmt.Fprintf(sb, "%s  <filed under %q>\n", ind, k)
		}
		Entry(sb, c, ind+"  ", o, seen)
	}
	if e.RPC != nil {
		if e.RPC.Input != nil {
			fmt.Fprintf(sb, "%s  <input>\n", ind)
			Entry(sb, e.RPC.Input, ind+"  ", o, seen)
		}
		if e.RPC.Output != nil {
			fmt.Fprintf(sb, "%s  <output>\n", ind)
			Entry(sb, e.RPC.Output, ind+"  ", o, seen)
		}
	}
}

// Modules renders the whole processed set: every distinct module and submodule in name order.
func Modules(ms *yang.Modules, o Options) string {
	var sb strings.Builder
	for _, kind := range []string{"module", "submodule"} {
		mm := ms.Modules
		if kind == "submodule" {
			mm = ms.SubModules
		}
		var keys []string
		for k := range mm {
			keys = append(keys, k)
		}
		sort.Strings(keys)
		fmt.Fprintf(&sb, "%s keys:", kind)
		for _, k := range keys {
			fmt.Fprintf(&sb, " %s->%s", k, mm[k].FullName())
		}
		sb.WriteString("\n")
		if kind == "module" {
			// the lookup by namespace: the one module of that namespace, or the word that several
			// have it (which two the library's message names is its own business)
			nss := map[string]bool{}
			for _, m := range mm {
				if m.Namespace != nil {
					nss[m.Namespace.Name] = true
				}
			}
			var ns []string
			for n := range nss {
				ns = append(ns, n)
			}
			sort.Strings(ns)
			for _, n := range ns {
				m, err := ms.FindModuleByNamespace(n)
				switch {
				case err != nil && strings.Contains(err.Error(), "two or more"):
					fmt.Fprintf(&sb, "namespace %s -> several modules\n", n)
				case err != nil:
					fmt.Fprintf(&sb, "namespace %s -> error: %v\n", n, err)
				case m == nil:
					fmt.Fprintf(&sb, "namespace %s -> nil without error\n", n)
				default:
					fmt.Fprintf(&sb, "namespace %s -> %s\n", n, m.FullName())
				}
			}
		}
		done := map[*yang.Module]bool{}
		for _, k := range keys {
			m := mm[k]
			if done[m] {
				continue
			}
			done[m] = true
			fmt.Fprintf(&sb, "== %s %s\n", kind, m.FullName())
			for _, im := range m.Import {
				t := "<unresolved>"
				if im.Module != nil {
					t = im.Module.FullName()
				}
				fmt.Fprintf(&sb, " import %s as %s -> %s\n", im.Name, im.Prefix.Name, t)
			}
			for _, in := range m.Include {
				t := "<unresolved>"
				if in.Module != nil {
					t = in.Module.FullName()
				}
				fmt.Fprintf(&sb, " include %s -> %s\n", in.Name, t)
			}
			e := yang.ToEntry(m)
			Entry(&sb, e, " ", o, map[*yang.Entry]bool{})
			for _, id := range e.Identities {
				fmt.Fprintf(&sb, " identity %s values=[", identName(id))
				for _, v := range id.Values {
					sb.WriteString(identName(v) + " ")
				}
				sb.WriteString("]\n")
				// the lookups by name say what the list says: a name is defined exactly when an
				// identity of that name is listed, and the one handed out is a listed one
				for _, name := range identityNames(ms) {
					var listed []*yang.Identity
					for _, v := range id.Values {
						if v.Name == name {
							listed = append(listed, v)
						}
					}
					got, def := id.GetValue(name), id.IsDefined(name)
					among := got == nil
					for _, v := range listed {
						among = among || v == got
					}
					if def != (len(listed) > 0) || (got != nil) != def || !among {
						fmt.Fprintf(&sb, "  LOOKUP-BY-NAME-DISAGREES-WITH-VALUES: %s: IsDefined(%s)=%v GetValue=%v, listed under that name: %d\n", identName(id), name, def, got != nil, len(listed))
					}
				}
			}
			if errs := e.GetErrors(); len(errs) > 0 {
				fmt.Fprintf(&sb, " GetErrors=%d\n", len(errs))
			}
		}
	}
	return sb.String()
}

// identityNames: the bare names of all identities of all loaded modules and submodules, sorted.
func identityNames(ms *yang.Modules) []string {
	seen := map[string]bool{}
	for _, mm := range []map[string]*yang.Module{ms.Modules, ms.SubModules} {
		for _, m := range mm {
			for _, id := range m.Identity {
				seen[id.Name] = true
			}
		}
	}
	var out []string
	for n := range seen {
		out = append(out, n)
	}
	sort.Strings(out)
	return out
}

// Errors renders an error list in order.
func Errors(errs []error) string {
	var sb strings.Builder
	for _, e := range errs {
		sb.WriteString(e.Error())
		sb.WriteString("\n")
	}
	return sb.String()
}

// File is one source text.
type File struct {
	Name string `json:"name"`
	Text string `json:"text"`
}

// Result of loading and processing a set.
type Result struct {
	LoadErrs []string // per file, "" if loaded
	ProcErrs []error
	Dump     string // empty when processing failed
	MS       *yang.Modules
}

// Run loads files in order into a fresh set, processes and dumps.
func Run(files []File, o Options, opts ...func(*yang.Modules)) Result {
	ms := yang.NewModules()
	for _, f := range opts {
		f(ms)
	}
	var r Result
	r.MS = ms
	for _, f := range files {
		if err := ms.Parse(f.Text, f.Name); err != nil {
			r.LoadErrs = append(r.LoadErrs, err.Error())
		} else {
			r.LoadErrs = append(r.LoadErrs, "")
		}
	}
	r.ProcErrs = ms.Process()
	if len(r.ProcErrs) == 0 {
		r.Dump = Modules(ms, o)
	}
	return r
}

// Summary is the comparable outcome: the error list, or else the dump.
func (r Result) Summary() string {
	var sb strings.Builder
	for i, e := range r.LoadErrs {
		if e != "" {
			fmt.Fprintf(&sb, "load[%d]: %s\n", i, e)
		}
	}
	if len(r.ProcErrs) > 0 {
		sb.WriteString("process errors:\n" + Errors(r.ProcErrs))
		return sb.String()
	}
	sb.WriteString(r.Dump)
	return sb.String()
}
