// Package core is the worker-side runtime shared by all property harnesses: counters that become
// evidence, failure records, crash-safe progress reporting, panic guards and the hang watchdog.
package core

import (
	"encoding/json"
	"fmt"
	"hash/fnv"
	"os"
	"runtime/debug"
	"sort"
	"strings"
	"sync/atomic"
	"syscall"
	"time"
	"unsafe"
)

// Failure is one case on which the oracle and the implementation disagree.
type Failure struct {
	Property    string          `json:"property"`
	Tier        string          `json:"tier"`
	Shard       string          `json:"shard"`
	Case        int64           `json:"case"`
	Classes     []string        `json:"classes"`     // input-side predicates that hold for the input
	Fingerprint string          `json:"fingerprint"` // coarse description of what went wrong
	Input       json.RawMessage `json:"input"`       // enough to re-run the case without the explorer
	Expected    string          `json:"expected,omitempty"`
	Observed    string          `json:"observed,omitempty"`
	// NeedsHistory: the case fails only after the cases that precede it in its shard have run in the
	// same process (state that survives a call); it is replayed by running the shard up to it
	NeedsHistory bool `json:"needs_history,omitempty"`
}

// Key groups failures for known-finding classification.
func (f *Failure) Key() string {
	c := append([]string{}, f.Classes...)
	sort.Strings(c)
	return strings.Join(c, ",") + "|" + f.Fingerprint
}

// Result is what one shard run reports to the driver (one JSON line on stdout).
type Result struct {
	Property   string           `json:"property"`
	Tier       string           `json:"tier"`
	Shard      string           `json:"shard"`
	Executions int64            `json:"executions"`  // cases run against the implementation
	Edges      int64            `json:"edges"`       // choice edges / operations applied (transitions)
	States     int64            `json:"states"`      // distinct inputs / histories / states explored
	Validated  int64            `json:"validated"`   // executions whose result was compared with a reference prediction
	Nontrivial int64            `json:"nontrivial"`  // distinct cases that are non-trivial by the property's rule
	Excluded   int64            `json:"excluded"`    // cases outside the property's quantifier, not compared
	Outcomes   map[string]int64 `json:"outcomes"`    // outcome histogram (vacuity guard)
	Exhaustive bool             `json:"exhaustive"`  // false when a deadline or cap cut this shard short
	Bound      string           `json:"bound"`       // bound completed
	Samples    []string         `json:"samples"`     // a few actual cases
	Failures   []Failure        `json:"failures"`    // first few per key
	FailCounts map[string]int64 `json:"fail_counts"` // all, per key
	Notes      []string         `json:"notes,omitempty"`
	WallS      float64          `json:"wall_s"`
}

// Ctx is handed to a harness for one shard.
type Ctx struct {
	Property string
	Tier     string
	Shard    string
	Seed     int64
	Deadline time.Time
	Poison   map[int64]string // case numbers that killed an earlier worker (value: how): report, do not execute
	Resume   int64            // cases below this number were executed by an earlier attempt that died later: skip silently
	// StopAfter (>= 0): the run ends once the case of this number has been executed (history replay)
	StopAfter int64
	Res       Result

	caseNo    int64
	states    map[uint64]struct{}
	nontriv   map[uint64]struct{}
	progress  []byte
	lastBeat  atomic.Int64
	curCase   atomic.Int64
	expired   bool
	sampleCap int
	t0        time.Time
}

// NewCtx creates the context; progressPath may be empty.
func NewCtx(prop, tier, shard string, deadline time.Time, progressPath string, poison map[int64]string) *Ctx {
	c := &Ctx{Property: prop, Tier: tier, Shard: shard, Deadline: deadline, Poison: map[int64]string{}, StopAfter: -1,
		states: map[uint64]struct{}{}, nontriv: map[uint64]struct{}{}, sampleCap: 3, t0: time.Now()}
	c.Res = Result{Property: prop, Tier: tier, Shard: shard, Outcomes: map[string]int64{}, FailCounts: map[string]int64{}, Exhaustive: true}
	for k, v := range poison {
		c.Poison[k] = v
	}
	if progressPath != "" {
		f, err := os.OpenFile(progressPath, os.O_RDWR|os.O_CREATE, 0o644)
		if err == nil {
			f.Truncate(16)
			if b, err := syscall.Mmap(int(f.Fd()), 0, 16, syscall.PROT_READ|syscall.PROT_WRITE, syscall.MAP_SHARED); err == nil {
				c.progress = b
				*(*int64)(unsafe.Pointer(&c.progress[0])) = -1
			}
			f.Close()
		}
	}
	c.lastBeat.Store(time.Now().UnixNano())
	c.curCase.Store(-1)
	return c
}

// Begin announces the next case. It returns false when the case must not be executed (poisoned);
// the caller then records it via Crash-like accounting done by the driver.
func (c *Ctx) Begin() (caseNo int64, run bool) {
	n := c.caseNo
	if c.StopAfter >= 0 && n > c.StopAfter {
		// history replay: everything up to the case in question has run
		if b, err := json.Marshal(c.Finish()); err == nil {
			os.Stdout.Write(append(b, '\n'))
		}
		os.Exit(0)
	}
	c.caseNo++
	if c.progress != nil {
		*(*int64)(unsafe.Pointer(&c.progress[0])) = n
	}
	c.curCase.Store(n)
	c.lastBeat.Store(time.Now().UnixNano())
	if _, bad := c.Poison[n]; bad {
		return n, false
	}
	if n < c.Resume {
		return n, false
	}
	return n, true
}

// Skip tells a harness not to execute the case announced by Begin: either an earlier attempt on this
// shard already executed it (and died later), or it is the case that killed an earlier worker - then
// the death is recorded as a failure of this case with the given input.
func (c *Ctx) Skip(caseNo int64, run bool, input any) bool {
	if run {
		return false
	}
	if _, bad := c.Poison[caseNo]; bad {
		c.Res.Outcomes["FAIL:"+c.Fatal(caseNo)]++
		c.Fail(caseNo, nil, c.Fatal(caseNo), input, "every call returns", "the worker process died on this case ("+c.Poison[caseNo]+")")
	}
	return true
}

// Fatal is the fingerprint for a poisoned case ("fatal:stack-overflow", "fatal:hang", ...).
func (c *Ctx) Fatal(caseNo int64) string { return "fatal:" + c.Poison[caseNo] }

// Expired reports whether the internal deadline has passed; the first time it does the shard is
// marked non-exhaustive.
func (c *Ctx) Expired() bool {
	// polling the deadline is a sign of life between the executions of one long case
	now := time.Now()
	c.lastBeat.Store(now.UnixNano())
	if c.expired {
		return true
	}
	// (the clock is read on every call: a shard that is one long case - a scenario explored under
	// many map orders - polls here between its executions and must see the deadline too)
	if !c.Deadline.IsZero() && now.After(c.Deadline) {
		c.expired = true
		c.Res.Exhaustive = false
		c.Note("deadline reached after %d cases", c.caseNo)
	}
	return c.expired
}

func (c *Ctx) NotExhaustive(why string) { c.Res.Exhaustive = false; c.Note("%s", why) }
func (c *Ctx) Exec()                    { c.Res.Executions++ }
func (c *Ctx) Execs(n int64)            { c.Res.Executions += n }
func (c *Ctx) Edge(n int64)             { c.Res.Edges += n }
func (c *Ctx) Validate()                { c.Res.Validated++ }
func (c *Ctx) Validates(n int64)        { c.Res.Validated += n }
func (c *Ctx) Exclude()                 { c.Res.Excluded++ }
func (c *Ctx) Outcome(o string)         { c.Res.Outcomes[o]++ }
func (c *Ctx) OutcomeN(o string, n int64) {
	c.Res.Outcomes[o] += n
}
func (c *Ctx) Note(f string, a ...any) {
	if len(c.Res.Notes) < 20 {
		c.Res.Notes = append(c.Res.Notes, fmt.Sprintf(f, a...))
	}
}

func Hash(s string) uint64 { h := fnv.New64a(); h.Write([]byte(s)); return h.Sum64() }

// State records a distinct input / history / canonical state; returns true if new.
func (c *Ctx) State(key string) bool {
	h := Hash(key)
	if _, ok := c.states[h]; ok {
		return false
	}
	c.states[h] = struct{}{}
	return true
}

// StateN adds n states that are distinct by construction (injective generators).
func (c *Ctx) StateN(n int64) { c.Res.States += n }

// Nontrivial records a distinct non-trivial case.
func (c *Ctx) Nontrivial(key string) { c.nontriv[Hash(key)] = struct{}{} }

// NontrivialN adds n distinct non-trivial cases that are distinct by construction.
func (c *Ctx) NontrivialN(n int64) { c.Res.Nontrivial += n }

func (c *Ctx) Sample(s string) {
	if len(c.Res.Samples) < c.sampleCap {
		if len(s) > 600 {
			s = s[:600] + "…"
		}
		c.Res.Samples = append(c.Res.Samples, s)
	}
}

// Fail records a disagreement.
func (c *Ctx) Fail(caseNo int64, classes []string, fingerprint string, input any, expected, observed string) {
	raw, err := json.Marshal(input)
	if err != nil {
		raw, _ = json.Marshal(fmt.Sprint(input))
	}
	if len(expected) > 4000 {
		expected = expected[:4000] + "…"
	}
	if len(observed) > 4000 {
		observed = observed[:4000] + "…"
	}
	if classes == nil {
		classes = []string{}
	}
	f := Failure{Property: c.Property, Tier: c.Tier, Shard: c.Shard, Case: caseNo, Classes: classes, Fingerprint: fingerprint, Input: raw, Expected: expected, Observed: observed}
	k := f.Key()
	c.Res.FailCounts[k]++
	if c.Res.FailCounts[k] <= 2 && len(c.Res.Failures) < 200 {
		c.Res.Failures = append(c.Res.Failures, f)
		// also stream it: if the worker dies later, the driver still has it
		if b, err := json.Marshal(map[string]any{"failure": f}); err == nil {
			os.Stdout.Write(append(b, '\n'))
		}
	}
}

// Finish finalises counters.
func (c *Ctx) Finish() *Result {
	c.Res.States += int64(len(c.states))
	c.Res.Nontrivial += int64(len(c.nontriv))
	c.Res.WallS = time.Since(c.t0).Seconds()
	return &c.Res
}

// Guard runs f and converts an ordinary panic into a description. Fatal runtime errors (stack
// overflow, concurrent map writes) cannot be recovered: they kill the worker and the driver
// attributes the death to the case published by Begin.
func Guard(f func()) (panicked bool, text string) {
	defer func() {
		if r := recover(); r != nil {
			panicked = true
			text = fmt.Sprint(r)
			LastPanicSite = "?"
			lines := strings.Split(string(debug.Stack()), "\n")
			for i, l := range lines {
				// the first goyang frame below the panic
				if strings.Contains(l, "openconfig/goyang/") && !strings.HasPrefix(l, "\t") {
					fn := l
					if j := strings.LastIndex(fn, "("); j > 0 {
						fn = fn[:j]
					}
					if j := strings.LastIndex(fn, "/"); j >= 0 {
						fn = fn[j+1:]
					}
					LastPanicSite = fn
					if i+1 < len(lines) {
						text += " @" + strings.TrimSpace(lines[i+1])
					}
					break
				}
			}
		}
	}()
	f()
	return false, ""
}

// LastPanicSite is the goyang function in which the most recent guarded panic was raised.
var LastPanicSite string

// StartWatchdog kills the process with a HANG record when one case runs longer than limit.
func (c *Ctx) StartWatchdog(limit time.Duration) {
	go func() {
		for {
			time.Sleep(limit / 4)
			if time.Since(time.Unix(0, c.lastBeat.Load())) > limit {
				fmt.Printf("{\"hang\":true,\"case\":%d}\n", c.curCase.Load())
				os.Stdout.Sync()
				os.Exit(3)
			}
		}
	}()
}

// Beat tells the watchdog the harness is alive inside a long case made of many sub-steps.
func (c *Ctx) Beat() { c.lastBeat.Store(time.Now().UnixNano()) }

// RaceLog returns the race detector's log of this process when GORACE names a log_path ("" if none).
func RaceLog() string {
	for _, f := range strings.Fields(os.Getenv("GORACE")) {
		if p, ok := strings.CutPrefix(f, "log_path="); ok {
			b, _ := os.ReadFile(fmt.Sprintf("%s.%d", p, os.Getpid()))
			return string(b)
		}
	}
	return ""
}

// InitProcess applies the per-process resource rules: small max stack so a runaway recursion dies
// in milliseconds, and (outside race builds) an address-space limit.
func InitProcess(raceBuild bool) {
	debug.SetMaxStack(32 << 20)
	if !raceBuild {
		lim := syscall.Rlimit{Cur: 12 << 30, Max: 12 << 30}
		syscall.Setrlimit(syscall.RLIMIT_AS, &lim)
	}
}

// Prop is what a property package registers.
type Prop struct {
	ID      string
	Variant string // "plain", "order" (map ranges owned), "sched" (sync shim + -race)
	// Shards lists the units of work for a tier, deterministic.
	Shards func(tier string) []string
	// Run explores one shard.
	Run func(c *Ctx)
	// Replay re-runs one recorded case from its Input and reports whether it still fails and how.
	Replay func(tier string, input json.RawMessage) (fails bool, fingerprint, detail string)
	// Describe returns evidence texts.
	Rule        string
	Assumptions []string
	Level       string
	// NoResume: the enumeration of later cases depends on executing earlier ones (DFS over choice
	// points discovered at run time), so a shard cannot fast-forward past executed cases.
	NoResume bool
}

var registry = map[string]*Prop{}

func Register(p *Prop)       { registry[p.ID] = p }
func Lookup(id string) *Prop { return registry[id] }
func All() []string {
	var ids []string
	for k := range registry {
		ids = append(ids, k)
	}
	sort.Strings(ids)
	return ids
}
