// Package c15 decides C15: Number prints, parses, converts and compares as exact decimal arithmetic.
// Exhaustive over a boundary grid of magnitudes x sign x fraction digits (all pairs), and over a
// literal grammar grid, against math/big.
package c15

import (
	"encoding/json"
	"fmt"
	"math/big"
	"strings"

	"github.com/openconfig/goyang/pkg/yang"
	"verif/mc/core"
	"verif/mc/ref/num"
)

type N struct {
	Neg bool   `json:"neg"`
	Mag uint64 `json:"mag"`
	FD  uint8  `json:"fd"`
}

func (n N) y() yang.Number { return yang.Number{Value: n.Mag, Negative: n.Neg, FractionDigits: n.FD} }

type Input struct {
	Op  string `json:"op"` // pair | unary | lit | fromint
	A   N      `json:"a"`
	B   N      `json:"b"`
	Lit string `json:"lit,omitempty"`
	Req uint8  `json:"req,omitempty"`
	I   int64  `json:"i,omitempty"`
	U   uint64 `json:"u,omitempty"`
}

func mags(tier string) []uint64 {
	seen := map[uint64]bool{}
	var out []uint64
	add := func(v uint64) {
		if !seen[v] {
			seen[v] = true
			out = append(out, v)
		}
	}
	for _, v := range []uint64{0, 1, 2, 9, 10, 11, 99, 100, 101} {
		add(v)
	}
	p := uint64(1)
	for k := 1; k <= 19; k++ {
		p *= 10
		add(p - 1)
		add(p)
		add(p + 1)
		if tier == "thorough" {
			for _, d := range []uint64{2, 5, 9} {
				if p <= (1<<64-1)/d {
					add(p * d)
					add(p*d + 1)
				}
			}
			add(p + p/10*5) // 1.5 * 10^k
		}
	}
	for _, v := range []uint64{1<<31 - 1, 1 << 31, 1<<32 - 1, 1 << 32, 1<<63 - 1, 1 << 63, 1<<63 + 1, 1<<64 - 2, 1<<64 - 1,
		922337203685477580, 9223372036854775800, 9223372036854775799, 18446744073709551610} {
		add(v)
	}
	// the largest values that can still be scaled by 10^k within 64 and 63 bits, and their
	// neighbours: where code that scales before comparing or printing has to switch methods
	q64, q63 := uint64(1<<64-1), uint64(1<<63-1)
	for k := 1; k <= 19; k++ {
		q64 /= 10
		q63 /= 10
		for _, q := range []uint64{q64, q63} {
			add(q)
			add(q + 1)
			if tier == "thorough" {
				add(q - 1)
				add(q + 2)
				add(q + 100)
			}
		}
	}
	if tier == "thorough" {
		for k := uint(1); k < 64; k++ {
			add(1<<k - 1)
			add(1 << k)
			add(1<<k + 1)
		}
	}
	return out
}

// numbers lists the domain: integers of 64-bit magnitude with sign (fd 0) and decimal64 values
// (signed 64-bit mantissa, fd 1..18).
func numbers(tier string) []N {
	var out []N
	for _, m := range mags(tier) {
		for _, neg := range []bool{false, true} {
			for fd := 0; fd <= 18; fd++ {
				if fd > 0 && ((!neg && m > 1<<63-1) || (neg && m > 1<<63)) {
					continue
				}
				out = append(out, N{neg, m, uint8(fd)})
			}
		}
	}
	return out
}

func scaled(n N) *big.Int { // value * 10^18
	return new(big.Int).Mul(num.Mant(n.Neg, n.Mag), num.Pow10(18-int(n.FD)))
}

func classes(ns ...N) []string {
	var c []string
	for _, n := range ns {
		if n.Mag == 0 && n.Neg {
			c = append(c, "negative-zero")
			break
		}
	}
	return c
}

type fail struct {
	classes  []string
	fp       string
	exp, obs string
}

func checkPair(a, b N, sa, sb *big.Int) *fail {
	var less, eq bool
	if pan, pt := core.Guard(func() { less = a.y().Less(b.y()); eq = a.y().Equal(b.y()) }); pan {
		return &fail{classes(a, b), "panic", "no panic", pt}
	}
	c := sa.Cmp(sb)
	if less != (c < 0) {
		return &fail{classes(a, b), "less-wrong", fmt.Sprint(c < 0), fmt.Sprint(less)}
	}
	if eq != (c == 0) {
		return &fail{classes(a, b), "equal-wrong", fmt.Sprint(c == 0), fmt.Sprint(eq)}
	}
	return nil
}

func checkUnary(a N) *fail {
	exact := num.Rat(a.Neg, a.Mag, int(a.FD))
	var s string
	if pan, pt := core.Guard(func() { s = a.y().String() }); pan {
		return &fail{classes(a), "panic", "no panic", pt}
	}
	// the printed text must denote the exact value with exactly fd fraction digits
	v, fl, ok := num.ParseLiteral(s)
	if !ok || v.Cmp(exact) != 0 || fl != int(a.FD) {
		return &fail{classes(a), "string-wrong", exact.FloatString(int(a.FD)), s}
	}
	if strings.HasPrefix(s, "-") != a.Neg {
		return &fail{classes(a), "string-sign", fmt.Sprint(a.Neg), s}
	}
	var back yang.Number
	var err error
	if pan, pt := core.Guard(func() {
		if a.FD == 0 {
			back, err = yang.ParseInt(s)
		} else {
			back, err = yang.ParseDecimal(s, a.FD)
		}
	}); pan {
		return &fail{classes(a), "panic", "no panic", pt}
	}
	if err != nil {
		return &fail{classes(a), "roundtrip-parse-error", s, err.Error()}
	}
	if num.Rat(back.Negative, back.Value, int(back.FractionDigits)).Cmp(exact) != 0 || back.FractionDigits != a.FD {
		return &fail{classes(a), "roundtrip-differs", fmt.Sprintf("%+v", a.y()), fmt.Sprintf("%+v", back)}
	}
	if !back.Equal(a.y()) || !a.y().Equal(back) {
		return &fail{classes(a), "roundtrip-not-Equal", fmt.Sprintf("%+v", a.y()), fmt.Sprintf("%+v", back)}
	}
	if a.y().Less(a.y()) {
		return &fail{classes(a), "less-irreflexive", "false", "true"}
	}
	if a.FD == 0 {
		var i int64
		if pan, pt := core.Guard(func() { i, err = a.y().Int() }); pan {
			return &fail{classes(a), "panic", "no panic", pt}
		}
		m := num.Mant(a.Neg, a.Mag)
		cl := classes(a)
		if a.Neg && a.Mag > 1<<63 {
			cl = append(cl, "negative-magnitude-over-2^63")
		}
		if m.IsInt64() {
			if err != nil {
				return &fail{cl, "int-spurious-error", m.String(), err.Error()}
			}
			if i != m.Int64() {
				return &fail{cl, "int-wrong", m.String(), fmt.Sprint(i)}
			}
		} else if err == nil {
			return &fail{cl, "int-wrapped", "error", fmt.Sprint(i)}
		}
	} else {
		var err error
		if pan, pt := core.Guard(func() { _, err = a.y().Int() }); pan {
			return &fail{classes(a), "panic", "no panic", pt}
		}
		if err == nil {
			return &fail{classes(a), "int-of-decimal-no-error", "error", "nil"}
		}
	}
	return nil
}

func checkFromInt(in Input) *fail {
	if in.Op == "fromint" {
		n := yang.FromInt(in.I)
		if num.Rat(n.Negative, n.Value, int(n.FractionDigits)).Cmp(new(big.Rat).SetInt64(in.I)) != 0 || n.FractionDigits != 0 {
			return &fail{nil, "fromint-wrong", fmt.Sprint(in.I), fmt.Sprintf("%+v", n)}
		}
		j, err := n.Int()
		if err != nil || j != in.I {
			return &fail{nil, "fromint-int-roundtrip", fmt.Sprint(in.I), fmt.Sprint(j, err)}
		}
		return nil
	}
	n := yang.FromUint(in.U)
	if n.Negative || n.Value != in.U || n.FractionDigits != 0 {
		return &fail{nil, "fromuint-wrong", fmt.Sprint(in.U), fmt.Sprintf("%+v", n)}
	}
	return nil
}

// checkLit: ParseDecimal(lit, req) for req>0, ParseInt(lit) for req==0.
func checkLit(lit string, req uint8) (f *fail, dontcare bool) {
	exact, fl, ok := num.ParseLiteral(lit)
	if !ok {
		panic("generator produced a non-literal: " + lit)
	}
	var cl []string
	if fl > 255 {
		cl = append(cl, "fraction-length-over-255")
	}
	var n yang.Number
	var err error
	if pan, pt := core.Guard(func() {
		if req == 0 {
			n, err = yang.ParseInt(lit)
		} else {
			n, err = yang.ParseDecimal(lit, req)
		}
	}); pan {
		return &fail{cl, "panic", "no panic", pt}, false
	}
	if req == 0 {
		if fl > 0 || strings.Contains(lit, ".") {
			if err == nil {
				return &fail{cl, "parseint-accepts-fraction", "error", fmt.Sprintf("%+v", n)}, false
			}
			return nil, false
		}
		mag := new(big.Int).Abs(exact.Num())
		if mag.IsUint64() {
			if err != nil {
				return &fail{cl, "parseint-spurious-error", exact.String(), err.Error()}, false
			}
			if num.Rat(n.Negative, n.Value, 0).Cmp(exact) != 0 || n.FractionDigits != 0 {
				return &fail{cl, "parseint-wrong", exact.String(), fmt.Sprintf("%+v", n)}, false
			}
		} else if err == nil {
			return &fail{cl, "parseint-accepts-overflow", "error", fmt.Sprintf("%+v", n)}, false
		}
		return nil, false
	}
	sc := new(big.Rat).Mul(exact, new(big.Rat).SetInt(num.Pow10(int(req))))
	representable := sc.IsInt() && sc.Num().Cmp(num.MinInt64) >= 0 && sc.Num().Cmp(num.MaxInt64) <= 0
	if representable && fl > int(req) {
		return nil, true // only superfluous trailing zeros beyond the precision: the statement is silent
	}
	if representable {
		if err != nil {
			return &fail{cl, "parsedecimal-spurious-error", exact.FloatString(int(req)), err.Error()}, false
		}
		if num.Rat(n.Negative, n.Value, int(n.FractionDigits)).Cmp(exact) != 0 || n.FractionDigits != req {
			return &fail{cl, "parsedecimal-wrong", exact.FloatString(int(req)), fmt.Sprintf("%+v", n)}, false
		}
	} else if err == nil {
		return &fail{cl, "parsedecimal-accepts-unrepresentable", "error", fmt.Sprintf("%+v", n)}, false
	}
	return nil, false
}

func literals(tier string, f func(lit string)) {
	ints := []string{"0", "1", "9", "10", "92233720368547758", "922337203685477580", "922337203685477581", "9223372036854775807", "9223372036854775808", "9223372036854775809",
		"18446744073709551615", "18446744073709551616", "99999999999999999999", "100000000000000000000"}
	fls := []int{-1, 1, 2, 3, 16, 17, 18, 19, 20, 254, 255, 256, 257, 258, 274, 511, 512, 513}
	if tier == "thorough" {
		fls = fls[:0]
		for i := -1; i <= 40; i++ {
			if i != 0 {
				fls = append(fls, i)
			}
		}
		for _, i := range []int{254, 255, 256, 257, 258, 259, 265, 273, 274, 275, 511, 512, 513, 530, 768, 769, 65535, 65536, 65537, 65554} {
			fls = append(fls, i)
		}
	}
	for _, sign := range []string{"", "-", "+"} {
		for _, ip := range ints {
			for _, fl := range fls {
				if fl < 0 {
					f(sign + ip)
					continue
				}
				for _, pat := range []string{"0", "1", "9", "01", "10", "58"} {
					var frac string
					switch pat {
					case "0":
						frac = strings.Repeat("0", fl)
					case "1":
						frac = strings.Repeat("1", fl)
					case "9":
						frac = strings.Repeat("9", fl)
					case "01":
						frac = strings.Repeat("0", fl-1) + "1"
					case "10":
						frac = "1" + strings.Repeat("0", fl-1)
					case "58": // the last digits of the int64 extremes
						frac = strings.Repeat("5", fl-1) + "8"
					}
					f(sign + ip + "." + frac)
				}
			}
		}
	}
}

const pairShards = 32

func shards(tier string) []string {
	out := []string{"unary", "literals", "fromint"}
	for k := 20; k <= 63; k += 4 {
		out = append(out, fmt.Sprintf("bands/%d", k))
	}
	for i := 0; i < pairShards; i++ {
		out = append(out, fmt.Sprintf("pairs/%d", i))
	}
	return out
}

func short(s string) string {
	if len(s) > 60 {
		return s[:24] + fmt.Sprintf("…(%d chars)…", len(s)) + s[len(s)-10:]
	}
	return s
}

func run(c *core.Ctx) {
	c.Res.Bound = fmt.Sprintf("%d magnitudes x sign x fraction-digits 0..18 (decimals within a signed 64-bit mantissa); all ordered pairs; literal grid; 512 (4096) magnitudes spread over every binary band 2^20..2^63 x sign x fraction-digits, printed, re-read and converted", len(mags(c.Tier)))
	report := func(caseNo int64, in Input, f *fail) {
		c.Outcome("FAIL:" + f.fp)
		c.Fail(caseNo, f.classes, f.fp, in, f.exp, f.obs)
	}
	switch {
	case strings.HasPrefix(c.Shard, "bands/"):
		// magnitudes spread evenly (with an odd stride) over every binary band [2^k, 2^(k+1)): values
		// that are near no decimal or binary boundary but may sit beyond an internal precision limit
		var k0 int
		fmt.Sscanf(c.Shard, "bands/%d", &k0)
		per := uint64(512)
		if c.Tier == "thorough" {
			per = 4096
		}
		for k := k0; k < k0+4 && k <= 63; k++ {
			lo := uint64(1) << uint(k)
			stride := lo/per | 1
			for i := uint64(0); i < per; i++ {
				m := lo + i*stride + (i*i)%7
				for _, neg := range []bool{false, true} {
					for fd := 0; fd <= 18; fd++ {
						if fd > 0 && ((!neg && m > 1<<63-1) || (neg && m > 1<<63)) {
							continue
						}
						a := N{neg, m, uint8(fd)}
						caseNo, run := c.Begin()
						in := Input{Op: "unary", A: a}
						if c.Skip(caseNo, run, in) {
							continue
						}
						c.Exec()
						c.Validate()
						c.Edge(4)
						c.StateN(1)
						c.NontrivialN(1)
						if f := checkUnary(a); f != nil {
							report(caseNo, in, f)
						} else {
							c.Outcome("unary-ok")
						}
					}
				}
			}
		}
	case c.Shard == "unary":
		for _, a := range numbers(c.Tier) {
			caseNo, run := c.Begin()
			in := Input{Op: "unary", A: a}
			if c.Skip(caseNo, run, in) {
				continue
			}
			c.Exec()
			c.Validate()
			c.Edge(4)
			c.StateN(1)
			c.NontrivialN(1)
			if f := checkUnary(a); f != nil {
				report(caseNo, in, f)
			} else {
				c.Outcome("unary-ok")
			}
		}
		b, _ := json.Marshal(Input{Op: "unary", A: N{true, 1 << 63, 18}})
		c.Sample(string(b))
	case c.Shard == "fromint":
		for _, m := range mags(c.Tier) {
			caseNo, run := c.Begin()
			if c.Skip(caseNo, run, Input{Op: "fromuint", U: m}) {
				continue
			}
			ins := []Input{{Op: "fromuint", U: m}}
			if m <= 1<<63-1 {
				ins = append(ins, Input{Op: "fromint", I: int64(m)}, Input{Op: "fromint", I: -int64(m)})
			} else if m == 1<<63 {
				ins = append(ins, Input{Op: "fromint", I: -1 << 63})
			}
			for _, in := range ins {
				c.Exec()
				c.Validate()
				c.Edge(1)
				c.StateN(1)
				c.NontrivialN(1)
				var f *fail
				if pan, pt := core.Guard(func() { f = checkFromInt(in) }); pan {
					f = &fail{nil, "panic", "no panic", pt}
				}
				if f != nil {
					report(caseNo, in, f)
				} else {
					c.Outcome("from-ok")
				}
			}
		}
		c.Sample(`{"op":"fromint","i":-9223372036854775808}`)
	case c.Shard == "literals":
		literals(c.Tier, func(lit string) {
			caseNo, run := c.Begin()
			if c.Skip(caseNo, run, Input{Op: "lit", Lit: lit}) {
				return
			}
			for req := 0; req <= 18; req++ {
				c.Exec()
				c.Edge(1)
				c.StateN(1)
				f, dc := checkLit(lit, uint8(req))
				if dc {
					c.Exclude()
					c.Outcome("lit-dontcare-trailing-zeros")
					continue
				}
				c.Validate()
				c.NontrivialN(1)
				if f != nil {
					report(caseNo, Input{Op: "lit", Lit: lit, Req: uint8(req)}, f)
				} else {
					c.Outcome("lit-ok")
				}
			}
		})
		c.Sample(`{"op":"lit","lit":"-9223372036854775808.` + "0" + `","req":1}`)
	default:
		var k int
		fmt.Sscanf(c.Shard, "pairs/%d", &k)
		ns := numbers(c.Tier)
		sc := make([]*big.Int, len(ns))
		for i, n := range ns {
			sc[i] = scaled(n)
		}
		for i := k; i < len(ns); i += pairShards {
			if c.Expired() {
				break
			}
			caseNo, run := c.Begin()
			if c.Skip(caseNo, run, Input{Op: "pair", A: ns[i]}) {
				continue
			}
			for j := range ns {
				f := checkPair(ns[i], ns[j], sc[i], sc[j])
				if f != nil {
					report(caseNo, Input{Op: "pair", A: ns[i], B: ns[j]}, f)
				}
			}
			n := int64(len(ns))
			c.Execs(n)
			c.Validates(n)
			c.Edge(2 * n)
			c.StateN(n)
			c.NontrivialN(n)
			c.OutcomeN("pair-checked", n)
		}
		if k == 0 {
			b, _ := json.Marshal(Input{Op: "pair", A: N{true, 1 << 63, 18}, B: N{false, 1<<64 - 1, 0}})
			c.Sample(string(b))
		}
	}
}

func replay(tier string, raw json.RawMessage) (bool, string, string) {
	var in Input
	if err := json.Unmarshal(raw, &in); err != nil {
		return false, "", err.Error()
	}
	var f *fail
	switch in.Op {
	case "pair":
		f = checkPair(in.A, in.B, scaled(in.A), scaled(in.B))
	case "unary":
		f = checkUnary(in.A)
	case "lit":
		f, _ = checkLit(in.Lit, in.Req)
	default:
		if pan, pt := core.Guard(func() { f = checkFromInt(in) }); pan {
			f = &fail{nil, "panic", "no panic", pt}
		}
	}
	if f == nil {
		return false, "", "agrees with exact arithmetic"
	}
	return true, f.fp, fmt.Sprintf("expected %s observed %s", short(f.exp), short(f.obs))
}

func init() {
	core.Register(&core.Prop{
		ID: "C15", Variant: "plain", Shards: shards, Run: run, Replay: replay,
		Rule:        "boundary grid of magnitudes (0, powers of ten and of two with neighbours, the 2^31/2^32/2^63/2^64 extremes) x sign x fraction-digits 0..18 restricted to the stated domain; every ordered pair is compared (Less, Equal) with big.Int arithmetic at a common scale; every number is printed, re-read, converted (Int, FromInt, FromUint); every literal of the grid [sign]int[.frac] (fraction lengths up to and around 18, 255..258, 512) x requested precision 0..18 is parsed and compared with the exact rational; states = distinct (operation, operands); non-trivial = compared with the reference (literals whose extra digits are only trailing zeros are excluded)",
		Assumptions: []string{"boundary grids stand in for the 2^64-sized numeric domain", "math/big is the arithmetic reference"},
	})
}
