package c09

import (
	"fmt"
	"strings"

	"github.com/openconfig/goyang/pkg/yang"
	"verif/mc/core"
	"verif/mc/dump"
)

// rebind: a first processing run that fails before any tree is built (a module, a submodule or a
// grouping is missing), then the missing piece and the revision of x that the import denotes from
// now on are loaded, and a second run. A type reference that is written on a leaf, a leaf-list or a
// union member is resolved for the first time by that second run: it must denote the typedef of
// the revision the import is bound to then. (References resolved by the first run - those inside
// typedefs - stay on the old revision: recorded finding of C18, not judged here.)

type RebindInput struct {
	Sites   int  `json:"sites"`   // bit set over the reference sites
	Pinned  bool `json:"pinned"`  // the import names revision-date 2021-01-01
	Failure int  `json:"failure"` // what the first run lacks: 0 an imported module, 1 a submodule, 2 nothing is processed first (control)
	Typedef bool `json:"typedef"` // a typedef of the importer refers to x:rate as well (resolved by the first run)
}

var rebindSites = []string{
	`leaf first { type x:rate; }`,
	`container c { leaf second { type x:rate; } }`,
	`leaf-list third { type x:rate; }`,
	`leaf fourth { type union { type x:rate; type boolean; } }`,
}
var rebindNames = []string{"first", "c/second", "third", "fourth"}

const (
	xOld = `module x { namespace "urn:x"; prefix x; revision 2020-01-01; typedef rate { type int8 { range "1..9"; } units old; default 1; } }`
	xNew = `module x { namespace "urn:x"; prefix x; revision 2021-01-01; revision 2020-01-01; typedef rate { type string { pattern "[a-z]+"; } units new; } }`
)

func (in RebindInput) importer() string {
	var sb strings.Builder
	sb.WriteString(`module a { namespace "urn:a"; prefix a; import x { prefix x;`)
	if in.Pinned {
		sb.WriteString(` revision-date 2021-01-01;`)
	}
	sb.WriteString(` }`)
	switch in.Failure {
	case 0:
		sb.WriteString(` import late { prefix l; }`)
	case 1:
		sb.WriteString(` include late;`)
	}
	if in.Typedef {
		sb.WriteString(` typedef speed { type x:rate; } leaf viatd { type speed; }`)
	}
	for i, s := range rebindSites {
		if in.Sites&(1<<i) != 0 {
			sb.WriteString(" " + s)
		}
	}
	sb.WriteString(" }")
	return sb.String()
}

func (in RebindInput) late() string {
	if in.Failure == 1 {
		return `submodule late { belongs-to a { prefix a; } leaf ll { type string; } }`
	}
	return `module late { namespace "urn:late"; prefix late; leaf ll { type string; } }`
}

func rebindText(in RebindInput) string {
	return strings.Join([]string{in.importer(), xOld, "-- process --", in.late(), xNew, "-- process --"}, "\n")
}

func checkRebind(in RebindInput) *fail {
	var f *fail
	pan, pt := core.Guard(func() {
		ms := yang.NewModules()
		for _, t := range [][2]string{{"a.yang", in.importer()}, {"x-old.yang", xOld}} {
			if err := ms.Parse(t[1], t[0]); err != nil {
				f = &fail{"load-error", "loads", err.Error()}
				return
			}
		}
		if in.Failure != 2 {
			if errs := ms.Process(); len(errs) == 0 {
				f = &fail{"missing-module-not-reported", "an error", "the first run reports none"}
				return
			}
		}
		for _, t := range [][2]string{{"late.yang", in.late()}, {"x-new.yang", xNew}} {
			if in.Failure == 2 && t[0] == "late.yang" {
				continue
			}
			if err := ms.Parse(t[1], t[0]); err != nil {
				f = &fail{"load-error", "loads", err.Error()}
				return
			}
		}
		if errs := ms.Process(); len(errs) > 0 {
			f = &fail{"spurious-errors", "no errors", dump.Errors(errs)}
			return
		}
		root := yang.ToEntry(ms.Modules["a"])
		for i, n := range rebindNames {
			if in.Sites&(1<<i) == 0 {
				continue
			}
			e := root
			for _, st := range strings.Split(n, "/") {
				e = e.Dir[st]
			}
			t := e.Type
			if t != nil && len(t.Type) > 0 {
				t = t.Type[0] // the union's first member
			}
			if t == nil || t.Kind != yang.Ystring || t.Units != "new" || len(t.Pattern) != 1 {
				f = &fail{"reference-resolved-by-the-second-run-denotes-the-old-revision", "x@2021-01-01's rate: string, units new, one pattern", n + ": " + dump.Type(e.Type, 0)}
				return
			}
		}
	})
	if pan {
		return &fail{"panic@" + core.LastPanicSite, "no panic", pt}
	}
	return f
}

func rebindInputs() []RebindInput {
	var out []RebindInput
	for sites := 1; sites < 1<<len(rebindSites); sites++ {
		for _, pinned := range []bool{false, true} {
			for failure := 0; failure < 3; failure++ {
				for _, td := range []bool{false, true} {
					out = append(out, RebindInput{Sites: sites, Pinned: pinned, Failure: failure, Typedef: td})
				}
			}
		}
	}
	return out
}

var _ = fmt.Sprint
