package c09

import (
	"fmt"
	"strings"

	"github.com/openconfig/goyang/pkg/yang"
	"verif/mc/core"
	"verif/mc/dump"
)

// ---------------------------------------------------------------------------------------------
// chains through different typedefs of the same name: across imports (a:percent -> b:percent ->
// c:percent) and by shadowing (a typedef in an inner scope named like a module-level one that its
// own chain passes through). The order in which the typedef dictionary is walked is not owned here
// (C05 explores it); every program is resolved on several fresh sets.

type SameNameInput struct {
	Variant int `json:"variant"`
	Order   int `json:"order"`
}

var sameNameFiles = [][]dump.File{
	{
		{Name: "na.yang", Text: `module na { namespace "urn:na"; prefix na; import nb { prefix nb; } typedef percent { type nb:percent { range "0..50"; } units a; } leaf la { type percent; } }`},
		{Name: "nb.yang", Text: `module nb { namespace "urn:nb"; prefix nb; import nc { prefix nc; } typedef percent { type nc:percent { range "0..90"; } default 7; } leaf lb { type percent; } }`},
		{Name: "nc.yang", Text: `module nc { namespace "urn:nc"; prefix nc; typedef percent { type uint8 { range "0..100"; } units c; } leaf lc { type percent; } }`},
	},
	{
		{Name: "na.yang", Text: `module na { namespace "urn:na"; prefix na; typedef level { type int16; units top; } typedef reading { type level; }
 container c { typedef level { type reading { range "1..9"; } } leaf lc { type level; } list li { key k; typedef reading { type level; default 3; } leaf k { type reading; } } } leaf plain { type reading; } }`},
	},
}

var sameNameWant = []map[string]string{
	{"na:la": "kind=uint8 units=a default=7 range=0..50", "nb:lb": "kind=uint8 units=c default=7 range=0..90", "nc:lc": "kind=uint8 units=c default= range=0..100"},
	{"na:c/lc": "kind=int16 units=top default= range=1..9", "na:c/li/k": "kind=int16 units=top default=3 range=1..9", "na:plain": "kind=int16 units=top default= range=-32768..32767"},
}

func checkSameName(in SameNameInput) *fail {
	var f *fail
	pan, pt := core.Guard(func() {
		files := sameNameFiles[in.Variant]
		perms := [][]int{{0, 1, 2}, {2, 1, 0}, {1, 0, 2}, {0, 2, 1}}
		for round := 0; round < 12; round++ {
			ms := yang.NewModules()
			for _, k := range perms[in.Order] {
				if k >= len(files) {
					continue
				}
				if err := ms.Parse(files[k].Text, files[k].Name); err != nil {
					f = &fail{"load-error", "loads", err.Error()}
					return
				}
			}
			if errs := ms.Process(); len(errs) > 0 {
				f = &fail{"spurious-errors", "no errors: the chain is valid", dump.Errors(errs)}
				return
			}
			for where, want := range sameNameWant[in.Variant] {
				mod, path, _ := strings.Cut(where, ":")
				e := lookup(yang.ToEntry(ms.Modules[mod]), strings.Split(path, "/"))
				if e == nil || e.Type == nil {
					f = &fail{"leaf-without-type", where, "nil"}
					return
				}
				t := e.Type
				got := fmt.Sprintf("kind=%s units=%s default=%s", yang.TypeKindToName[t.Kind], t.Units, t.Default)
				if len(t.Range) > 0 {
					got += " range=" + t.Range.String()
				}
				if len(t.Length) > 0 {
					got += " length=" + t.Length.String()
				}
				if got != want {
					f = &fail{"chain-attributes-wrong", where + ": " + want, got}
					return
				}
			}
		}
	})
	if pan {
		return &fail{"panic@" + core.LastPanicSite, "no panic", pt}
	}
	return f
}

func sameNameText(in SameNameInput) string {
	var sb strings.Builder
	for _, f := range sameNameFiles[in.Variant] {
		sb.WriteString(f.Text + "\n")
	}
	return sb.String()
}
