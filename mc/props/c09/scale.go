package c09

import (
	"fmt"

	"github.com/openconfig/goyang/pkg/yang"
	"verif/mc/dump"
	"verif/mc/gen/scale"
	"verif/mc/props/scalekit"
)

// scale: typedef chains of every length up to the bound (the leaf inherits base kind, range, default
// and the last typedef's units), the same closed into a cycle (an error), and three-level chains
// whose names are padded to every length from 4 to 300 bytes.

func scaleCases(tier string) []scalekit.Case {
	var out []scalekit.Case
	for _, n := range scale.Sizes(70, 257) {
		out = append(out, scalekit.Case{Shape: "typedef-chain", N: n}, scalekit.Case{Shape: "typedef-cycle", N: n})
	}
	for n := 4; n <= 300; n++ {
		out = append(out, scalekit.Case{Shape: "typedef-name-length", N: n})
	}
	return out
}

func checkScale(cs scalekit.Case) scalekit.Verdict {
	var f dump.File
	switch cs.Shape {
	case "typedef-chain":
		f, _ = scale.TypedefChain(cs.N, 0, false)
	case "typedef-cycle":
		f, _ = scale.TypedefChain(cs.N, 0, true)
	case "typedef-name-length":
		f, _ = scale.TypedefChain(3, cs.N, false)
	}
	ms, errs, lerr := scalekit.Load([]dump.File{f}, false)
	if lerr != nil {
		return scalekit.Bad("load-error", "loads", lerr.Error())
	}
	if cs.Shape == "typedef-cycle" {
		if len(errs) == 0 {
			return scalekit.Bad("cyclic-chain-not-reported", "an error", "none")
		}
		return scalekit.OK()
	}
	if len(errs) > 0 {
		return scalekit.Bad("spurious-errors", "no errors", dump.Errors(errs))
	}
	l := yang.ToEntry(ms.Modules["m"]).Dir["l"]
	if l == nil || l.Type == nil {
		return scalekit.Bad("leaf-without-type", "l", "nil")
	}
	t := l.Type
	got := fmt.Sprintf("kind=%s range=%s default=%s units=%s", yang.TypeKindToName[t.Kind], t.Range, t.Default, t.Units)
	units := "last"
	if cs.Shape == "typedef-chain" && cs.N == 1 {
		units = ""
	}
	if want := "kind=int16 range=1..500 default=7 units=" + units; got != want {
		return scalekit.Bad("chain-attributes-wrong", want, got)
	}
	return scalekit.OK()
}
