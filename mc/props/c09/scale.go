package c09

import (
	"fmt"
	"strings"

	"github.com/openconfig/goyang/pkg/yang"
	"verif/mc/dump"
	"verif/mc/gen/scale"
	"verif/mc/props/scalekit"
)

// scale: typedef chains of every length up to the bound (the leaf inherits base kind, range, default
// and the last typedef's units), the same closed into a cycle (an error), and three-level chains
// whose names are padded to every length from 4 to 300 bytes.

func init() {
	// the oracle of this shape compares with the path as written, prefixes included
	scalekit.NoCross["long-arguments"] = true
}

func scaleCases(tier string) []scalekit.Case {
	var out []scalekit.Case
	for _, n := range scale.Sizes(70, 257) {
		out = append(out, scalekit.Case{Shape: "typedef-chain", N: n}, scalekit.Case{Shape: "typedef-cycle", N: n})
	}
	for n := 4; n <= 300; n++ {
		out = append(out, scalekit.Case{Shape: "typedef-name-length", N: n})
	}
	for _, n := range scale.Sizes(48, 257) {
		out = append(out, scalekit.Case{Shape: "many-leaves", N: n}, scalekit.Case{Shape: "counts", N: n})
	}
	for _, n := range scale.Sizes(64, 4097) {
		out = append(out, scalekit.Case{Shape: "long-arguments", N: n})
	}
	for _, n := range scale.Sizes(40, 129) {
		out = append(out, scalekit.Case{Shape: "many-imports", N: n})
	}
	return out
}

func checkMany(cs scalekit.Case) scalekit.Verdict {
	var f dump.File
	arg := ""
	switch cs.Shape {
	case "many-leaves":
		f = scale.ManyLeaves(cs.N)
	case "counts":
		f = scale.Counts(cs.N)
	case "long-arguments":
		f, arg = scale.LongArgs(cs.N)
	}
	ms, errs, lerr := scalekit.Load([]dump.File{f}, false)
	if lerr != nil {
		return scalekit.Bad("load-error", "loads", lerr.Error())
	}
	if len(errs) > 0 {
		return scalekit.Bad("spurious-errors", "no errors", dump.Errors(errs))
	}
	root := yang.ToEntry(ms.Modules["m"])
	typ := func(name string) *yang.YangType {
		if e := root.Dir[name]; e != nil {
			return e.Type
		}
		return nil
	}
	switch cs.Shape {
	case "many-leaves":
		for i := 0; i < cs.N; i++ {
			for _, x := range []struct{ name, want string }{
				{fmt.Sprintf("a%d", i), "kind=int16 range=1..500 default=7 units=u"},
				{fmt.Sprintf("b%d", i), fmt.Sprintf("kind=int16 range=3..%d default=7 units=u", 10+i%300)},
				{fmt.Sprintf("c%d", i), "kind=int16 range=1..500 default=7 units=u"},
			} {
				t := typ(x.name)
				if t == nil {
					return scalekit.Bad("leaf-without-type", x.name, "nil")
				}
				if got := fmt.Sprintf("kind=%s range=%s default=%s units=%s", yang.TypeKindToName[t.Kind], t.Range, t.Default, t.Units); got != x.want {
					return scalekit.Bad("chain-attributes-wrong", x.name+": "+x.want, got)
				}
			}
		}
	case "counts":
		pt, ut := typ("pl"), typ("ul")
		if pt == nil || len(pt.Pattern) != cs.N || pt.Pattern[0] != "p0.*" || pt.Pattern[cs.N-1] != fmt.Sprintf("p%d.*", cs.N-1) {
			return scalekit.Bad("patterns-not-accumulated", fmt.Sprintf("%d patterns p0.* .. p%d.*", cs.N, cs.N-1), fmt.Sprint(pt != nil && true, pt))
		}
		for name, extra := range map[string]string{"pa": "x", "pb": "x", "pc": "y", "pe": "x", "pf": "x y"} {
			t := typ(name)
			want := cs.N + len(strings.Fields(extra))
			if t == nil || len(t.Pattern) != want || strings.Join(t.Pattern[cs.N:], " ") != extra {
				got := "<nil>"
				if t != nil {
					got = fmt.Sprintf("%d patterns, the last ones %q", len(t.Pattern), t.Pattern[max(0, len(t.Pattern)-3):])
				}
				return scalekit.Bad("patterns-not-accumulated", fmt.Sprintf("%s: the %d patterns of the typedef and then %q", name, cs.N, extra), got)
			}
		}
		if ut == nil || len(ut.Type) != cs.N {
			n := -1
			if ut != nil {
				n = len(ut.Type)
			}
			return scalekit.Bad("union-members-lost", fmt.Sprintf("%d members", cs.N), fmt.Sprint(n))
		}
		for i, m := range ut.Type {
			if m.Length.String() != fmt.Sprint(i+1) {
				return scalekit.Bad("union-members-lost", fmt.Sprintf("member %d with length %d", i, i+1), m.Length.String())
			}
		}
	case "long-arguments":
		l := root.Dir["l"]
		if l == nil || l.Type == nil || len(l.Type.Pattern) != 1 || l.Type.Pattern[0] != arg+".*" {
			return scalekit.Bad("pattern-not-carried", "the written pattern of "+fmt.Sprint(len(arg)+2)+" bytes", "another")
		}
		if fmt.Sprint(l.Default) != "["+arg+"]" { // (a leaf's own units are not exposed by the library)
			return scalekit.Bad("long-argument-changed", "default as written", fmt.Sprintf("default=%v units=%q typeunits=%q", l.Default, l.Units, l.Type.Units))
		}
		if r := root.Dir["r"]; r == nil || r.Type == nil || r.Type.Path != "/m:t[m:"+arg+" = 1]" {
			return scalekit.Bad("path-not-carried", "the written path", "another")
		}
	}
	return scalekit.OK()
}

// many-imports: every typedef, leaf, augment and deviation of a module with n imports reaches the
// module its prefix names
func checkManyImports(cs scalekit.Case) scalekit.Verdict {
	for _, rev := range []bool{false, true} {
		ms, errs, lerr := scalekit.Load(scale.Imports(cs.N), rev)
		if lerr != nil {
			return scalekit.Bad("load-error", "loads", lerr.Error())
		}
		if len(errs) > 0 {
			return scalekit.Bad("spurious-errors", "no errors", dump.Errors(errs))
		}
		root := yang.ToEntry(ms.Modules["m"])
		for i := 1; i <= cs.N; i++ {
			want := fmt.Sprintf("kind=int8 range=0..%d", i%100+1)
			l := root.Dir[fmt.Sprintf("l%d", i)]
			c := yang.ToEntry(ms.Modules[fmt.Sprintf("lib%d", i)]).Dir["c"]
			if l == nil || l.Type == nil || c == nil || c.Dir["a"] == nil || c.Dir["a"].Type == nil {
				return scalekit.Bad("reference-leaf-missing", fmt.Sprintf("l%d and /lib%d:c/a", i, i), "missing")
			}
			for _, t := range []*yang.YangType{l.Type, c.Dir["a"].Type} {
				if got := fmt.Sprintf("kind=%s range=%s", yang.TypeKindToName[t.Kind], t.Range); got != want {
					return scalekit.Bad("binds-wrong-typedef", fmt.Sprintf("import %d of %d (prefix %s): %s", i, cs.N, scale.ImportPrefix(cs.N, i), want), got)
				}
			}
			if c.Config != yang.TSFalse {
				return scalekit.Bad("deviation-through-prefix-not-applied", fmt.Sprintf("/lib%d:c config false", i), fmt.Sprint(c.Config))
			}
		}
	}
	return scalekit.OK()
}

func checkScale(cs scalekit.Case) scalekit.Verdict {
	if cs.Shape == "many-imports" {
		return checkManyImports(cs)
	}
	if cs.Shape == "many-leaves" || cs.Shape == "counts" || cs.Shape == "long-arguments" {
		return checkMany(cs)
	}
	var f dump.File
	switch cs.Shape {
	case "typedef-chain":
		f, _ = scale.TypedefChain(cs.N, 0, false)
	case "typedef-cycle":
		f, _ = scale.TypedefChain(cs.N, 0, true)
	case "typedef-name-length":
		f, _ = scale.TypedefChain(3, cs.N, false)
	}
	ms, errs, lerr := scalekit.Load([]dump.File{f}, false)
	if lerr != nil {
		return scalekit.Bad("load-error", "loads", lerr.Error())
	}
	if cs.Shape == "typedef-cycle" {
		if len(errs) == 0 {
			return scalekit.Bad("cyclic-chain-not-reported", "an error", "none")
		}
		return scalekit.OK()
	}
	if len(errs) > 0 {
		return scalekit.Bad("spurious-errors", "no errors", dump.Errors(errs))
	}
	l := yang.ToEntry(ms.Modules["m"]).Dir["l"]
	if l == nil || l.Type == nil {
		return scalekit.Bad("leaf-without-type", "l", "nil")
	}
	t := l.Type
	got := fmt.Sprintf("kind=%s range=%s default=%s units=%s", yang.TypeKindToName[t.Kind], t.Range, t.Default, t.Units)
	units := "last"
	if cs.Shape == "typedef-chain" && cs.N == 1 {
		units = ""
	}
	if want := "kind=int16 range=1..500 default=7 units=" + units; got != want {
		return scalekit.Bad("chain-attributes-wrong", want, got)
	}
	return scalekit.OK()
}
