package c09

import (
	"fmt"
	"regexp"
	"strings"

	"github.com/openconfig/goyang/pkg/yang"
	"verif/mc/core"
	"verif/mc/dump"
)

// ---------------------------------------------------------------------------------------------
// union members: every ordered pair and triple of member types from an alphabet built around
// near-equal members (the same enum names with another name-to-value assignment, the same range
// but for one bound, the same typedef name in another module ...). Differential oracle: a member
// inside a union must dump exactly as the same type statement does alone in a leaf, and the union
// must carry every distinct member in written order (identical members may be merged or kept).

const unionPrelude = ` identity i1; identity i2; leaf t1 { type string; } leaf t2 { type string; }
 typedef e1 { type enumeration { enum up; enum down; } } typedef e2 { type enumeration { enum down; enum up; } }
 typedef s1 { type string { length "1..5"; } }
`
const unionModB = `module b { namespace "urn:b"; prefix b; typedef e1 { type enumeration { enum down; enum up; } } typedef s1 { type string { length "1..6"; } } }`

var unionMembers = []string{
	`type int8;`, `type int8 { range "1..5"; }`, `type int8 { range "1..6"; }`, `type uint8;`,
	`type string;`, `type string { pattern "a.*"; }`, `type string { length "1..5"; }`,
	`type enumeration { enum up; enum down; }`, `type enumeration { enum down; enum up; }`,
	`type enumeration { enum up { value 1; } enum down { value 2; } }`, `type enumeration { enum up { value 2; } enum down { value 1; } }`,
	`type m:e1;`, `type e2;`, `type y:e1;`, `type s1;`, `type y:s1;`,
	`type bits { bit x; bit y; }`, `type bits { bit y; bit x; }`,
	`type identityref { base i1; }`, `type identityref { base i2; }`,
	`type leafref { path "/m:t1"; }`, `type leafref { path "/m:t2"; }`,
	`type decimal64 { fraction-digits 1; }`, `type decimal64 { fraction-digits 2; }`,
	`type union { type int8; type string; }`, `type boolean;`,
}

type UnionInput struct {
	Members []int `json:"members"` // indices into the member alphabet
}

func unionText(in UnionInput) string {
	var sb strings.Builder
	sb.WriteString(`module m { namespace "urn:m"; prefix m; import b { prefix y; }` + "\n" + unionPrelude)
	var ms []string
	for _, i := range in.Members {
		ms = append(ms, unionMembers[i])
	}
	u := "type union { " + strings.Join(ms, " ") + " }"
	fmt.Fprintf(&sb, " leaf direct { %s }\n typedef u1 { %s }\n typedef u2 { type u1; }\n", u, u)
	sb.WriteString(" container c { typedef u3 { type u2; } leaf chained { type u3; } leaf-list ll { type m:u1; } }\n")
	sb.WriteString(" grouping g { leaf ing { type u2; } } container d { uses g; }\n}")
	return sb.String()
}

var memberSig []string

// sigs resolves every member of the alphabet alone in a leaf.
func sigs() ([]string, error) {
	if memberSig != nil {
		return memberSig, nil
	}
	var sb strings.Builder
	sb.WriteString(`module m { namespace "urn:m"; prefix m; import b { prefix y; }` + "\n" + unionPrelude)
	for i, m := range unionMembers {
		fmt.Fprintf(&sb, " leaf s%d { %s }\n", i, m)
	}
	sb.WriteString("}")
	ms := yang.NewModules()
	for _, f := range [][2]string{{unionModB, "b.yang"}, {sb.String(), "m.yang"}} {
		if err := ms.Parse(f[0], f[1]); err != nil {
			return nil, err
		}
	}
	if errs := ms.Process(); len(errs) > 0 {
		return nil, fmt.Errorf("%s", dump.Errors(errs))
	}
	root := yang.ToEntry(ms.Modules["m"])
	out := make([]string, len(unionMembers))
	for i := range unionMembers {
		out[i] = sem(dump.Type(root.Dir[fmt.Sprintf("s%d", i)].Type, 0))
	}
	memberSig = out
	return out, nil
}

var typeName = regexp.MustCompile(`\{[^ {}]+ kind=`)

// sem drops the type names from a dump: members that differ in nothing but the name they were
// reached by have the same value space and may be merged.
func sem(s string) string { return typeName.ReplaceAllString(s, "{kind=") }

func distinct(xs []string) []string {
	seen := map[string]bool{}
	var out []string
	for _, x := range xs {
		if !seen[x] {
			seen[x] = true
			out = append(out, x)
		}
	}
	return out
}

func checkUnion(in UnionInput) *fail {
	var f *fail
	pan, pt := core.Guard(func() {
		sg, err := sigs()
		if err != nil {
			f = &fail{"union-alphabet-does-not-resolve", "resolves", err.Error()}
			return
		}
		var want []string
		for _, i := range in.Members {
			want = append(want, sg[i])
		}
		want = distinct(want)
		for _, order := range [][]int{{0, 1}, {1, 0}} {
			files := [][2]string{{unionModB, "b.yang"}, {unionText(in), "m.yang"}}
			ms := yang.NewModules()
			for _, k := range order {
				if err := ms.Parse(files[k][0], files[k][1]); err != nil {
					f = &fail{"load-error", "loads", err.Error()}
					return
				}
			}
			if errs := ms.Process(); len(errs) > 0 {
				f = &fail{"spurious-errors", "no errors", dump.Errors(errs)}
				return
			}
			root := yang.ToEntry(ms.Modules["m"])
			for _, p := range [][]string{{"direct"}, {"c", "chained"}, {"c", "ll"}, {"d", "ing"}} {
				e := lookup(root, p)
				if e == nil || e.Type == nil {
					f = &fail{"leaf-without-type", strings.Join(p, "/"), "nil"}
					return
				}
				if e.Type.Kind != yang.Yunion {
					f = &fail{"union-kind-lost", "union", strings.Join(p, "/") + ": " + dump.Type(e.Type, 0)}
					return
				}
				var got []string
				for _, m := range e.Type.Type {
					got = append(got, sem(dump.Type(m, 0)))
				}
				if strings.Join(distinct(got), "\n") != strings.Join(want, "\n") {
					f = &fail{"union-members-differ", "every distinct member, in written order, as it resolves alone:\n" + strings.Join(want, "\n"), strings.Join(p, "/") + ":\n" + strings.Join(got, "\n")}
					return
				}
			}
		}
	})
	if pan {
		return &fail{"panic@" + core.LastPanicSite, "no panic", pt}
	}
	return f
}

const unionShards = 8

// unionInputs enumerates the pairs and triples of a shard.
func unionInputs(shard int, f func(UnionInput) bool) {
	n := len(unionMembers)
	k := 0
	for a := 0; a < n; a++ {
		for b := 0; b < n; b++ {
			if k++; k%unionShards == shard {
				if !f(UnionInput{[]int{a, b}}) {
					return
				}
			}
			for c := 0; c < n; c++ {
				if k++; k%unionShards == shard {
					if !f(UnionInput{[]int{a, b, c}}) {
						return
					}
				}
			}
		}
	}
}
