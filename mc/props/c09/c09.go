// Package c09 decides C09: type names bind lexically and derived types inherit the whole chain.
//
//	bind/…     typedef t declared at every subset (<= 3) of eleven scopes, each with a different base
//	           type, referenced from ten sites with four spellings; the reference binder of package ir
//	           (nearest enclosing scope, then the module and its submodules; foreign prefix: exactly the
//	           imported module and its submodules) predicts the base type of every reference or an error
//	chain/…    derivation chains of depth three in which every level independently sets or omits units,
//	           default and a pattern; enum, bits, leafref path, decimal64 and union members inherited
//	           through chains; two leaves narrowing one typedef differently (aliasing)
//	errors/…   unknown, unresolvable and cyclic references at every site
package c09

import (
	"encoding/json"
	"fmt"
	"sort"
	"strings"

	"github.com/openconfig/goyang/pkg/yang"
	"verif/mc/core"
	"verif/mc/dump"
	"verif/mc/gen/ir"
	"verif/mc/props/scalekit"
)

type fail struct{ fp, exp, obs string }

// ---------------------------------------------------------------------------------------------
// binding

var scopes = []string{"a-top", "as-top", "container", "list", "grouping", "rpc", "input", "output", "notification", "b-top", "bs-top"}
var scopeType = map[string]string{"a-top": "int8", "as-top": "int16", "container": "int32", "list": "int64", "grouping": "uint8", "rpc": "uint16", "input": "uint32", "output": "uint64", "notification": "string", "b-top": "boolean", "bs-top": "binary"}
var spellings = []string{"t", "a:t", "b:t", "q:t", "c:t"}
var sites = []string{"top", "container", "list", "grouping", "input", "output", "notification", "submodule", "submodule-container", "nested-grouping"}

type BindInput struct {
	Decl     []string `json:"declared_at"`
	Spelling string   `json:"spelling"`
	Sites    []string `json:"reference_sites"`
	// SubAlias: the submodule imports module b under the prefix c (and nothing under b), while its
	// owner imports module c under c: prefixes are scoped per file
	SubAlias bool `json:"submodule_calls_b_c,omitempty"`
	// CHasT: module c declares t too (base empty), so the prefix c resolves in the module (to c) and
	// in its submodule (to b) within one program
	CHasT bool `json:"c_defines_t,omitempty"`
	// SubOwnPfx: the submodule says belongs-to a { prefix self; } and imports module b under the
	// prefix a, which its owner declares for itself: a:t means b's t there
	SubOwnPfx bool `json:"submodule_binds_owner_prefix,omitempty"`
	// Pfx: the prefixes of the whole program spelled by another scheme (ir.Reprefix): dotted, names
	// of other loaded modules, one prefix declared by all modules
	Pfx int `json:"prefix_scheme,omitempty"`
}

// bindWorld builds the program: typedef t at the given scopes, a reference leaf at each given site.
func bindWorld(in BindInput) (*ir.World, map[string][]string) {
	decl := map[string]bool{}
	for _, d := range in.Decl {
		decl[d] = true
	}
	want := map[string]bool{}
	for _, s := range in.Sites {
		want[s] = true
	}
	td := func(scope string) []*ir.S {
		if decl[scope] {
			return []*ir.S{ir.Typedef("t", scopeType[scope])}
		}
		return nil
	}
	ref := func(site, name string) []*ir.S {
		if want[site] {
			return []*ir.S{ir.Leaf(name, in.Spelling)}
		}
		return nil
	}
	cat := func(xs ...[]*ir.S) []*ir.S {
		var out []*ir.S
		for _, x := range xs {
			out = append(out, x...)
		}
		return out
	}
	a := &ir.Mod{Name: "a", Includes: []string{"as"}, Imports: []string{"b", "c"}}
	as := &ir.Mod{Name: "as", Owner: "a", Imports: []string{"b"}}
	if in.SubAlias {
		as = &ir.Mod{Name: "as", Owner: "a", Alias: map[string]string{"c": "b"}}
	}
	if in.SubOwnPfx {
		as = &ir.Mod{Name: "as", Owner: "a", BelongsPfx: "self", Alias: map[string]string{"a": "b"}}
	}
	b := &ir.Mod{Name: "b", Includes: []string{"bs"}}
	bs := &ir.Mod{Name: "bs", Owner: "b"}
	c := &ir.Mod{Name: "c"} // imported but never defines t: a foreign prefix must not fall back to anything else
	if in.CHasT {
		c.Body = []*ir.S{ir.Typedef("t", "empty")}
	}
	li := &ir.S{Kind: "list", Name: "li", Kids: cat(td("list"), ref("list", "r_list"))}
	cont := &ir.S{Kind: "container", Name: "cn", Kids: cat(td("container"), ref("container", "r_cont"), []*ir.S{li})}
	inner := &ir.S{Kind: "grouping", Name: "gi", Kids: ref("nested-grouping", "r_gi")}
	g := &ir.S{Kind: "grouping", Name: "g", Kids: cat(td("grouping"), ref("grouping", "r_g"), []*ir.S{inner, ir.Cont("gic", ir.Uses("gi"))})}
	rpc := &ir.S{Kind: "rpc", Name: "r", Kids: cat(td("rpc"), []*ir.S{
		{Kind: "input", Kids: cat(td("input"), ref("input", "r_in"))},
		{Kind: "output", Kids: cat(td("output"), ref("output", "r_out"))}})}
	notif := &ir.S{Kind: "notification", Name: "n", Kids: cat(td("notification"), ref("notification", "r_n"), []*ir.S{ir.Leaf("pad", "string")})}
	a.Body = cat(td("a-top"), []*ir.S{cont, g, ir.Cont("ug", ir.Uses("g")), rpc, notif}, ref("top", "r_top"), []*ir.S{ir.Leaf("pad", "string")})
	as.Body = cat(td("as-top"), ref("submodule", "r_sub"), []*ir.S{ir.Cont("sc", cat(ref("submodule-container", "r_subc"), []*ir.S{ir.Leaf("spad", "string")})...)})
	b.Body = cat(td("b-top"), []*ir.S{ir.Leaf("bpad", "string")})
	bs.Body = cat(td("bs-top"), []*ir.S{ir.Leaf("bspad", "string")})
	// where each reference leaf ends up in the tree of module a
	where := map[string][]string{
		"top": {"r_top"}, "container": {"cn", "r_cont"}, "list": {"cn", "li", "r_list"}, "grouping": {"ug", "r_g"}, "nested-grouping": {"ug", "gic", "r_gi"},
		"input": {"r", "input", "r_in"}, "output": {"r", "output", "r_out"}, "notification": {"n", "r_n"}, "submodule": {"r_sub"}, "submodule-container": {"sc", "r_subc"},
	}
	return ir.Reprefix(ir.NewWorld(a, as, b, bs, c), in.Pfx), where
}

func subsets(k int) [][]string {
	var out [][]string
	var rec func(start int, cur []string)
	rec = func(start int, cur []string) {
		out = append(out, append([]string{}, cur...))
		if len(cur) == k {
			return
		}
		for i := start; i < len(scopes); i++ {
			rec(i+1, append(cur, scopes[i]))
		}
	}
	rec(0, nil)
	return out
}

// ambiguous: t declared twice in one module-wide name space (module top and one of its submodules)
func ambiguous(decl []string) bool {
	n := map[string]int{}
	for _, d := range decl {
		switch d {
		case "a-top", "as-top":
			n["a"]++
		case "b-top", "bs-top":
			n["b"]++
		}
	}
	return n["a"] > 1 || n["b"] > 1
}

func lookup(e *yang.Entry, path []string) *yang.Entry {
	for _, p := range path {
		if e == nil {
			return nil
		}
		switch {
		case e.RPC != nil && p == "input":
			e = e.RPC.Input
		case e.RPC != nil && p == "output":
			e = e.RPC.Output
		default:
			e = e.Dir[p]
		}
	}
	return e
}

func checkBind(in BindInput) (f *fail, mustErr bool) {
	w, where := bindWorld(in)
	w.Build()
	mustErr = len(w.MustError) > 0
	pan, pt := core.Guard(func() {
		for _, ord := range [][]string{{"a", "as", "b", "bs", "c"}, {"c", "bs", "b", "as", "a"}} {
			ms := yang.NewModules()
			for _, n := range ord {
				if err := ms.Parse(w.Mods[n].Text(), n+".yang"); err != nil {
					f = &fail{"load-error", "loads", err.Error()}
					return
				}
			}
			if ord[0] == "c" {
				// a look at the tree before the processing run (as callers that only want the
				// statements' entries do) must not change what the run then binds
				if m := ms.Modules["a"]; m != nil {
					yang.ToEntry(m)
				}
			}
			errs := ms.Process()
			switch {
			case mustErr && len(errs) == 0:
				f = &fail{"unresolvable-reference-not-reported", "an error: " + strings.Join(w.MustError, "; "), "no error"}
				return
			case mustErr:
				continue
			case len(errs) > 0:
				f = &fail{"spurious-errors", "no errors", dump.Errors(errs)}
				return
			}
			root := yang.ToEntry(ms.Modules["a"])
			for _, s := range in.Sites {
				exp := w.Trees["a"]
				for _, p := range where[s] {
					if exp != nil {
						exp = exp.Kids[p]
					}
				}
				got := lookup(root, where[s])
				if exp == nil || got == nil {
					f = &fail{"reference-leaf-missing", strings.Join(where[s], "/"), fmt.Sprint(exp != nil, got != nil)}
					return
				}
				if got.Type == nil || yang.TypeKindToName[got.Type.Kind] != exp.TypeKind {
					f = &fail{"binds-wrong-typedef", fmt.Sprintf("reference at %s spelled %s: base type %s", s, in.Spelling, exp.TypeKind), dump.Type(got.Type, 0)}
					return
				}
				wantName := exp.TypeName
				if wantName == "" {
					wantName = exp.TypeKind
				}
				if got.Type.Name != wantName {
					f = &fail{"type-name-wrong", wantName, got.Type.Name}
					return
				}
			}
		}
	})
	if pan {
		return &fail{"panic@" + core.LastPanicSite, "no panic", pt}, mustErr
	}
	return f, mustErr
}

// ---------------------------------------------------------------------------------------------
// inheritance along chains

type ChainInput struct {
	Code  int    `json:"code"`  // 9 bits: level i sets units (bit 3i), default (3i+1), pattern (3i+2)
	Extra string `json:"extra"` // what the leaves add: "" | "pattern" | "default" | "units"
	Kind  string `json:"kind"`  // string | enum | bits | leafref | decimal64 | union | identityref
}

func chainText(in ChainInput) string {
	var sb strings.Builder
	sb.WriteString(`module m { namespace "urn:m"; prefix m; import openconfig-extensions { prefix oc-ext; } identity base; identity d { base base; } leaf target { type string; }` + "\n")
	base := "string"
	body := ""
	switch in.Kind {
	case "enum":
		base, body = "enumeration", ` enum a; enum b { value 7; } enum c;`
	case "bits":
		base, body = "bits", ` bit x; bit y { position 5; } bit z;`
	case "leafref":
		base, body = "leafref", ` path "/m:target";`
	case "decimal64":
		base, body = "decimal64", ` fraction-digits 3; range "1.5..2.5";`
	case "union":
		base, body = "union", ` type int8 { range "1..5"; } type string { pattern "u.*"; } type enumeration { enum ue; }`
	case "identityref":
		base, body = "identityref", ` base base;`
	}
	prev := base
	for lvl := 0; lvl < 3; lvl++ {
		bits := in.Code >> (3 * lvl)
		fmt.Fprintf(&sb, " typedef t%d { type %s {", lvl+1, prev)
		if lvl == 0 {
			sb.WriteString(body)
		}
		if bits&4 != 0 && in.Kind == "string" {
			// ... and a POSIX pattern of the very same text (the two lists are kept apart)
			fmt.Fprintf(&sb, ` pattern "p%d.*"; oc-ext:posix-pattern "%s";`, lvl+1, posixFor(lvl+1))
		}
		sb.WriteString(" }")
		if bits&1 != 0 {
			fmt.Fprintf(&sb, " units u%d;", lvl+1)
		}
		if bits&2 != 0 {
			fmt.Fprintf(&sb, " default %s;", defaultFor(in.Kind, lvl+1))
		}
		sb.WriteString(" }\n")
		prev = fmt.Sprintf("t%d", lvl+1)
	}
	leaf := func(name, extra string) {
		fmt.Fprintf(&sb, " leaf %s { type t3", name)
		if extra == "pattern" && in.Kind == "string" {
			fmt.Fprintf(&sb, ` { pattern "%s.*"; oc-ext:posix-pattern "%s"; }`, name, posixFor(4))
		} else {
			sb.WriteString(";")
		}
		if extra == "default" {
			fmt.Fprintf(&sb, " default %s;", defaultFor(in.Kind, 9))
		}
		if extra == "units" {
			sb.WriteString(" units lu;")
		}
		sb.WriteString(" }\n")
	}
	leaf("x", in.Extra)
	leaf("y", in.Extra) // a second leaf narrowing the same typedef (aliasing)
	leaf("plain", "")
	sb.WriteString(" leaf-list ll { type t3; }\n leaf mand { type t3; mandatory true; }\n}")
	return sb.String()
}

// posixFor: the POSIX pattern written at a level has the text of the *pattern* one level up (the two
// lists are kept apart: a POSIX pattern is new even when a pattern of that text is inherited).
func posixFor(lvl int) string {
	if lvl == 1 {
		return "q1.*"
	}
	return fmt.Sprintf("p%d.*", lvl-1)
}

func defaultFor(kind string, lvl int) string {
	switch kind {
	case "enum":
		return []string{"a", "b", "c"}[lvl%3]
	case "bits":
		return []string{"x", "y", "z"}[lvl%3]
	case "decimal64":
		return fmt.Sprintf("1.%d", 5+lvl%5)
	case "union":
		return fmt.Sprintf("%d", 1+lvl%5)
	case "identityref":
		return "d"
	}
	return fmt.Sprintf("p1p2p3x%d", lvl)
}

func checkChain(in ChainInput) *fail {
	var f *fail
	pan, pt := core.Guard(func() {
		ms := yang.NewModules()
		if err := ms.Parse(`module openconfig-extensions { namespace "urn:oc-ext"; prefix oc-ext; extension posix-pattern { argument pattern; } }`, "openconfig-extensions.yang"); err != nil {
			panic(err)
		}
		if err := ms.Parse(chainText(in), "m.yang"); err != nil {
			f = &fail{"load-error", "loads", err.Error()}
			return
		}
		if errs := ms.Process(); len(errs) > 0 {
			f = &fail{"spurious-errors", "no errors", dump.Errors(errs)}
			return
		}
		root := yang.ToEntry(ms.Modules["m"])
		// reference overlay
		units, def, hasDef := "", "", false
		var patterns []string
		for lvl := 0; lvl < 3; lvl++ {
			bits := in.Code >> (3 * lvl)
			if bits&1 != 0 {
				units = fmt.Sprintf("u%d", lvl+1)
			}
			if bits&2 != 0 {
				def, hasDef = defaultFor(in.Kind, lvl+1), true
			}
			if bits&4 != 0 && in.Kind == "string" {
				patterns = append(patterns, fmt.Sprintf("p%d.*", lvl+1))
			}
		}
		kindName := map[string]string{"string": "string", "enum": "enumeration", "bits": "bits", "leafref": "leafref", "decimal64": "decimal64", "union": "union", "identityref": "identityref"}[in.Kind]
		for _, name := range []string{"x", "y", "plain", "ll", "mand"} {
			e := root.Dir[name]
			if e == nil || e.Type == nil {
				f = &fail{"leaf-without-type", name, "nil"}
				return
			}
			t := e.Type
			wantPat := append([]string{}, patterns...)
			if (name == "x" || name == "y") && in.Extra == "pattern" && in.Kind == "string" {
				wantPat = append(wantPat, name+".*")
			}
			var problems []string
			if yang.TypeKindToName[t.Kind] != kindName {
				problems = append(problems, fmt.Sprintf("kind %s want %s", yang.TypeKindToName[t.Kind], kindName))
			}
			if t.Units != units {
				problems = append(problems, fmt.Sprintf("units %q want %q", t.Units, units))
			}
			if t.HasDefault != hasDef || t.Default != def {
				problems = append(problems, fmt.Sprintf("type default %q/%v want %q/%v", t.Default, t.HasDefault, def, hasDef))
			}
			if fmt.Sprint(t.Pattern) != fmt.Sprint(wantPat) {
				problems = append(problems, fmt.Sprintf("patterns %q want %q", t.Pattern, wantPat))
			}
			var wantPosix []string
			for lvl := 0; lvl < 3; lvl++ {
				if (in.Code>>(3*lvl))&4 != 0 && in.Kind == "string" {
					wantPosix = append(wantPosix, posixFor(lvl+1))
				}
			}
			if (name == "x" || name == "y") && in.Extra == "pattern" && in.Kind == "string" {
				wantPosix = append(wantPosix, posixFor(4))
			}
			if fmt.Sprint(t.POSIXPattern) != fmt.Sprint(wantPosix) {
				problems = append(problems, fmt.Sprintf("POSIX patterns %q want %q", t.POSIXPattern, wantPosix))
			}
			// the type's Root - "the root of this type that is the same", which the command's types
			// and tree formats print in the type's place - carries the same chain
			if r := t.Root; r == nil {
				problems = append(problems, "type without a root")
			} else if r.Kind != t.Kind || r.Units != t.Units || r.HasDefault != t.HasDefault || r.Default != t.Default || fmt.Sprint(r.Pattern) != fmt.Sprint(t.Pattern) {
				problems = append(problems, fmt.Sprintf("the type's Root is not the same type: root %s, type %s", dump.Type(r, 0), dump.Type(t, 0)))
			}
			// DefaultValues: the leaf's own default wins, else the type's, unless mandatory / min-elements
			var wantDV []string
			switch {
			case (name == "x" || name == "y") && in.Extra == "default":
				wantDV = []string{defaultFor(in.Kind, 9)}
			case name == "mand":
				wantDV = nil
			case hasDef:
				wantDV = []string{def}
			}
			if fmt.Sprint(e.DefaultValues()) != fmt.Sprint(wantDV) {
				problems = append(problems, fmt.Sprintf("DefaultValues %q want %q", e.DefaultValues(), wantDV))
			}
			switch in.Kind {
			case "enum":
				if t.Enum == nil || fmt.Sprint(t.Enum.NameMap()) != fmt.Sprint(map[string]int64{"a": 0, "b": 7, "c": 8}) {
					problems = append(problems, "enum set not inherited: "+dump.Type(t, 0))
				}
			case "bits":
				if t.Bit == nil || fmt.Sprint(t.Bit.NameMap()) != fmt.Sprint(map[string]int64{"x": 0, "y": 5, "z": 6}) {
					problems = append(problems, "bit set not inherited: "+dump.Type(t, 0))
				}
			case "leafref":
				if t.Path != "/m:target" {
					problems = append(problems, "path not inherited: "+t.Path)
				}
			case "decimal64":
				if t.FractionDigits != 3 || t.Range.String() != "1.500..2.500" {
					problems = append(problems, "fraction-digits/range not inherited: "+dump.Type(t, 0))
				}
			case "union":
				if len(t.Type) != 3 || t.Type[0].Kind != yang.Yint8 || t.Type[0].Range.String() != "1..5" || t.Type[1].Kind != yang.Ystring || fmt.Sprint(t.Type[1].Pattern) != "[u.*]" || t.Type[2].Kind != yang.Yenum {
					problems = append(problems, "union members not inherited: "+dump.Type(t, 0))
				}
			case "identityref":
				if t.IdentityBase == nil || t.IdentityBase.Name != "base" || len(t.IdentityBase.Values) != 1 {
					problems = append(problems, "identity base not inherited: "+dump.Type(t, 0))
				}
			}
			if len(problems) > 0 {
				f = &fail{"chain-attributes-wrong", "nearest definition wins, patterns accumulate", "leaf " + name + ": " + strings.Join(problems, "; ")}
				return
			}
		}
	})
	if pan {
		return &fail{"panic@" + core.LastPanicSite, "no panic", pt}
	}
	return f
}

// ---------------------------------------------------------------------------------------------
// errors

var errorTexts = []string{
	`leaf l { type nosuch; }`, `leaf l { type q:t; }`, `leaf l { type m:nosuch; }`,
	`typedef t { type t; } leaf l { type t; }`, `typedef t1 { type t2; } typedef t2 { type t1; } leaf l { type t1; }`, `typedef t1 { type t2; } typedef t2 { type t3; } typedef t3 { type t1; }`,
	`typedef t { type union { type string; type t; } } leaf l { type t; }`, `leaf l { type union { type string; type nosuch; } }`,
	`typedef t { type nosuch; } leaf l { type string; }`, `typedef t { type nosuch; }`, `container c { typedef t { type nosuch; } }`, `grouping g { leaf l { type nosuch; } }`,
	`grouping g { typedef t { type t; } }`, `rpc r { input { leaf l { type nosuch; } } }`, `rpc r { output { typedef t { type nosuch; } leaf l { type string; } } }`,
	`notification n { leaf l { type nosuch; } }`, `container c { action a { input { leaf l { type nosuch; } } } }`, `augment /m:c { leaf l { type nosuch; } } container c;`,
	`leaf l { type identityref { base nosuch; } }`,
	`leaf-list l { type nosuch; }`, `choice ch { leaf l { type nosuch; } }`, `list li { key k; leaf k { type nosuch; } }`,
}

// builtinNames: the names of the built-in types. Behind a prefix - the module's own, that of an
// imported module, an undeclared one - such a name is a reference to a typedef that cannot exist
// (no typedef may take a built-in name): an error, never the built-in type.
var builtinNames = strings.Fields("binary bits boolean decimal64 empty enumeration identityref instance-identifier int8 int16 int32 int64 leafref string uint8 uint16 uint32 uint64 union")

func init() {
	for _, n := range append(append([]string{}, builtinNames...), "nosuch", "bt2") {
		for _, p := range []string{"m", "b", "q"} {
			if n == "nosuch" && p == "m" {
				continue
			}
			ref := p + ":" + n
			body := ""
			switch n {
			case "enumeration":
				body = " { enum e; }"
			case "bits":
				body = " { bit e; }"
			case "union":
				body = " { type string; }"
			case "decimal64":
				body = " { fraction-digits 2; }"
			case "identityref":
				body = " { base i; }"
			case "leafref":
				body = " { path \"/m:pad\"; }"
			}
			t := "type " + ref + body
			if body == "" {
				t += ";"
			}
			errorTexts = append(errorTexts, "leaf l { "+t+" }", "typedef t { "+t+" } leaf l { type t; }", "leaf l { type union { type int8; "+t+" } }", "grouping g { leaf l { "+t+" } } container c { uses g; }", "leaf-list l { "+t+" }")
		}
	}
}

type ErrInput struct {
	Body string `json:"body"`
	Sub  bool   `json:"in_submodule"`
}

var errB = dump.File{Name: "b.yang", Text: `module b { namespace "urn:b"; prefix b; typedef bt { type int8; } container bc { typedef bt2 { type int8; } } }`}

func errFiles(in ErrInput) []dump.File {
	if in.Sub {
		return []dump.File{{Name: "m.yang", Text: `module m { namespace "urn:m"; prefix m; include s; identity i; leaf pad { type string; } }`},
			{Name: "s.yang", Text: `submodule s { belongs-to m { prefix m; } import b { prefix b; } ` + in.Body + ` }`}, errB}
	}
	return []dump.File{{Name: "m.yang", Text: `module m { namespace "urn:m"; prefix m; import b { prefix b; } identity i; leaf pad { type string; } ` + in.Body + ` }`}, errB}
}

func checkErr(in ErrInput) *fail {
	var f *fail
	pan, pt := core.Guard(func() {
		for twice := 0; twice < 2; twice++ {
			r := dump.Run(errFiles(in), dump.Options{})
			for _, e := range r.LoadErrs {
				if e != "" {
					return // rejected at load is a report as well
				}
			}
			if len(r.ProcErrs) == 0 {
				f = &fail{"bad-type-reference-not-reported", "an error", "Process returned no error"}
				return
			}
		}
	})
	if pan {
		return &fail{"panic@" + core.LastPanicSite, "no panic", pt}
	}
	return f
}

// ---------------------------------------------------------------------------------------------

type Input struct {
	Bind  *BindInput     `json:"bind,omitempty"`
	Chain *ChainInput    `json:"chain,omitempty"`
	Err   *ErrInput      `json:"error,omitempty"`
	Union *UnionInput    `json:"union,omitempty"`
	Same  *SameNameInput `json:"same_name,omitempty"`
	Reb   *RebindInput   `json:"rebind,omitempty"`
	Scale *scalekit.Case `json:"scale,omitempty"`
}

const bindShards = 16

func shards(tier string) []string {
	var out []string
	for i := 0; i < bindShards; i++ {
		out = append(out, fmt.Sprintf("bind/%d", i))
	}
	for _, k := range []string{"string", "enum", "bits", "leafref", "decimal64", "union", "identityref"} {
		out = append(out, "chain/"+k)
	}
	for i := 0; i < unionShards; i++ {
		out = append(out, fmt.Sprintf("union/%d", i))
	}
	out = append(out, scalekit.ShardNames()...)
	return append(out, "errors", "samename", "rebind")
}

func run(c *core.Ctx) {
	c.Res.Bound = "bind: typedef t at every subset of <= 3 (thorough 4) of 11 scopes x 5 spellings (bare, own prefix, foreign prefix, unknown prefix, prefix of a module without t) x 10 reference sites (all sites in one program when all resolve, one program per site otherwise), 4 prefix regimes and the plain program under 3 other prefix spellings - dotted prefixes, prefixes that are the names of other loaded modules, one prefix declared by all modules - (the submodule importing b under the prefix its owner declares for itself, with a belongs-to prefix of its own; same prefixes in module and submodule; the submodule calls b by the prefix its owner gives c; the same with c defining t too, so one prefix resolves to two modules within one program), 2 load orders; chain: 3-level chains, 2^9 set/omit patterns of units/default/pattern x 4 leaf additions for strings, 2^6 for enum, bits, leafref, decimal64, union, identityref bases; scale: typedef chains and cycles of every length 1..70, 127..129, 255..257, names of every length 4..300 bytes; same-name: 2 programs whose chains pass through different typedefs of one name (across imports, by shadowing), 4 load orders, 12 fresh sets each; union: every ordered pair and triple of 26 member types (near-equal enums, ranges, typedefs of the same name in two modules, bits, identityrefs, leafrefs, decimal64s, a nested union) read directly, through a typedef chain, in a leaf-list and through a grouping, 2 load orders; errors: 22 unknown/unresolvable/cyclic references, in a module and in a submodule, processed twice"
	report := func(caseNo int64, in Input, f *fail) {
		c.Outcome("FAIL:" + f.fp)
		c.Fail(caseNo, nil, f.fp, in, f.exp, f.obs)
	}
	parts := strings.Split(c.Shard, "/")
	switch parts[0] {
	case "scale":
		scalekit.Run(c, c.Shard, scaleCases(c.Tier), checkScale, func(cs scalekit.Case) any { return Input{Scale: &cs} })
	case "bind":
		var shard int
		fmt.Sscanf(parts[1], "%d", &shard)
		i := 0
		maxDecl := 3
		if c.Tier == "thorough" {
			maxDecl = 4
		}
		for _, decl := range subsets(maxDecl) {
			for _, sp := range spellings {
				i++
				if (i-1)%bindShards != shard || c.Expired() {
					continue
				}
				if ambiguous(decl) {
					c.Exclude()
					c.Outcome("excluded:t-declared-twice-in-one-module-namespace")
					continue
				}
				for regime := 0; regime < 4+ir.PrefixSchemes-1; regime++ {
					alias, cHasT, subOwn := regime == 1 || regime == 2, regime == 2, regime == 3
					pfx := 0
					if regime >= 4 {
						// the plain program with its prefixes respelled; quick takes the schemes in turn
						pfx = regime - 3
						if c.Tier != "thorough" && pfx != 1+i%(ir.PrefixSchemes-1) {
							continue
						}
					}
					if subOwn && sp != "a:t" && sp != "t" {
						continue
					}
					if alias && sp != "b:t" && sp != "c:t" {
						continue
					}
					if cHasT && sp != "c:t" {
						continue
					}
					// does every site resolve?
					all := BindInput{Decl: decl, Spelling: sp, Sites: sites, SubAlias: alias, CHasT: cHasT, SubOwnPfx: subOwn, Pfx: pfx}
					w, _ := bindWorld(all)
					w.Build()
					var progs []BindInput
					if len(w.MustError) == 0 {
						progs = []BindInput{all}
					} else {
						for _, s := range sites {
							progs = append(progs, BindInput{Decl: decl, Spelling: sp, Sites: []string{s}, SubAlias: alias, CHasT: cHasT, SubOwnPfx: subOwn, Pfx: pfx})
						}
					}
					for _, p := range progs {
						p := p
						caseNo, run := c.Begin()
						if c.Skip(caseNo, run, Input{Bind: &p}) {
							continue
						}
						c.Exec()
						c.Validate()
						c.Edge(int64(2 * len(p.Sites)))
						c.StateN(1)
						c.NontrivialN(1)
						f, mustErr := checkBind(p)
						switch {
						case f != nil:
							report(caseNo, Input{Bind: &p}, f)
						case mustErr:
							c.Outcome("unresolvable-reported")
						default:
							c.Outcome("bound-as-reference")
							if i%211 == 5 {
								b, _ := json.Marshal(Input{Bind: &p})
								c.Sample(string(b))
							}
						}
					}
				}
			}
		}
	case "chain":
		kind := parts[1]
		max, extras := 512, []string{"", "pattern", "default", "units"}
		if kind != "string" {
			max, extras = 64, []string{"", "default"}
		}
		for code := 0; code < max; code++ {
			cc := code
			if kind != "string" { // no patterns: spread 6 bits over units/default of the three levels
				cc = (code & 3) | (code >> 2 & 3 << 3) | (code >> 4 & 3 << 6)
			}
			for _, ex := range extras {
				if c.Expired() {
					return
				}
				in := ChainInput{Code: cc, Extra: ex, Kind: kind}
				caseNo, run := c.Begin()
				if c.Skip(caseNo, run, Input{Chain: &in}) {
					continue
				}
				c.Exec()
				c.Validate()
				c.Edge(5)
				c.StateN(1)
				c.NontrivialN(1)
				if f := checkChain(in); f != nil {
					report(caseNo, Input{Chain: &in}, f)
				} else {
					c.Outcome("chain-inherited")
					if code == 341 {
						b, _ := json.Marshal(Input{Chain: &in})
						c.Sample(string(b))
					}
				}
			}
		}
	case "union":
		var shard int
		fmt.Sscanf(parts[1], "%d", &shard)
		unionInputs(shard, func(in UnionInput) bool {
			if c.Expired() {
				return false
			}
			caseNo, run := c.Begin()
			if c.Skip(caseNo, run, Input{Union: &in}) {
				return true
			}
			c.Exec()
			c.Validate()
			c.Edge(int64(len(in.Members)))
			c.StateN(1)
			c.NontrivialN(1)
			if f := checkUnion(in); f != nil {
				report(caseNo, Input{Union: &in}, f)
			} else {
				c.Outcome("union-members-carried")
				if caseNo%2000 == 5 {
					b, _ := json.Marshal(Input{Union: &in})
					c.Sample(string(b))
				}
			}
			return true
		})
	case "rebind":
		for _, in := range rebindInputs() {
			in := in
			caseNo, run := c.Begin()
			if c.Skip(caseNo, run, Input{Reb: &in}) {
				continue
			}
			c.Exec()
			c.Validate()
			c.Edge(2)
			c.StateN(1)
			c.NontrivialN(1)
			if f := checkRebind(in); f != nil {
				report(caseNo, Input{Reb: &in}, f)
			} else {
				c.Outcome("bound-to-the-revision-the-import-denotes-now")
			}
		}
	case "samename":
		for v := range sameNameFiles {
			for o := 0; o < 4; o++ {
				in := SameNameInput{Variant: v, Order: o}
				caseNo, run := c.Begin()
				if c.Skip(caseNo, run, Input{Same: &in}) {
					continue
				}
				c.Exec()
				c.Validate()
				c.Edge(12)
				c.StateN(1)
				c.NontrivialN(1)
				if f := checkSameName(in); f != nil {
					report(caseNo, Input{Same: &in}, f)
				} else {
					c.Outcome("same-named-chain-inherited")
				}
			}
		}
	case "errors":
		for _, body := range errorTexts {
			for _, sub := range []bool{false, true} {
				if sub && strings.Contains(body, "augment") {
					continue
				}
				in := ErrInput{Body: body, Sub: sub}
				caseNo, run := c.Begin()
				if c.Skip(caseNo, run, Input{Err: &in}) {
					continue
				}
				c.Exec()
				c.Validate()
				c.Edge(2)
				c.StateN(1)
				c.NontrivialN(1)
				if f := checkErr(in); f != nil {
					report(caseNo, Input{Err: &in}, f)
				} else {
					c.Outcome("bad-reference-reported")
				}
			}
		}
	}
}

func replay(tier string, raw json.RawMessage) (bool, string, string) {
	var in Input
	if err := json.Unmarshal(raw, &in); err != nil {
		return false, "", err.Error()
	}
	var f *fail
	text := ""
	switch {
	case in.Bind != nil:
		f, _ = checkBind(*in.Bind)
		w, _ := bindWorld(*in.Bind)
		var names []string
		for n := range w.Mods {
			names = append(names, n)
		}
		sort.Strings(names)
		for _, n := range names {
			text += w.Mods[n].Text() + "\n"
		}
	case in.Chain != nil:
		f = checkChain(*in.Chain)
		text = chainText(*in.Chain)
	case in.Scale != nil:
		v := checkScale(*in.Scale)
		return v.Fp != "", "scale:" + v.Fp, fmt.Sprintf("expected %s\nobserved %s", v.Exp, v.Obs)
	case in.Reb != nil:
		f = checkRebind(*in.Reb)
		text = rebindText(*in.Reb)
	case in.Same != nil:
		f = checkSameName(*in.Same)
		text = sameNameText(*in.Same)
	case in.Union != nil:
		f = checkUnion(*in.Union)
		text = unionText(*in.Union)
	case in.Err != nil:
		f = checkErr(*in.Err)
		text = errFiles(*in.Err)[len(errFiles(*in.Err))-1].Text
	}
	if f == nil {
		return false, "", "as the reference"
	}
	return true, f.fp, fmt.Sprintf("expected %s\nobserved %s\n%s", f.exp, f.obs, text)
}

func init() {
	core.Register(&core.Prop{
		ID: "C09", Variant: "plain", Shards: shards, Run: run, Replay: replay,
		Rule:        "bind: a typedef named t is declared at every subset of at most three of eleven scopes (top of module a, top of its submodule, container, list inside it, grouping, rpc, its input, its output, notification, top of imported module b, top of b's submodule), each with a different built-in base so the winner is observable; reference leaves at ten sites (module top, container, list, grouping and nested grouping read through uses, rpc input and output, notification, submodule top and a container in it) spelled t, a:t, b:t, with an unknown prefix, and with the prefix of an imported module that has no t; the reference binder (package ir) predicts the base type or an error; chain: three-level typedef chains in which every level independently sets units, default and a pattern, read at a leaf that adds its own pattern/default/units, at a second leaf doing the same with a different pattern, at a plain leaf, a leaf-list and a mandatory leaf: kind, units, default, HasDefault, accumulated patterns in order, DefaultValues(), and for other bases the enum/bit sets, leafref path, fraction-digits and range, union members, identity base; union: every ordered pair and triple of 26 member type statements chosen to be nearly equal (same enum names with another value assignment, ranges differing in one bound, same-named typedefs of two modules, bits in two orders, two identity bases, two leafref paths, two fraction-digits, a nested union) - each member must dump inside the union exactly as the same statement resolves alone in a leaf, every distinct member must be carried in written order (identical members may be merged), directly, through a three-level typedef chain ending in a container scope, in a leaf-list and through a grouping; errors: unknown, unresolvable and cyclic references at every kind of site, in a module and in a submodule, processed twice",
		Assumptions: []string{"programs declaring t twice in one module-wide name space (module top and its submodule top) are invalid and excluded", "re-listing enum/bit members in a derived type is outside the claim"},
	})
}
