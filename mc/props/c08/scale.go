package c08

import (
	"fmt"
	"sort"
	"strings"

	"github.com/openconfig/goyang/pkg/yang"
	"verif/mc/dump"
	"verif/mc/gen/scale"
	"verif/mc/props/scalekit"
)

// scale: deviations whose target lies n containers deep (replace default on the leaf, replace
// max-elements on the list, not-supported on the other leaf), for every n up to the bound: the
// targets change, nothing else does.

func scaleCases(tier string) []scalekit.Case {
	max := 40
	if tier == "thorough" {
		max = 70
	}
	var out []scalekit.Case
	for n := 0; n <= max; n++ {
		for v := 0; v < 3; v++ {
			out = append(out, scalekit.Case{Shape: "deep-target", N: n, V: v})
		}
	}
	for _, n := range scale.Sizes(40, 257) {
		out = append(out, scalekit.Case{Shape: "many-deviations", N: n})
	}
	for _, n := range scale.Sizes(40, 129) {
		out = append(out, scalekit.Case{Shape: "many-imports", N: n})
	}
	// deviations through an import that pins one of several loaded revisions of the target module
	for v := 0; v < len(pinnedDevs)*2*3; v++ {
		out = append(out, scalekit.Case{Shape: "pinned-revision", N: 1, V: v})
	}
	return out
}

var pinnedDevs = [][2]string{
	{"l", "deviate not-supported;"}, {"l", "deviate replace { default e; }"}, {"l", "deviate delete { default d; }"},
	{"c/x", "deviate not-supported;"}, {"c/x", "deviate replace { type int8; }"}, {"c/x", "deviate add { default q; }"},
	{"ll", "deviate replace { max-elements 3; }"}, {"ll", "deviate add { min-elements 1; }"},
	{"c", "deviate not-supported;"}, {"c", "deviate replace { config false; }"},
}

// checkPinned: revisions 2019, 2020 and 2021 of module a are loaded, the deviating module imports a
// with the revision-date V selects (or without one: the latest); the tree of that revision changes
// at the target and below it, the trees of the other revisions do not change at all.
func checkPinned(cs scalekit.Case) scalekit.Verdict {
	d := pinnedDevs[cs.V%len(pinnedDevs)]
	reverse := cs.V/len(pinnedDevs)%2 == 1
	pin := []string{"2019-01-01", "2020-01-01", ""}[cs.V/len(pinnedDevs)/2%3]
	var files []dump.File
	revs := []string{"2019-01-01", "2020-01-01", "2021-01-01"}
	for i, r := range revs {
		files = append(files, dump.File{Name: "a@" + r + ".yang", Text: fmt.Sprintf(`module a { namespace "urn:a"; prefix a; revision %s; leaf l { type string; default d; units u; } container c { leaf x { type string; } } leaf-list ll { type string; max-elements 5; } leaf r%d { type string; } }`, r, i)})
	}
	stmt := ""
	if pin != "" {
		stmt = " revision-date " + pin + ";"
	}
	devFile := dump.File{Name: "dev.yang", Text: fmt.Sprintf(`module dev { namespace "urn:dev"; prefix dev; import a { prefix a;%s } deviation /a:%s { %s } }`, stmt, strings.ReplaceAll(d[0], "/", "/a:"), d[1])}
	flatOf := func(ms *yang.Modules, key string) map[string]string { return flatTree(yang.ToEntry(ms.Modules[key])) }
	base, errs, lerr := scalekit.Load(files, reverse)
	if lerr != nil || len(errs) > 0 {
		return scalekit.Bad("load-error", "three revisions load", fmt.Sprint(lerr, errs))
	}
	ms, errs, lerr := scalekit.Load(append(append([]dump.File{}, files...), devFile), reverse)
	if lerr != nil {
		return scalekit.Bad("load-error", "loads", lerr.Error())
	}
	if len(errs) > 0 {
		return scalekit.Bad("applicable-deviation-reported", "no errors", dump.Errors(errs))
	}
	target := pin
	if target == "" {
		target = "2021-01-01"
	}
	for _, key := range []string{"a@2019-01-01", "a@2020-01-01", "a@2021-01-01", "a"} {
		before, after := flatOf(base, key), flatOf(ms, key)
		hit := key == "a@"+target || (key == "a" && target == "2021-01-01")
		changed := false
		for p, l := range before {
			under := p == "/"+d[0] || strings.HasPrefix(p, "/"+d[0]+"/")
			if after[p] != l {
				if !hit || !under {
					return scalekit.Bad("deviation-applied-to-another-revision-or-node", fmt.Sprintf("%s%s unchanged (import pins %q)", key, p, pin), after[p])
				}
				changed = true
			}
		}
		for p := range after {
			if _, ok := before[p]; !ok {
				return scalekit.Bad("deviation-applied-to-another-revision-or-node", "no new node", key+p)
			}
		}
		if hit && !changed {
			return scalekit.Bad("deviation-not-applied-to-the-revision-the-import-selects", fmt.Sprintf("%s/%s changed by %s", key, d[0], d[1]), "unchanged")
		}
	}
	return scalekit.OK()
}

func checkManyDeviations(cs scalekit.Case) scalekit.Verdict {
	files := scale.ManyDeviations(cs.N)
	ms, errs, lerr := scalekit.Load(files, false)
	if lerr != nil {
		return scalekit.Bad("load-error", "loads", lerr.Error())
	}
	if len(errs) > 0 {
		return scalekit.Bad("applicable-deviation-reported", "no errors", dump.Errors(errs))
	}
	top := yang.ToEntry(ms.Modules["b"]).Dir["top"]
	for i := 0; i < cs.N; i++ {
		l, ll, z := top.Dir[fmt.Sprintf("l%d", i)], top.Dir[fmt.Sprintf("ll%d", i)], top.Dir[fmt.Sprintf("z%d", i)]
		if l == nil || fmt.Sprint(l.Default) != fmt.Sprintf("[d%d]", i) {
			return scalekit.Bad("deviation-misplaced", fmt.Sprintf("l%d default d%d", i, i), fmt.Sprint(l != nil && true, l))
		}
		wantMax := uint64(18446744073709551615)
		if i%2 == 0 {
			wantMax = uint64(i + 1)
		}
		if ll == nil || ll.ListAttr == nil || ll.ListAttr.MaxElements != wantMax {
			return scalekit.Bad("deviation-misplaced", fmt.Sprintf("ll%d max-elements %d", i, wantMax), fmt.Sprint(ll))
		}
		if (z == nil) != (i%3 == 0) {
			return scalekit.Bad("deviation-misplaced", fmt.Sprintf("z%d removed: %v", i, i%3 == 0), fmt.Sprint(z == nil))
		}
	}
	return scalekit.OK()
}

func flatTree(e *yang.Entry) map[string]string {
	out := map[string]string{}
	var walk func(e *yang.Entry, p string)
	walk = func(e *yang.Entry, p string) {
		var sb strings.Builder
		dump.Entry(&sb, e, "", dump.Options{}, map[*yang.Entry]bool{})
		line, _, _ := strings.Cut(sb.String(), "\n")
		out[p] = line
		for k, c := range e.Dir {
			walk(c, p+"/"+k)
		}
	}
	walk(e, "")
	return out
}

func checkScale(cs scalekit.Case) scalekit.Verdict {
	if cs.Shape == "pinned-revision" {
		return checkPinned(cs)
	}
	if cs.Shape == "many-imports" {
		// a deviating module with n imports (prefixes that sort unlike the module names) and one
		// deviation through each prefix
		ms, errs, lerr := scalekit.Load(scale.Imports(cs.N), false)
		if lerr != nil {
			return scalekit.Bad("load-error", "loads", lerr.Error())
		}
		if len(errs) > 0 {
			return scalekit.Bad("applicable-deviation-reported", "no errors", dump.Errors(errs))
		}
		for i := 1; i <= cs.N; i++ {
			c := yang.ToEntry(ms.Modules[fmt.Sprintf("lib%d", i)]).Dir["c"]
			if c == nil || c.Config != yang.TSFalse {
				return scalekit.Bad("deviation-misplaced", fmt.Sprintf("/lib%d:c config false (prefix %s)", i, scale.ImportPrefix(cs.N, i)), "not applied")
			}
		}
		return scalekit.OK()
	}
	if cs.Shape == "many-deviations" {
		return checkManyDeviations(cs)
	}
	tp := scale.DeepPath("b", cs.N)
	body := []string{
		`deviation ` + tp + `/b:x { deviate replace { default changed; } }`,
		`deviation ` + tp + `/b:li { deviate replace { max-elements 3; } }`,
		`deviation ` + tp + `/b:other { deviate not-supported; }`,
	}[cs.V]
	dev := dump.File{Name: "dev.yang", Text: `module dev { yang-version 1.1; namespace "urn:dev"; prefix dev; import b { prefix b; } ` + body + ` }`}
	base, errs0, lerr := scalekit.Load([]dump.File{scale.Deep(cs.N)}, false)
	if lerr != nil || len(errs0) > 0 {
		return scalekit.Bad("base-does-not-process", "clean", fmt.Sprint(lerr, errs0))
	}
	before := flatTree(yang.ToEntry(base.Modules["b"]))
	ms, errs, lerr := scalekit.Load([]dump.File{scale.Deep(cs.N), dev}, false)
	if lerr != nil {
		return scalekit.Bad("load-error", "loads", lerr.Error())
	}
	if len(errs) > 0 {
		return scalekit.Bad("applicable-deviation-reported", "no errors", dump.Errors(errs))
	}
	after := flatTree(yang.ToEntry(ms.Modules["b"]))
	tpath := "/" + strings.Join(scale.DeepNames(cs.N), "/") + "/" + []string{"x", "li", "other"}[cs.V]
	var diffs []string
	for p, l := range before {
		g, ok := after[p]
		switch {
		case p == tpath && cs.V == 2:
			if ok {
				diffs = append(diffs, p+": not removed")
			}
		case p == tpath:
			if !ok || g == l {
				diffs = append(diffs, p+": unchanged or missing: "+g)
			} else if cs.V == 0 && !strings.Contains(g, "changed") {
				diffs = append(diffs, p+": default not replaced: "+g)
			}
		case !ok:
			diffs = append(diffs, p+": vanished although no deviation targets it")
		case g != l:
			diffs = append(diffs, p+": changed although no deviation targets it: "+g)
		}
	}
	for p := range after {
		if _, ok := before[p]; !ok {
			diffs = append(diffs, p+": appeared")
		}
	}
	if len(diffs) > 0 {
		sort.Strings(diffs)
		return scalekit.Bad("deviation-misplaced", "only "+tpath+" changes", strings.Join(diffs, "\n"))
	}
	if cs.V == 1 {
		li := scalekit.Down(yang.ToEntry(ms.Modules["b"]), append(scale.DeepNames(cs.N), "li")...)
		if li == nil || li.ListAttr == nil || li.ListAttr.MaxElements != 3 {
			return scalekit.Bad("deviation-misplaced", "max-elements 3 on "+tpath, "not there")
		}
	}
	return scalekit.OK()
}
