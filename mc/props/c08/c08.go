// Package c08 decides C08: deviations change exactly what they name, in written order, or are
// reported. The DEV family (target x one or two deviate statements in order, each with one or two
// properties, in one or two deviating modules, default options and ignore-not-supported) is
// enumerated; the reference applies RFC 7950 7.20.3 in written order as a delta on the tree the
// library builds without the deviating modules, and every node no deviation targets must dump
// exactly as in that un-deviated tree.
package c08

import (
	"encoding/json"
	"fmt"
	"math"
	"sort"
	"strings"

	"github.com/openconfig/goyang/pkg/yang"
	"verif/mc/core"
	"verif/mc/dump"
	"verif/mc/props/scalekit"
)

const baseText = `module a { namespace "urn:a"; prefix a;
 grouping g { leaf gl { type string; default gd; } leaf-list gll { type string; default "1"; default "2"; default "3"; } list gli { key k; leaf k { type string; } max-elements 9; } }
 leaf l { type string; default d; units u; } leaf n { type string; } leaf m { type string; mandatory true; }
 leaf-list ll { type string; min-elements 1; max-elements 5; } list li { key k; leaf k { type string; } }
 leaf-list ul { type string { length "1..4"; pattern "a+"; } ordered-by user; max-elements 5; description "user ordered"; } list uli { key k; leaf k { type string; } ordered-by user; min-elements 1; unique "v"; leaf v { type int8 { range "1..5"; } units vu; } }
 container c { config false; leaf x { type string; } container cc { leaf y { type int8; default 4; } } }
 choice ch { default s1; leaf s1 { type string; } case c2 { leaf s2 { type string; } } }
 anydata ad;
 container u1 { uses g; } container u2 { uses g; }
 rpc r { input { leaf i { type string; default id; } } }
 container input { leaf output { type string; default od; } leaf config { type string; } }
 typedef td { type int8; default 50; } typedef ts { type string; default none; }
 leaf lt { type td; } leaf-list llt { type ts; }
}`

// a second module grafts nodes into a: deviations of augmented nodes
const augText = `module g { namespace "urn:g"; prefix g; import a { prefix a; }
 augment /a:c { leaf ay { type string; default ad; units au; } leaf-list all { type string; max-elements 4; } }
 augment /a:u1 { container ac { leaf az { type int8; } } }
}`

var baseFiles = []dump.File{{Name: "a.yang", Text: baseText}, {Name: "g.yang", Text: augText}}

var targets = []string{"l", "n", "m", "ll", "li", "c", "c/x", "c/cc/y", "ch", "ad", "u1/gl", "u1/gll", "u1/gli", "r/input/i", "r/input", "nope", "c/nope", "c/g:ay", "c/g:all", "u1/g:ac/g:az", "ul", "uli", "uli/v",
	// nodes named like statement keywords: a container called input with a leaf called output, outside any rpc
	"input", "input/output",
	// a leaf and a leaf-list whose default comes from their type's typedef
	"lt", "llt"}

type prop struct{ K, V string }
type deviate struct {
	Kind  string
	Props []prop
}

func (d deviate) text() string {
	if d.Kind == "not-supported" {
		return "deviate not-supported;"
	}
	var sb strings.Builder
	fmt.Fprintf(&sb, "deviate %s {", d.Kind)
	for _, p := range d.Props {
		fmt.Fprintf(&sb, " %s %s;", p.K, p.V)
	}
	sb.WriteString(" }")
	return sb.String()
}

// Deviation is one deviation statement; Mod says which deviating module writes it.
type Deviation struct {
	Mod    string    `json:"module"`
	Target string    `json:"target"`
	Seq    []deviate `json:"deviates"`
}

type Input struct {
	Devs   []Deviation `json:"deviations"`
	Ignore bool        `json:"ignore_not_supported"`
	// Rev: every deviating module carries a revision (it is then registered under two keys), and
	// next to each one a module is loaded whose name extends the deviating module's name with "-x"
	// (it sorts between those two keys)
	Rev   bool           `json:"revisions_and_neighbours,omitempty"`
	Scale *scalekit.Case `json:"scale,omitempty"`
}

// path spells a target as an absolute schema path: steps are in module a unless they say g:.
func path(t string) string {
	var sb strings.Builder
	for _, st := range strings.Split(t, "/") {
		if strings.Contains(st, ":") {
			sb.WriteString("/" + st)
		} else {
			sb.WriteString("/a:" + st)
		}
	}
	return sb.String()
}

func (in Input) files() []dump.File {
	fs := append([]dump.File{}, baseFiles...)
	byMod := map[string][]Deviation{}
	var mods []string
	for _, d := range in.Devs {
		if _, ok := byMod[d.Mod]; !ok {
			mods = append(mods, d.Mod)
		}
		byMod[d.Mod] = append(byMod[d.Mod], d)
	}
	for _, m := range mods {
		var sb strings.Builder
		fmt.Fprintf(&sb, `module %s { namespace "urn:%s"; prefix %s; import a { prefix a; } import g { prefix g; }`, m, m, m)
		if in.Rev {
			sb.WriteString(" revision 2024-01-01;")
			fs = append(fs, dump.File{Name: m + "-x.yang", Text: fmt.Sprintf(`module %s-x { namespace "urn:%s-x"; prefix %sx; }`, m, m, m)})
		}
		for _, d := range byMod[m] {
			fmt.Fprintf(&sb, " deviation %s {", path(d.Target))
			for _, x := range d.Seq {
				sb.WriteString(" " + x.text())
			}
			sb.WriteString(" }")
		}
		sb.WriteString(" }")
		fs = append(fs, dump.File{Name: m + ".yang", Text: sb.String()})
	}
	return fs
}

// node is the observable state of a target the statement speaks about.
type node struct {
	kind      string // source keyword
	cfg, mand string
	def       []string
	units     string
	typ       string
	min, max  uint64
	gone      bool
	eff       []string // the default in effect (DefaultValues): the node's own, else the type's
}

// typedefDefault: the defaults the base module's typedefs give, by the names a deviation spells them.
var typedefDefault = map[string]string{"td": "50", "a:td": "50", "ts": "none", "a:ts": "none"}

// effective: the node's own default wins; else the default of its type's typedef, unless the node
// is mandatory or must have elements.
func effective(n *node) []string {
	if len(n.def) > 0 {
		return n.def
	}
	if (n.kind == "leaf" && n.mand == "true") || (n.kind == "leaf-list" && n.min > 0) {
		return nil
	}
	if d, ok := typedefDefault[n.typ]; ok && (n.kind == "leaf" || n.kind == "leaf-list") {
		return []string{d}
	}
	return nil
}

func tri(t yang.TriState) string {
	switch t {
	case yang.TSTrue:
		return "true"
	case yang.TSFalse:
		return "false"
	}
	return ""
}

func observe(e *yang.Entry) *node {
	n := &node{cfg: tri(e.Config), mand: tri(e.Mandatory), units: e.Units, def: append([]string{}, e.Default...), max: math.MaxUint64}
	if e.Node != nil && e.Node.Statement() != nil {
		n.kind = e.Node.Statement().Keyword
	}
	if e.Type != nil {
		n.typ = e.Type.Name
	}
	if e.ListAttr != nil {
		n.min, n.max = e.ListAttr.MinElements, e.ListAttr.MaxElements
	}
	if n.kind == "leaf" || n.kind == "leaf-list" {
		n.eff = e.DefaultValues()
	}
	return n
}

// apply: RFC 7950 7.20.3 for the properties the statement lists. dc collects attributes about which
// the statement is silent for this combination; the return value says an error must be reported.
func apply(n *node, d deviate, dc map[string]bool) (mustErr bool) {
	isList := n.kind == "list" || n.kind == "leaf-list"
	isLeafish := n.kind == "leaf" || n.kind == "leaf-list"
	switch d.Kind {
	case "not-supported":
		n.gone = true
		return false
	case "add", "replace", "delete":
	default:
		return true // unknown deviate kind
	}
	for _, p := range d.Props {
		switch p.K {
		case "config":
			switch d.Kind {
			case "add":
				if n.cfg != "" {
					dc["cfg"], dc["err"] = true, true
				}
				n.cfg = p.V
			case "replace":
				if n.cfg == "" {
					dc["cfg"], dc["err"] = true, true
				}
				n.cfg = p.V
			case "delete":
				dc["cfg"], dc["err"] = true, true
			}
		case "mandatory":
			dc["eff"] = true // whether a deviated mandatory silences the type's default: the statement does not say
			if n.kind != "leaf" && n.kind != "choice" && n.kind != "anydata" {
				dc["mand"], dc["err"] = true, true
			}
			switch d.Kind {
			case "add":
				if n.mand != "" {
					dc["mand"], dc["err"] = true, true
				}
				n.mand = p.V
			case "replace":
				if n.mand == "" {
					dc["mand"], dc["err"] = true, true
				}
				n.mand = p.V
			case "delete":
				dc["mand"], dc["err"] = true, true
			}
		case "default":
			if !isLeafish && n.kind != "choice" {
				dc["def"], dc["err"] = true, true
				continue
			}
			switch d.Kind {
			case "add":
				switch {
				case n.kind == "leaf-list":
					n.def = append(n.def, p.V)
				case len(n.def) > 0:
					return true // adding a default where one exists
				default:
					n.def = []string{p.V}
				}
			case "replace":
				if len(n.def) == 0 {
					dc["def"], dc["err"] = true, true
				}
				n.def = []string{p.V}
			case "delete":
				if n.kind == "leaf-list" {
					dc["def"], dc["err"] = true, true // the library documents this as unsupported
					continue
				}
				if len(n.def) == 0 || n.def[0] != p.V {
					return true // deleting a default that is absent or different
				}
				n.def = nil
			}
		case "units":
			switch d.Kind {
			case "add", "replace":
				// the library does not expose a leaf's own units, so whether one "exists" cannot be
				// observed; the new value must be there
				n.units = p.V
			case "delete":
				dc["units"], dc["err"] = true, true
			}
		case "type":
			if d.Kind == "delete" {
				dc["typ"], dc["err"] = true, true
				continue
			}
			if p.V == "nosuch" {
				return true // unresolvable replacement type
			}
			if !isLeafish {
				dc["typ"], dc["err"], dc["frame"] = true, true, true
				continue
			}
			if d.Kind == "add" {
				dc["err"] = true // a leaf always has a type: adding one is invalid; the statement only asks that the value shows
			}
			n.typ = strings.TrimPrefix(p.V, "a:") // the resolved type goes by the typedef's own name
		case "min-elements", "max-elements":
			dc["eff"] = true
			if !isList {
				return true // element bounds on a non-list
			}
			var v uint64
			if p.V == "unbounded" {
				v = math.MaxUint64
			} else {
				fmt.Sscan(p.V, &v)
			}
			isMin := p.K == "min-elements"
			cur := n.max
			absent := n.max == math.MaxUint64
			if isMin {
				cur, absent = n.min, n.min == 0
			}
			switch d.Kind {
			case "add":
				if !absent {
					dc[p.K], dc["err"] = true, true
				}
			case "replace":
				if absent {
					dc[p.K], dc["err"] = true, true
				}
			case "delete":
				if absent {
					if (isMin && v == 0) || (!isMin && v == math.MaxUint64) {
						dc[p.K], dc["err"] = true, true // deleting the default bound: the statement is silent
						continue
					}
					return true // deleting a bound that is absent
				}
				if cur != v {
					return true // ... or different
				}
				if isMin {
					n.min = 0
				} else {
					n.max = math.MaxUint64
				}
				continue
			}
			if isMin {
				n.min = v
			} else {
				n.max = v
			}
		}
	}
	return false
}

func diff(want, got *node, dc map[string]bool) []string {
	var d []string
	if !dc["cfg"] && want.cfg != got.cfg {
		d = append(d, fmt.Sprintf("config=%q want %q", got.cfg, want.cfg))
	}
	if !dc["mand"] && want.mand != got.mand {
		d = append(d, fmt.Sprintf("mandatory=%q want %q", got.mand, want.mand))
	}
	if !dc["def"] && fmt.Sprint(want.def) != fmt.Sprint(got.def) {
		d = append(d, fmt.Sprintf("default=%v want %v", got.def, want.def))
	}
	if !dc["units"] && want.units != got.units {
		d = append(d, fmt.Sprintf("units=%q want %q", got.units, want.units))
	}
	if !dc["typ"] && want.typ != got.typ {
		d = append(d, fmt.Sprintf("type=%q want %q", got.typ, want.typ))
	}
	// the default in effect follows the deviated default and the deviated type
	if !dc["typ"] && !dc["def"] && !dc["eff"] && (want.kind == "leaf" || want.kind == "leaf-list") {
		if we := effective(want); fmt.Sprint(we) != fmt.Sprint(got.eff) {
			d = append(d, fmt.Sprintf("DefaultValues()=%v want %v", got.eff, we))
		}
	}
	if !dc["min-elements"] && want.min != got.min {
		d = append(d, fmt.Sprintf("min-elements=%d want %d", got.min, want.min))
	}
	if !dc["max-elements"] && want.max != got.max {
		d = append(d, fmt.Sprintf("max-elements=%d want %d", got.max, want.max))
	}
	return d
}

type fail struct{ fp, exp, obs string }

// rest renders what a deviation of properties must leave alone on its own target: everything the
// node shows except config, mandatory, default, units and the element bounds (those are compared
// one by one against the reference) - kind, key, ordering, description, prefix, namespace, parent,
// extensions and the other substatements kept in Extra, and, unless
// the type itself is deviated, the whole resolved type.
func rest(e *yang.Entry, withType bool) string {
	var sb strings.Builder
	fmt.Fprintf(&sb, "kind=%v key=%q desc=%q", e.Kind, e.Key, e.Description)
	if e.ListAttr != nil {
		ob := "<none>"
		if e.ListAttr.OrderedBy != nil {
			ob = e.ListAttr.OrderedBy.Name
		}
		fmt.Fprintf(&sb, " ordered-by-user=%v ordered-by=%s", e.ListAttr.OrderedByUser, ob)
	}
	if e.Prefix != nil {
		fmt.Fprintf(&sb, " prefix=%s", e.Prefix.Name)
	}
	if ns := e.Namespace(); ns != nil {
		fmt.Fprintf(&sb, " ns=%s", ns.Name)
	}
	if e.Parent != nil {
		fmt.Fprintf(&sb, " parent=%s", e.Parent.Name)
	}
	// (which children it has is the frame's business: another deviation may remove one)
	fmt.Fprintf(&sb, " dir=%v errors=%d", e.Dir != nil, len(e.Errors))
	for _, x := range e.Exts {
		fmt.Fprintf(&sb, " ext:%s=%s", x.Keyword, x.Argument)
	}
	var xs []string
	for k, v := range e.Extra {
		xs = append(xs, fmt.Sprintf("%s*%d", k, len(v)))
	}
	sort.Strings(xs)
	fmt.Fprintf(&sb, " extra=%v", xs)
	if withType && e.Type != nil {
		fmt.Fprintf(&sb, " type=%s", dump.Type(e.Type, 0))
	}
	return sb.String()
}

var baseMS *yang.Modules
var baseFlat map[string]string // path -> one-line dump of the node alone

// flat dumps every node of module a as path -> attributes (children not included in the line).
func flat(ms *yang.Modules) map[string]string {
	out := map[string]string{}
	var walk func(e *yang.Entry, p string)
	walk = func(e *yang.Entry, p string) {
		var sb strings.Builder
		dump.Entry(&sb, e, "", dump.Options{}, map[*yang.Entry]bool{})
		line, _, _ := strings.Cut(sb.String(), "\n")
		// the effective read-only flag is inherited from ancestors (a deviated config shows below
		// its target by design): it is C12's business and not part of the frame
		line = strings.Replace(strings.Replace(line, " ro=true", "", 1), " ro=false", "", 1)
		out[p] = line
		var ks []string
		for k := range e.Dir {
			ks = append(ks, k)
		}
		sort.Strings(ks)
		for _, k := range ks {
			walk(e.Dir[k], p+"/"+k)
		}
		if e.RPC != nil {
			if e.RPC.Input != nil {
				walk(e.RPC.Input, p+"/input")
			}
			if e.RPC.Output != nil {
				walk(e.RPC.Output, p+"/output")
			}
		}
	}
	walk(yang.ToEntry(ms.Modules["a"]), "")
	return out
}

func find(ms *yang.Modules, t string) *yang.Entry {
	e := yang.ToEntry(ms.Modules["a"])
	for _, s := range strings.Split(t, "/") {
		if e == nil {
			return nil
		}
		s = s[strings.Index(s, ":")+1:]
		switch {
		case e.RPC != nil && s == "input":
			e = e.RPC.Input
		case e.RPC != nil && s == "output":
			e = e.RPC.Output
		default:
			e = e.Dir[s]
		}
	}
	return e
}

// plain drops the module prefixes from the steps of a target.
func plain(t string) string {
	parts := strings.Split(t, "/")
	for i, s := range parts {
		parts[i] = s[strings.Index(s, ":")+1:]
	}
	return strings.Join(parts, "/")
}

// goneAbove: t or one of its ancestors was removed by a not-supported applied so far.
func goneAbove(want map[string]*node, t string) bool {
	parts := strings.Split(t, "/")
	for i := 1; i <= len(parts); i++ {
		if i == len(parts) && implicit(t) {
			break
		}
		if n := want[strings.Join(parts[:i], "/")]; n != nil && n.gone {
			return true
		}
	}
	return false
}

// implicit: the input and output nodes of an rpc exist whether or not they are written (RFC 7950
// 7.14), so removing one empties it and a later deviation still finds it.
func implicit(t string) bool {
	return strings.HasPrefix(t, "r/") && (strings.HasSuffix(t, "/input") || strings.HasSuffix(t, "/output"))
}

// check accepts either order of application when several modules deviate (the statement fixes the
// order inside one deviation only; which module goes first is not claimed - that the choice is the
// same for every load order is C05's business).
func check(in Input) (f *fail, wantErr bool) {
	mods := map[string]bool{}
	for _, d := range in.Devs {
		mods[d.Mod] = true
	}
	f, wantErr = checkOrder(in, false)
	if f != nil && len(mods) > 1 && !strings.HasPrefix(f.fp, "panic") {
		if f2, w2 := checkOrder(in, true); f2 == nil {
			return nil, w2
		}
	}
	return f, wantErr
}

func checkOrder(in Input, reverse bool) (f *fail, wantErr bool) {
	pan, pt := core.Guard(func() {
		if baseMS == nil {
			r := dump.Run(baseFiles, dump.Options{})
			if len(r.ProcErrs) > 0 {
				panic("base module has errors: " + dump.Errors(r.ProcErrs))
			}
			baseMS, baseFlat = r.MS, flat(r.MS)
		}
		// reference: deviations in the order the library applies modules (by key) and, inside a
		// module and a deviation, in written order
		devs := append([]Deviation{}, in.Devs...)
		sort.SliceStable(devs, func(i, j int) bool {
			if reverse {
				return devs[i].Mod > devs[j].Mod
			}
			return devs[i].Mod < devs[j].Mod
		})
		want := map[string]*node{}
		dc := map[string]map[string]bool{}
		typeNamed := map[string]bool{}
		anyDC := false
		for _, d := range devs {
			n := want[d.Target]
			if n == nil {
				e := find(baseMS, d.Target)
				if e == nil {
					wantErr = true // missing target
					continue
				}
				n = observe(e)
				want[d.Target] = n
				dc[d.Target] = map[string]bool{}
			}
			if goneAbove(want, d.Target) && !in.Ignore {
				// an earlier not-supported removed the target or a node above it: a further
				// deviation cannot find it
				wantErr = true
				continue
			}
			if n.gone && !in.Ignore {
				// an emptied implicit node: the statement does not say what deviating it means
				dc[d.Target]["err"], anyDC = true, true
				continue
			}
			for _, x := range d.Seq {
				if x.Kind == "not-supported" && in.Ignore {
					continue // the target is retained and everything else is unchanged
				}
				if n.gone {
					// a further not-supported on a node this deviation already removed cannot
					// be applied (other kinds after not-supported are not generated)
					wantErr = true
					break
				}
				for _, p := range x.Props {
					if p.K == "type" {
						typeNamed[d.Target] = true
					}
				}
				if apply(n, x, dc[d.Target]) {
					wantErr = true
				}
			}
			if dc[d.Target]["err"] {
				anyDC = true
			}
		}
		// observed
		ms := yang.NewModules()
		if in.Ignore {
			ms.ParseOptions.DeviateOptions.IgnoreDeviateNotSupported = true
		}
		for _, x := range in.files() {
			if err := ms.Parse(x.Text, x.Name); err != nil {
				f = &fail{"load-error", "loads", err.Error()}
				return
			}
		}
		errs := ms.Process()
		switch {
		case wantErr && len(errs) == 0:
			f = &fail{"inapplicable-deviation-not-reported", "an error", "no error"}
			return
		case wantErr:
			return
		case len(errs) > 0 && anyDC:
			return // a combination RFC 7950 forbids but the statement does not list: either way
		case len(errs) > 0:
			f = &fail{"spurious-errors", "no errors", dump.Errors(errs)}
			return
		}
		got := flat(ms)
		var diffs []string
		frameSkip := map[string]bool{}
		goneAt := map[string]bool{}
		for t, n := range want {
			p := "/" + plain(t)
			goneAt[p] = n.gone
			e := find(ms, t)
			if !n.gone && goneAbove(want, t) {
				// deviated first, then removed together with a node above it
				if e != nil {
					diffs = append(diffs, p+": still there although a node above it is not supported")
				}
				continue
			}
			if n.gone {
				if e != nil && !(implicit(t) && len(e.Dir) == 0) {
					diffs = append(diffs, p+": not removed by not-supported")
				}
				frameSkip[p] = true
				continue
			}
			if e == nil {
				diffs = append(diffs, p+": target disappeared")
				continue
			}
			for _, x := range diff(n, observe(e), dc[t]) {
				diffs = append(diffs, p+": "+x)
			}
			if be := find(baseMS, t); be != nil && !dc[t]["frame"] {
				if was, now := rest(be, !typeNamed[t]), rest(e, !typeNamed[t]); was != now {
					diffs = append(diffs, p+": a property no deviate statement names changed on the target:\n   was "+was+"\n   now "+now)
				}
			}
			frameSkip[p] = true
		}
		// frame: everything that is not a target (or below a removed target) is unchanged
		for p, line := range baseFlat {
			skip := false
			for fp := range frameSkip {
				if p == fp || (goneAt[fp] && strings.HasPrefix(p, fp+"/")) {
					skip = true
				}
			}
			if skip {
				continue
			}
			g, ok := got[p]
			switch {
			case !ok:
				diffs = append(diffs, "FRAME "+p+": node vanished")
			case g != line:
				diffs = append(diffs, "FRAME "+p+": changed although no deviation targets it:\n   was "+line+"\n   now "+g)
			}
		}
		for p := range got {
			if _, ok := baseFlat[p]; !ok {
				diffs = append(diffs, "FRAME "+p+": node appeared")
			}
		}
		if len(diffs) > 0 {
			sort.Strings(diffs)
			fp := "target-differs-from-reference"
			if strings.HasPrefix(diffs[0], "FRAME") {
				fp = "untargeted-node-changed"
			}
			f = &fail{fp, "RFC 7950 7.20.3 applied in written order to the un-deviated tree", strings.Join(diffs, "\n")}
		}
	})
	if pan {
		return &fail{"panic@" + core.LastPanicSite, "no panic", pt}, wantErr
	}
	return f, wantErr
}

var singleProps = []prop{{"config", "true"}, {"config", "false"}, {"default", "d"}, {"default", "e"}, {"default", "gd"}, {"default", "4"}, {"mandatory", "true"}, {"mandatory", "false"},
	{"min-elements", "0"}, {"min-elements", "1"}, {"min-elements", "3"}, {"max-elements", "5"}, {"max-elements", "9"}, {"max-elements", "2"}, {"max-elements", "unbounded"},
	{"units", "v"}, {"type", "int8"}, {"type", "nosuch"}, {"type", "a:td"}, {"type", "a:ts"}}

func deviates() []deviate {
	ds := []deviate{{Kind: "not-supported"}, {Kind: "bogus"}}
	for _, k := range []string{"add", "replace", "delete"} {
		for _, p := range singleProps {
			ds = append(ds, deviate{k, []prop{p}})
		}
		for _, pp := range [][2]prop{{{"default", "e"}, {"units", "v"}}, {{"config", "false"}, {"mandatory", "false"}}, {{"min-elements", "3"}, {"max-elements", "5"}}, {{"type", "int8"}, {"default", "4"}}, {{"default", "d"}, {"config", "true"}}} {
			ds = append(ds, deviate{k, []prop{pp[0], pp[1]}})
		}
	}
	return ds
}

func shards(tier string) []string {
	var out []string
	for ti := range targets {
		for k := 0; k < 4; k++ {
			out = append(out, fmt.Sprintf("t/%d/%d", ti, k))
		}
	}
	if tier == "thorough" {
		for ti := range tripleTargets {
			for k := 0; k < 8; k++ {
				out = append(out, fmt.Sprintf("triple/%d/%d", ti, k))
			}
		}
	}
	for k := 0; k < 8; k++ {
		out = append(out, fmt.Sprintf("related/%d", k))
	}
	for ti := range tripleTargets {
		out = append(out, fmt.Sprintf("aba/%d", ti))
	}
	out = append(out, scalekit.ShardNames()...)
	return append(out, "two-modules/0", "two-modules/1", "two-modules/2", "two-modules/3")
}

// several deviation statements on a node, its children and its ancestors, in one module and in two
var relTargets = []string{"c", "c/x", "c/cc", "c/cc/y", "u1", "u1/gl", "u1/gll", "r/input", "r/input/i", "n", "c/g:ay", "u1/g:ac", "u1/g:ac/g:az", "input", "input/output"}
var relDeviates = []deviate{{Kind: "not-supported"}, {"replace", []prop{{"config", "false"}}}, {"add", []prop{{"units", "v"}}}, {"replace", []prop{{"type", "int8"}}}, {"delete", []prop{{"default", "4"}}}}

var tripleTargets = []string{"l", "ll", "u1/gll", "ch", "c/cc/y"}

func run(c *core.Ctx) {
	if strings.HasPrefix(c.Shard, "scale/") {
		scalekit.Run(c, c.Shard, scaleCases(c.Tier), checkScale, func(cs scalekit.Case) any { return Input{Scale: &cs} })
		return
	}
	c.Res.Bound = fmt.Sprintf("%d targets (leaf with default and units, plain leaf, mandatory leaf, bounded leaf-list, list, config-false container, nested leaves, choice with default, anydata, leaf / leaf-list / list inside one of two uses of a grouping, rpc input leaf, two missing targets, a leaf, a leaf-list and a nested leaf grafted by another module's augments) x every single deviate (not-supported, unknown kind, add/replace/delete x 18 single properties and 5 property pairs) and every ordered pair of deviates (on 5 targets every triple in which a kind comes back after another kind on one property; thorough: every ordered triple of single-property deviates on them), plus the ignore-not-supported option; singles and pairs also with deviating modules that carry a revision and have a neighbour module whose name extends theirs; two deviating modules on the same and on different targets; scale: three deviations on targets 0..40 (70) containers deep; every ordered pair (one module and two) and triple of deviation statements over %d related targets (a node, its children, its ancestors) x %d deviates", len(targets), len(relTargets), len(relDeviates))
	ds := deviates()
	n := 0
	var one func(in Input)
	one = func(in Input) {
		if c.Expired() {
			return
		}
		if !in.Rev && strings.HasPrefix(c.Shard, "t/") {
			defer func() { in.Rev = true; one(in) }()
		}
		caseNo, run := c.Begin()
		if c.Skip(caseNo, run, in) {
			return
		}
		c.Exec()
		c.Validate()
		c.StateN(1)
		edges := 0
		for _, d := range in.Devs {
			edges += len(d.Seq)
		}
		c.Edge(int64(edges))
		f, wantErr := check(in)
		if edges > 1 {
			c.NontrivialN(1)
		}
		n++
		switch {
		case f != nil:
			c.Outcome("FAIL:" + f.fp)
			c.Fail(caseNo, nil, f.fp, in, f.exp, f.obs)
		case wantErr:
			c.Outcome("reported-as-required")
		default:
			c.Outcome("applied-as-reference")
			if n%4000 == 77 {
				b, _ := json.Marshal(in)
				c.Sample(string(b))
			}
		}
	}
	parts := strings.Split(c.Shard, "/")
	var a, b int
	fmt.Sscanf(parts[1], "%d", &a)
	if parts[0] == "triple" {
		fmt.Sscanf(parts[2], "%d", &b)
		t := tripleTargets[a]
		var core3 []deviate // not-supported cannot be combined; the unknown kind is covered by pairs
		for _, d := range ds {
			if d.Kind != "not-supported" && d.Kind != "bogus" && len(d.Props) == 1 {
				core3 = append(core3, d)
			}
		}
		for i, d1 := range core3 {
			if i%8 != b {
				continue
			}
			for _, d2 := range core3 {
				for _, d3 := range core3 {
					one(Input{Devs: []Deviation{{"d1", t, []deviate{d1, d2, d3}}}})
				}
			}
		}
		return
	}
	if parts[0] == "aba" {
		// three deviate statements in one deviation in which a kind comes back after another kind,
		// all on one property (add x, delete x, add y ...)
		t := tripleTargets[a]
		var core3 []deviate
		for _, d := range ds {
			if d.Kind != "not-supported" && d.Kind != "bogus" && len(d.Props) == 1 {
				core3 = append(core3, d)
			}
		}
		for _, d1 := range core3 {
			for _, d2 := range core3 {
				if d2.Kind == d1.Kind || d2.Props[0].K != d1.Props[0].K {
					continue
				}
				for _, d3 := range core3 {
					if d3.Kind == d1.Kind && d3.Props[0].K == d1.Props[0].K {
						one(Input{Devs: []Deviation{{"d1", t, []deviate{d1, d2, d3}}}})
					}
				}
			}
		}
		return
	}
	if parts[0] == "related" {
		type td struct {
			t string
			d deviate
		}
		var all, small []td
		for ti, t := range relTargets {
			for di, d := range relDeviates {
				all = append(all, td{t, d})
				if c.Tier == "thorough" || (di < 3 && (ti < 2 || ti == 3 || ti == 4 || ti == 5)) {
					small = append(small, td{t, d})
				}
			}
		}
		k := 0
		for _, x := range all {
			for _, y := range all {
				if k++; k%8 != a {
					continue
				}
				one(Input{Devs: []Deviation{{"d1", x.t, []deviate{x.d}}, {"d1", y.t, []deviate{y.d}}}})
				one(Input{Devs: []Deviation{{"d1", x.t, []deviate{x.d}}, {"d2", y.t, []deviate{y.d}}}})
				if x.d.Kind == "not-supported" || y.d.Kind == "not-supported" {
					one(Input{Devs: []Deviation{{"d1", x.t, []deviate{x.d}}, {"d1", y.t, []deviate{y.d}}}, Ignore: true})
				}
			}
		}
		for _, x := range small {
			for _, y := range small {
				for _, z := range small {
					if k++; k%8 != a {
						continue
					}
					one(Input{Devs: []Deviation{{"d1", x.t, []deviate{x.d}}, {"d1", y.t, []deviate{y.d}}, {"d1", z.t, []deviate{z.d}}}})
				}
			}
		}
		return
	}
	if parts[0] == "t" {
		fmt.Sscanf(parts[2], "%d", &b)
		t := targets[a]
		if b == 0 {
			for _, d := range ds {
				one(Input{Devs: []Deviation{{"d1", t, []deviate{d}}}})
				if d.Kind == "not-supported" {
					one(Input{Devs: []Deviation{{"d1", t, []deviate{d}}}, Ignore: true})
				}
			}
		}
		for i, d1 := range ds {
			if i%4 != b {
				continue
			}
			for _, d2 := range ds {
				if (d1.Kind == "not-supported") != (d2.Kind == "not-supported") {
					continue // not-supported together with other deviate statements is invalid and not generated
				}
				one(Input{Devs: []Deviation{{"d1", t, []deviate{d1, d2}}}})
			}
		}
		return
	}
	// two deviating modules: the same target, and different targets
	k := 0
	for _, t := range []string{"l", "ll", "u1/gl", "c"} {
		for _, d1 := range ds {
			for _, d2 := range ds {
				k++
				if k%4 != a || k%3 != 0 {
					continue
				}
				one(Input{Devs: []Deviation{{"d1", t, []deviate{d1}}, {"d2", t, []deviate{d2}}}})
				one(Input{Devs: []Deviation{{"d2", t, []deviate{d1}}, {"d1", "n", []deviate{d2}}}})
				if d1.Kind == "not-supported" || d2.Kind == "not-supported" {
					one(Input{Devs: []Deviation{{"d1", t, []deviate{d1}}, {"d2", t, []deviate{d2}}}, Ignore: true})
				}
			}
		}
	}
}

func replay(tier string, raw json.RawMessage) (bool, string, string) {
	var in Input
	if err := json.Unmarshal(raw, &in); err != nil {
		return false, "", err.Error()
	}
	if in.Scale != nil {
		v := checkScale(*in.Scale)
		return v.Fp != "", "scale:" + v.Fp, fmt.Sprintf("expected %s\nobserved %s", v.Exp, v.Obs)
	}
	f, _ := check(in)
	if f == nil {
		return false, "", "as the reference"
	}
	var texts []string
	for _, x := range in.files()[1:] {
		texts = append(texts, x.Text)
	}
	return true, f.fp, fmt.Sprintf("expected %s\nobserved %s\n%s", f.exp, f.obs, strings.Join(texts, "\n"))
}

func init() {
	core.Register(&core.Prop{
		ID: "C08", Variant: "plain", Shards: shards, Run: run, Replay: replay,
		Rule:        "DEV family over a fixed base module: for every target and every sequence of one or two deviate statements (and two deviations in two modules), the reference starts from the attributes the library itself reports for the target without the deviating modules and applies RFC 7950 7.20.3 in written order (either order of the deviating modules is accepted): not-supported removes the target subtree (retains it under ignore-not-supported); add/replace/delete set config, default, mandatory, min/max-elements, units, type as prescribed; listed inapplicable cases (missing target, adding a default where one exists, deleting an absent or different default or bound, bounds on a non-list, unresolvable type, unknown deviate kind) must give an error. Frame: every node that is not a target (nor below a removed target) must dump exactly as in the un-deviated tree, the other use of a grouping included. Combinations RFC 7950 forbids but the statement does not list are don't-care for the touched attribute and for error/no error, and still subject to the frame. states = distinct deviation lists",
		Assumptions: []string{"the base of the comparison is the library's own un-deviated tree", "not-supported combined with other deviate statements in one deviation is invalid and not generated", "must/unique deviations are outside the claim"},
	})
}
