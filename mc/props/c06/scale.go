package c06

import (
	"fmt"
	"strings"

	"github.com/openconfig/goyang/pkg/yang"
	"verif/mc/dump"
	"verif/mc/gen/scale"
	"verif/mc/props/scalekit"
)

// scale: copies of a grouping whose container has n children, in the defining and in another module,
// must equal the same body written out; a module that defines n groupings, one of them named like a
// grouping of an imported module, binds uses b:target / target / a:target to the right one; a chain
// of n groupings each using the next.

func scaleCases(tier string) []scalekit.Case {
	max := 257
	if tier == "thorough" {
		max = 1025
	}
	var out []scalekit.Case
	for _, n := range scale.Sizes(48, max) {
		out = append(out, scalekit.Case{Shape: "wide-copy", N: n})
	}
	for _, n := range scale.Sizes(48, 257) {
		if n >= 2 { // g0 and target
			out = append(out, scalekit.Case{Shape: "many-groupings", N: n})
		}
	}
	for _, n := range scale.Sizes(40, 129) {
		out = append(out, scalekit.Case{Shape: "grouping-chain", N: n})
	}
	for _, n := range scale.Sizes(48, 257) {
		out = append(out, scalekit.Case{Shape: "many-uses", N: n})
	}
	return out
}

// shape renders names, kinds and types of a subtree (no namespaces, no config).
func shape(e *yang.Entry) string {
	var sb strings.Builder
	var walk func(e *yang.Entry, ind string)
	walk = func(e *yang.Entry, ind string) {
		t := ""
		if e.Type != nil {
			t = dump.Type(e.Type, 0)
		}
		fmt.Fprintf(&sb, "%s%s %v %s\n", ind, e.Name, e.Kind, t)
		var ks []string
		for k := range e.Dir {
			ks = append(ks, k)
		}
		sortStrings(ks)
		for _, k := range ks {
			walk(e.Dir[k], ind+" ")
		}
	}
	walk(e, "")
	return sb.String()
}

func sortStrings(a []string) {
	for i := 1; i < len(a); i++ {
		for j := i; j > 0 && a[j] < a[j-1]; j-- {
			a[j], a[j-1] = a[j-1], a[j]
		}
	}
}

func checkScale(cs scalekit.Case) scalekit.Verdict {
	switch cs.Shape {
	case "wide-copy":
		for _, rev := range []bool{false, true} {
			ms, errs, lerr := scalekit.Load(scale.Wide(cs.N), rev)
			if lerr != nil || len(errs) > 0 {
				return scalekit.Bad("spurious-errors", "loads and processes", fmt.Sprint(lerr, dump.Errors(errs)))
			}
			w, u := yang.ToEntry(ms.Modules["w"]), yang.ToEntry(ms.Modules["user"])
			written := scalekit.Down(w, "plain")
			delete(written.Dir, "grafted") // what module user's augment added is not part of the body
			want := strings.Replace(shape(written), "plain ", "state ", 1)
			for _, p := range [][]string{{"u", "state"}, {"top", "state"}, {"rw", "state"}} {
				root := w
				if p[0] != "u" {
					root = u
				}
				if got := shape(scalekit.Down(root, p...)); got != want {
					return scalekit.Bad("copy-differs-from-written-body", want, strings.Join(p, "/")+":\n"+got)
				}
			}
			a, b := scalekit.Down(u, "top", "state"), scalekit.Down(u, "rw", "state")
			for k := range a.Dir {
				if a.Dir[k] == b.Dir[k] {
					return scalekit.Bad("copies-share-a-node", "distinct objects", k)
				}
			}
		}
	case "many-groupings":
		ms, errs, lerr := scalekit.Load(scale.ManyGroupings(cs.N), false)
		if lerr != nil || len(errs) > 0 {
			return scalekit.Bad("spurious-errors", "loads and processes", fmt.Sprint(lerr, dump.Errors(errs)))
		}
		a := yang.ToEntry(ms.Modules["a"])
		for c, want := range map[string]string{"viab": "from-b inner", "bare": "from-a", "own": "from-a", "last": "l0"} {
			var ks []string
			for k := range a.Dir[c].Dir {
				ks = append(ks, k)
			}
			sortStrings(ks)
			if strings.Join(ks, " ") != want {
				return scalekit.Bad("uses-binds-another-grouping", c+": "+want, strings.Join(ks, " "))
			}
		}
	case "many-uses":
		// n uses in each of two modules, then a deviation of one copy: every copy equals the first,
		// no two share a node, and only the deviated one changes
		dev := dump.File{Name: "dev.yang", Text: fmt.Sprintf(`module dev { yang-version 1.1; namespace "urn:dev"; prefix dev; import a { prefix a; } import b { prefix b; } deviation /a:u%d/a:gll { deviate add { default added; } } deviation /b:v%d/b:gc/b:gli { deviate replace { max-elements 2; } } }`, cs.N/2, cs.N-1)}
		files := append(scale.ManyUses(cs.N), dev)
		ms, errs, lerr := scalekit.Load(files, false)
		if lerr != nil || len(errs) > 0 {
			return scalekit.Bad("spurious-errors", "loads and processes", fmt.Sprint(lerr, dump.Errors(errs)))
		}
		a, b := yang.ToEntry(ms.Modules["a"]), yang.ToEntry(ms.Modules["b"])
		seen := map[*yang.Entry]string{}
		var ref string
		for i := 0; i < cs.N; i++ {
			for _, x := range []struct {
				root *yang.Entry
				name string
			}{{a, fmt.Sprintf("u%d", i)}, {b, fmt.Sprintf("v%d", i)}} {
				c := x.root.Dir[x.name]
				if c == nil {
					return scalekit.Bad("copy-missing", x.name, "nil")
				}
				var walk func(e *yang.Entry) string
				walk = func(e *yang.Entry) string {
					if prev, dup := seen[e]; dup {
						return "SHARED with " + prev
					}
					seen[e] = x.name
					for _, k := range e.Dir {
						if r := walk(k); r != "" {
							return r
						}
					}
					return ""
				}
				if r := walk(c); r != "" {
					return scalekit.Bad("copies-share-a-node", "distinct objects", x.name+": "+r)
				}
				sh := strings.Replace(shape(c), x.name+" ", "U ", 1)
				sh += fmt.Sprintf("defaults=%v max=%d", c.Dir["gll"].Default, c.Dir["gc"].Dir["gli"].ListAttr.MaxElements)
				deviated := (x.root == a && i == cs.N/2) || (x.root == b && i == cs.N-1)
				switch {
				case ref == "" && !deviated:
					ref = sh
				case !deviated && sh != ref:
					return scalekit.Bad("copy-differs-from-the-others", ref, x.name+": "+sh)
				case deviated && x.root == a && fmt.Sprint(c.Dir["gll"].Default) != "[x y z added]":
					return scalekit.Bad("deviation-of-one-copy-lost", "[x y z added]", fmt.Sprint(c.Dir["gll"].Default))
				case deviated && x.root == b && c.Dir["gc"].Dir["gli"].ListAttr.MaxElements != 2:
					return scalekit.Bad("deviation-of-one-copy-lost", "max-elements 2", fmt.Sprint(c.Dir["gc"].Dir["gli"].ListAttr.MaxElements))
				}
			}
		}
	case "grouping-chain":
		ms, errs, lerr := scalekit.Load([]dump.File{scale.GroupingChain(cs.N, false)}, false)
		if lerr != nil || len(errs) > 0 {
			return scalekit.Bad("spurious-errors", "loads and processes", fmt.Sprint(lerr, dump.Errors(errs)))
		}
		e := yang.ToEntry(ms.Modules["m"]).Dir["c"]
		for i := 1; i <= cs.N; i++ {
			if e == nil || e.Dir[fmt.Sprintf("l%d", i)] == nil {
				return scalekit.Bad("copy-incomplete", fmt.Sprintf("leaf l%d at level %d", i, i), "missing")
			}
			e = e.Dir[fmt.Sprintf("c%d", i)]
		}
	}
	return scalekit.OK()
}
