package c06

import (
	"fmt"
	"strings"

	"github.com/openconfig/goyang/pkg/yang"
	"verif/mc/dump"
	"verif/mc/gen/scale"
	"verif/mc/props/scalekit"
)

// scale: copies of a grouping whose container has n children, in the defining and in another module,
// must equal the same body written out; a module that defines n groupings, one of them named like a
// grouping of an imported module, binds uses b:target / target / a:target to the right one; a chain
// of n groupings each using the next.

func scaleCases(tier string) []scalekit.Case {
	max := 257
	if tier == "thorough" {
		max = 1025
	}
	var out []scalekit.Case
	for _, n := range scale.Sizes(48, max) {
		out = append(out, scalekit.Case{Shape: "wide-copy", N: n})
	}
	for _, n := range scale.Sizes(48, 257) {
		if n >= 2 { // g0 and target
			out = append(out, scalekit.Case{Shape: "many-groupings", N: n})
		}
	}
	for _, n := range scale.Sizes(40, 129) {
		out = append(out, scalekit.Case{Shape: "grouping-chain", N: n})
	}
	for _, n := range scale.Sizes(48, 257) {
		out = append(out, scalekit.Case{Shape: "many-uses", N: n})
	}
	for n := 0; n <= 20; n++ {
		out = append(out, scalekit.Case{Shape: "uses-substatements", N: n})
	}
	// names that stand in a relation to each other: a grouping whose name is an import prefix followed
	// by the name of a grouping of the imported module (variant bits: 1 the local grouping lives in a
	// submodule, 2 the using site is in the submodule, 4 a separator - or . or _ stands between the two
	// parts (N picks it), 8 the imported module's grouping has the longer name)
	for n := 0; n < 4; n++ {
		for v := 0; v < 16; v++ {
			out = append(out, scalekit.Case{Shape: "grouping-named-prefix-plus-name", N: n, V: v})
		}
	}
	// N loaded revisions of the using module, each naming its own revision of the defining module
	// (variant 0) or giving the prefix to another module (1); a grouping defined in every kind of
	// statement that may hold one and used from inside it (variant = kind)
	for n := 2; n <= 4; n++ {
		out = append(out, scalekit.Case{Shape: "users-in-several-revisions", N: n, V: 0}, scalekit.Case{Shape: "users-in-several-revisions", N: n, V: 1})
	}
	for v := range groupingScopes {
		out = append(out, scalekit.Case{Shape: "grouping-in-each-kind-of-scope", N: 1, V: v})
	}
	// n sibling scopes each defining a grouping of one name and using it from inside, crossed with how
	// the uses statements spell the name (variant bits: 1 own prefix, 2 a top-level grouping of that name
	// exists as well, 4 written in a submodule, 8 every second scope spells it the other way)
	for n := 1; n <= 6; n++ {
		for v := 0; v < 16; v++ {
			out = append(out, scalekit.Case{Shape: "same-named-groupings-in-sibling-scopes", N: n, V: v})
		}
	}
	return out
}

// shape renders names, kinds and types of a subtree (no namespaces, no config).
func shape(e *yang.Entry) string {
	var sb strings.Builder
	var walk func(e *yang.Entry, ind string)
	walk = func(e *yang.Entry, ind string) {
		t := ""
		if e.Type != nil {
			t = dump.Type(e.Type, 0)
		}
		fmt.Fprintf(&sb, "%s%s %v %s\n", ind, e.Name, e.Kind, t)
		var ks []string
		for k := range e.Dir {
			ks = append(ks, k)
		}
		sortStrings(ks)
		for _, k := range ks {
			walk(e.Dir[k], ind+" ")
		}
	}
	walk(e, "")
	return sb.String()
}

func sortStrings(a []string) {
	for i := 1; i < len(a); i++ {
		for j := i; j > 0 && a[j] < a[j-1]; j-- {
			a[j], a[j-1] = a[j-1], a[j]
		}
	}
}

// groupingScopes: where RFC 7950 lets a grouping be defined, with a place below from which it is used;
// %s stands for the grouping and the uses statement.
var groupingScopes = []string{
	`container c { GROUPING container inner { USES } }`,
	`list l { key k; leaf k { type string; } GROUPING container inner { USES } }`,
	`grouping outer { GROUPING container inner { USES } } container c { uses outer; }`,
	`rpc r { GROUPING input { USES } output { container o { USES } } }`,
	`rpc r { input { GROUPING container inner { USES } } }`,
	`rpc r { output { GROUPING container inner { USES } } }`,
	`notification n { GROUPING container inner { USES } }`,
	`container c { action a { GROUPING input { USES } output { USES } } }`,
	`container c { action a { input { GROUPING container inner { USES } } } }`,
	`container c { notification n { GROUPING USES } }`,
	`list l { key k; leaf k { type string; } action a { GROUPING output { container inner { USES } } } }`,
	`grouping outer { container c { action a { GROUPING input { USES } } } } container user { uses outer; }`,
}

func checkScale(cs scalekit.Case) scalekit.Verdict {
	switch cs.Shape {
	case "grouping-in-each-kind-of-scope":
		body := strings.ReplaceAll(strings.ReplaceAll(groupingScopes[cs.V], "GROUPING", `grouping timing { leaf delay { type int8; } leaf-list phase { type string; } }`), "USES", `uses timing;`)
		files := []dump.File{{Name: "lib.yang", Text: `module lib { yang-version 1.1; namespace "urn:lib"; prefix lib; ` + body + ` }`}}
		ms, errs, lerr := scalekit.Load(files, false)
		if lerr != nil || len(errs) > 0 {
			return scalekit.Bad("spurious-errors", "loads and processes: a grouping may be defined there", fmt.Sprint(lerr, dump.Errors(errs)))
		}
		var sb strings.Builder
		dump.Entry(&sb, yang.ToEntry(ms.Modules["lib"]), "", dump.Options{}, map[*yang.Entry]bool{})
		if n := strings.Count(sb.String(), " delay kind=Leaf"); n != strings.Count(body, "uses timing;") {
			return scalekit.Bad("copies-missing", fmt.Sprintf("%d copies of leaf delay", strings.Count(body, "uses timing;")), fmt.Sprintf("%d\n%s", n, sb.String()))
		}
	case "users-in-several-revisions":
		var files []dump.File
		for r := 0; r < cs.N; r++ {
			dname := "def"
			drev := fmt.Sprintf(" revision 202%d-01-01;", r)
			pin := fmt.Sprintf(" revision-date 202%d-01-01;", r)
			if cs.V == 1 {
				dname, drev, pin = fmt.Sprintf("def%d", r), "", ""
			}
			files = append(files,
				dump.File{Name: fmt.Sprintf("def-%d.yang", r), Text: fmt.Sprintf(`module %s { namespace "urn:%s"; prefix d;%s grouping endpoint { leaf port { type uint16; default %d; } container tls%d { leaf sni { type string; } } } }`, dname, dname, drev, 80+r, r)},
				dump.File{Name: fmt.Sprintf("user-%d.yang", r), Text: fmt.Sprintf(`module user { namespace "urn:user"; prefix user; revision 202%d-06-01; import %s { prefix p;%s } container server { uses p:endpoint; } container second { uses p:endpoint; } }`, r, dname, pin)})
		}
		for _, rev := range []bool{false, true} {
			ms, errs, lerr := scalekit.Load(files, rev)
			if lerr != nil || len(errs) > 0 {
				return scalekit.Bad("spurious-errors", "loads and processes", fmt.Sprint(lerr, dump.Errors(errs)))
			}
			for r := 0; r < cs.N; r++ {
				u := yang.ToEntry(ms.Modules[fmt.Sprintf("user@202%d-06-01", r)])
				for _, c := range []string{"server", "second"} {
					e := scalekit.Down(u, c)
					if e == nil || e.Dir["port"] == nil || fmt.Sprint(e.Dir["port"].Default) != fmt.Sprintf("[%d]", 80+r) || e.Dir[fmt.Sprintf("tls%d", r)] == nil || len(e.Dir) != 2 {
						var sb strings.Builder
						dump.Entry(&sb, e, "", dump.Options{}, map[*yang.Entry]bool{})
						return scalekit.Bad("copy-of-another-revisions-grouping", fmt.Sprintf("user@202%d-06-01/%s: port default %d, container tls%d", r, c, 80+r, r), sb.String())
					}
				}
			}
		}
	case "wide-copy":
		for _, rev := range []bool{false, true} {
			ms, errs, lerr := scalekit.Load(scale.Wide(cs.N), rev)
			if lerr != nil || len(errs) > 0 {
				return scalekit.Bad("spurious-errors", "loads and processes", fmt.Sprint(lerr, dump.Errors(errs)))
			}
			w, u := yang.ToEntry(ms.Modules["w"]), yang.ToEntry(ms.Modules["user"])
			written := scalekit.Down(w, "plain")
			delete(written.Dir, "grafted") // what module user's augment added is not part of the body
			want := strings.Replace(shape(written), "plain ", "state ", 1)
			for _, p := range [][]string{{"u", "state"}, {"top", "state"}, {"rw", "state"}} {
				root := w
				if p[0] != "u" {
					root = u
				}
				if got := shape(scalekit.Down(root, p...)); got != want {
					return scalekit.Bad("copy-differs-from-written-body", want, strings.Join(p, "/")+":\n"+got)
				}
			}
			a, b := scalekit.Down(u, "top", "state"), scalekit.Down(u, "rw", "state")
			for k := range a.Dir {
				if a.Dir[k] == b.Dir[k] {
					return scalekit.Bad("copies-share-a-node", "distinct objects", k)
				}
			}
		}
	case "many-groupings":
		ms, errs, lerr := scalekit.Load(scale.ManyGroupings(cs.N), false)
		if lerr != nil || len(errs) > 0 {
			return scalekit.Bad("spurious-errors", "loads and processes", fmt.Sprint(lerr, dump.Errors(errs)))
		}
		a := yang.ToEntry(ms.Modules["a"])
		for c, want := range map[string]string{"viab": "from-b inner", "bare": "from-a", "own": "from-a", "last": "l0"} {
			var ks []string
			for k := range a.Dir[c].Dir {
				ks = append(ks, k)
			}
			sortStrings(ks)
			if strings.Join(ks, " ") != want {
				return scalekit.Bad("uses-binds-another-grouping", c+": "+want, strings.Join(ks, " "))
			}
		}
	case "many-uses":
		// n uses in each of two modules, then a deviation of one copy: every copy equals the first,
		// no two share a node, and only the deviated one changes
		dev := dump.File{Name: "dev.yang", Text: fmt.Sprintf(`module dev { yang-version 1.1; namespace "urn:dev"; prefix dev; import a { prefix a; } import b { prefix b; } deviation /a:u%d/a:gll { deviate add { default added; } } deviation /b:v%d/b:gc/b:gli { deviate replace { max-elements 2; } } }`, cs.N/2, cs.N-1)}
		files := append(scale.ManyUses(cs.N), dev)
		ms, errs, lerr := scalekit.Load(files, false)
		if lerr != nil || len(errs) > 0 {
			return scalekit.Bad("spurious-errors", "loads and processes", fmt.Sprint(lerr, dump.Errors(errs)))
		}
		a, b := yang.ToEntry(ms.Modules["a"]), yang.ToEntry(ms.Modules["b"])
		seen := map[*yang.Entry]string{}
		var ref string
		for i := 0; i < cs.N; i++ {
			for _, x := range []struct {
				root *yang.Entry
				name string
			}{{a, fmt.Sprintf("u%d", i)}, {b, fmt.Sprintf("v%d", i)}} {
				c := x.root.Dir[x.name]
				if c == nil {
					return scalekit.Bad("copy-missing", x.name, "nil")
				}
				var walk func(e *yang.Entry) string
				walk = func(e *yang.Entry) string {
					if prev, dup := seen[e]; dup {
						return "SHARED with " + prev
					}
					seen[e] = x.name
					for _, k := range e.Dir {
						if r := walk(k); r != "" {
							return r
						}
					}
					return ""
				}
				if r := walk(c); r != "" {
					return scalekit.Bad("copies-share-a-node", "distinct objects", x.name+": "+r)
				}
				sh := strings.Replace(shape(c), x.name+" ", "U ", 1)
				sh += fmt.Sprintf("defaults=%v max=%d", c.Dir["gll"].Default, c.Dir["gc"].Dir["gli"].ListAttr.MaxElements)
				deviated := (x.root == a && i == cs.N/2) || (x.root == b && i == cs.N-1)
				switch {
				case ref == "" && !deviated:
					ref = sh
				case !deviated && sh != ref:
					return scalekit.Bad("copy-differs-from-the-others", ref, x.name+": "+sh)
				case deviated && x.root == a && fmt.Sprint(c.Dir["gll"].Default) != "[x y z added]":
					return scalekit.Bad("deviation-of-one-copy-lost", "[x y z added]", fmt.Sprint(c.Dir["gll"].Default))
				case deviated && x.root == b && c.Dir["gc"].Dir["gli"].ListAttr.MaxElements != 2:
					return scalekit.Bad("deviation-of-one-copy-lost", "max-elements 2", fmt.Sprint(c.Dir["gc"].Dir["gli"].ListAttr.MaxElements))
				}
			}
		}
	case "grouping-named-prefix-plus-name":
		inSub, useInSub, withSep, longer := cs.V&1 != 0, cs.V&2 != 0, cs.V&4 != 0, cs.V&8 != 0
		sep := ""
		if withSep {
			sep = []string{"-", ".", "_", "-"}[cs.N]
		}
		pfx := []string{"if", "i", "if-x", "ifs"}[cs.N]
		foreign, local := "state", pfx+sep+"state"
		if longer {
			// the other way round: the imported grouping's name is the local one's behind the prefix
			foreign, local = "state"+sep+"x", pfx+"state"+sep+"x"
		}
		lib := fmt.Sprintf(`module lib { namespace "urn:lib"; prefix lib; grouping %s { leaf from-lib { type string; } } grouping %s { leaf from-lib-too { type string; } } }`, foreign, pfx+foreign)
		defLocal := fmt.Sprintf(` grouping %s { leaf from-local { type int8; } }`, local)
		use := fmt.Sprintf(` container port { uses %s; } container viaprefix { uses %s:%s; }`, local, pfx, foreign)
		mainBody, subBody := "", ""
		if inSub {
			subBody += defLocal
		} else {
			mainBody += defLocal
		}
		if useInSub {
			subBody += use
		} else {
			mainBody += use
		}
		files := []dump.File{{Name: "lib.yang", Text: lib},
			{Name: "ports.yang", Text: `module ports { namespace "urn:ports"; prefix ports; import lib { prefix ` + pfx + `; } include ports-sub;` + mainBody + ` }`},
			{Name: "ports-sub.yang", Text: `submodule ports-sub { belongs-to ports { prefix ports; } import lib { prefix ` + pfx + `; }` + subBody + ` }`}}
		for _, rev := range []bool{false, true} {
			ms, errs, lerr := scalekit.Load(files, rev)
			if lerr != nil || len(errs) > 0 {
				return scalekit.Bad("spurious-errors", "loads and processes", fmt.Sprint(lerr, dump.Errors(errs)))
			}
			root := yang.ToEntry(ms.Modules["ports"])
			for c, want := range map[string]string{"port": "from-local", "viaprefix": "from-lib"} {
				var ks []string
				if e := root.Dir[c]; e != nil {
					for k := range e.Dir {
						ks = append(ks, k)
					}
				}
				sortStrings(ks)
				if strings.Join(ks, " ") != want {
					return scalekit.Bad("uses-binds-a-grouping-of-a-related-name", c+": "+want, strings.Join(ks, " "))
				}
			}
		}
	case "same-named-groupings-in-sibling-scopes":
		own, top, sub, mixed := cs.V&1 != 0, cs.V&2 != 0, cs.V&4 != 0, cs.V&8 != 0
		var body strings.Builder
		if top {
			body.WriteString(` grouping fields { leaf from-top { type string; } } container usetop { uses fields; }`)
		}
		for i := 0; i < cs.N; i++ {
			spell := "fields"
			if own != (mixed && i%2 == 1) {
				spell = "lib:fields"
			}
			fmt.Fprintf(&body, ` container scope%d { grouping fields { leaf from-scope%d { type int8; } leaf common { type string; } } container inner { uses %s; } list l { key k; leaf k { type string; } uses %s; } }`, i, i, spell, spell)
		}
		files := []dump.File{{Name: "lib.yang", Text: `module lib { namespace "urn:lib"; prefix lib;` + body.String() + ` }`}}
		if sub {
			files = []dump.File{{Name: "lib.yang", Text: `module lib { namespace "urn:lib"; prefix lib; include libsub; }`},
				{Name: "libsub.yang", Text: `submodule libsub { belongs-to lib { prefix lib; }` + body.String() + ` }`}}
		}
		for _, rev := range []bool{false, true} {
			ms, errs, lerr := scalekit.Load(files, rev)
			if lerr != nil || len(errs) > 0 {
				return scalekit.Bad("spurious-errors", "loads and processes", fmt.Sprint(lerr, dump.Errors(errs)))
			}
			root := yang.ToEntry(ms.Modules["lib"])
			names := func(e *yang.Entry) string {
				var ks []string
				if e != nil {
					for k := range e.Dir {
						ks = append(ks, k)
					}
				}
				sortStrings(ks)
				return strings.Join(ks, " ")
			}
			if top {
				if got := names(root.Dir["usetop"]); got != "from-top" {
					return scalekit.Bad("uses-binds-a-grouping-of-another-scope", "usetop: from-top", got)
				}
			}
			for i := 0; i < cs.N; i++ {
				sc := root.Dir[fmt.Sprintf("scope%d", i)]
				want := fmt.Sprintf("common from-scope%d", i)
				if got := names(scalekit.Down(sc, "inner")); got != want {
					return scalekit.Bad("uses-binds-a-grouping-of-another-scope", fmt.Sprintf("scope%d/inner: %s", i, want), got)
				}
				if got := names(scalekit.Down(sc, "l")); got != want+" k" {
					return scalekit.Bad("uses-binds-a-grouping-of-another-scope", fmt.Sprintf("scope%d/l: %s k", i, want), got)
				}
			}
		}
	case "uses-substatements":
		// the nodes of a grouping carry n if-feature, n must and n extension statements; three uses
		// statements, in the defining and in another module, add an if-feature, a when and an
		// extension statement of their own. Every copy must be what it is when its uses statement is
		// the only one: what one uses statement adds must not show in the copies of another.
		usesText := func(i int) string {
			return fmt.Sprintf(`uses G { if-feature u%d; when "%d = %d"; a:ext "use%d"; }`, i, i, i, i)
		}
		mods := func(which []int) []dump.File {
			var sb strings.Builder
			sb.WriteString(`module a { namespace "urn:a"; prefix a; extension ext { argument v; }`)
			for i := 0; i < 4; i++ {
				fmt.Fprintf(&sb, " feature u%d;", i)
			}
			for i := 0; i < cs.N; i++ {
				fmt.Fprintf(&sb, " feature f%d;", i)
			}
			body := func(pfx string) string {
				var b strings.Builder
				for i := 0; i < cs.N; i++ {
					fmt.Fprintf(&b, ` if-feature f%d; must "%d"; %sext "g%d";`, i, i, pfx, i)
				}
				return b.String()
			}
			fmt.Fprintf(&sb, ` grouping g { leaf x { type string;%s } container c {%s leaf y { type string; } } leaf-list z { type string;%s } }`, body("a:"), body("a:"), body("a:"))
			var sa, sbm strings.Builder
			for _, i := range which {
				u := strings.Replace(usesText(i), "uses G", "uses g", 1)
				if i%2 == 0 {
					fmt.Fprintf(&sa, " container k%d { %s }", i, u)
				} else {
					fmt.Fprintf(&sbm, " container k%d { %s }", i, strings.Replace(strings.Replace(u, "uses g", "uses a:g", 1), "if-feature u", "if-feature a:u", 1))
				}
			}
			sb.WriteString(sa.String() + " }")
			return []dump.File{{Name: "a.yang", Text: sb.String()}, {Name: "b.yang", Text: `module b { namespace "urn:b"; prefix b; import a { prefix a; }` + sbm.String() + ` }`}}
		}
		inst := func(ms *yang.Modules, i int) string {
			root := yang.ToEntry(ms.Modules["a"])
			if i%2 == 1 {
				root = yang.ToEntry(ms.Modules["b"])
			}
			var sb strings.Builder
			dump.Entry(&sb, root.Dir[fmt.Sprintf("k%d", i)], "", dump.Options{}, map[*yang.Entry]bool{})
			// ... and what the other substatements kept on every node say, not only how many there are
			var walk func(e *yang.Entry, path string)
			walk = func(e *yang.Entry, path string) {
				var ks []string
				for k := range e.Extra {
					ks = append(ks, k)
				}
				sortStrings(ks)
				for _, k := range ks {
					fmt.Fprintf(&sb, "%s %s:", path, k)
					for _, v := range e.Extra[k] {
						if n, ok := v.(yang.Node); ok {
							fmt.Fprintf(&sb, " %q", n.NName())
						} else {
							fmt.Fprintf(&sb, " %v", v)
						}
					}
					sb.WriteString("\n")
				}
				var cs []string
				for k := range e.Dir {
					cs = append(cs, k)
				}
				sortStrings(cs)
				for _, k := range cs {
					walk(e.Dir[k], path+"/"+k)
				}
			}
			walk(root.Dir[fmt.Sprintf("k%d", i)], "")
			return sb.String()
		}
		all := []int{0, 1, 2, 3}
		msAll, errs, lerr := scalekit.Load(mods(all), false)
		if lerr != nil || len(errs) > 0 {
			return scalekit.Bad("spurious-errors", "loads and processes", fmt.Sprint(lerr, dump.Errors(errs)))
		}
		for _, i := range all {
			msOne, errs, lerr := scalekit.Load(mods([]int{i}), false)
			if lerr != nil || len(errs) > 0 {
				return scalekit.Bad("spurious-errors", "loads and processes", fmt.Sprint(lerr, dump.Errors(errs)))
			}
			if want, got := inst(msOne, i), inst(msAll, i); want != got {
				return scalekit.Bad("copy-changes-with-the-other-uses-statements", want, got)
			}
		}
	case "grouping-chain":
		ms, errs, lerr := scalekit.Load([]dump.File{scale.GroupingChain(cs.N, false)}, false)
		if lerr != nil || len(errs) > 0 {
			return scalekit.Bad("spurious-errors", "loads and processes", fmt.Sprint(lerr, dump.Errors(errs)))
		}
		e := yang.ToEntry(ms.Modules["m"]).Dir["c"]
		for i := 1; i <= cs.N; i++ {
			if e == nil || e.Dir[fmt.Sprintf("l%d", i)] == nil {
				return scalekit.Bad("copy-incomplete", fmt.Sprintf("leaf l%d at level %d", i, i), "missing")
			}
			e = e.Dir[fmt.Sprintf("c%d", i)]
		}
	}
	return scalekit.OK()
}
