// Package c06 decides C06: every use of a grouping is an independent, faithful, locally scoped copy.
// The USES family (grouping definition site x body x pair of using sites x type spelling) is
// enumerated; (1) every tree is compared node by node with the reference inlining of package ir
// (names, kinds, types resolved in the definition scope, defaults, list attributes, nesting, and
// namespace / instantiating module of the using module); (2) independence: one instance is
// mutated by an augment or by a deviation of each kind from a further module, and every other
// instance must dump exactly as without the mutating module.
package c06

import (
	"encoding/json"
	"fmt"
	"sort"
	"strings"

	"github.com/openconfig/goyang/pkg/yang"
	"verif/mc/core"
	"verif/mc/dump"
	"verif/mc/explore"
	"verif/mc/gen/fam"
	"verif/mc/gen/ir"
	"verif/mc/gen/ircmp"
	"verif/mc/props/scalekit"
)

type Input struct {
	Desc    string      `json:"desc"`
	Files   []dump.File `json:"files"`
	Mutant  *dump.File  `json:"mutating_module,omitempty"`
	Mutant2 *dump.File  `json:"second_mutating_module,omitempty"`
	Victim  string      `json:"mutated_instance,omitempty"`
	Others  []string    `json:"other_instances,omitempty"`
	// expectation for phase 1 is recomputed from the generator on replay via Index
	Index int            `json:"index"`
	Scale *scalekit.Case `json:"scale,omitempty"`
}

type fail struct {
	fp, exp, obs string
	classes      []string
}

func classes(c fam.Case) []string {
	var cl []string
	for k := range c.Flags {
		cl = append(cl, k)
	}
	sort.Strings(cl)
	return cl
}

func reversed(xs []string) []string {
	out := make([]string, len(xs))
	for i, x := range xs {
		out[len(xs)-1-i] = x
	}
	return out
}

// phase 1: faithful copy
func checkCopy(c fam.Case) *fail {
	w := c.W
	w.Build()
	if len(w.MustError) > 0 {
		panic("USES generator produced a program the reference rejects: " + c.Desc + ": " + strings.Join(w.MustError, "; "))
	}
	var f *fail
	pan, pt := core.Guard(func() {
		for _, ord := range [][]string{w.Order, reversed(w.Order)} {
			ms, lerr, errs := ircmp.Load(w, ord)
			if lerr != nil {
				f = &fail{"load-error", "loads", lerr.Error(), classes(c)}
				return
			}
			if len(errs) > 0 {
				f = &fail{"process-errors", "no errors", dump.Errors(errs), classes(c)}
				return
			}
			var diffs []string
			for _, m := range []string{"a", "b"} {
				for _, d := range ircmp.Compare(w.Trees[m], yang.ToEntry(ms.Modules[m]), ircmp.All) {
					diffs = append(diffs, m+d)
				}
			}
			if len(diffs) > 0 {
				f = &fail{"copy-differs-from-reference-inlining", "the reference tree", strings.Join(diffs, "\n"), classes(c)}
				return
			}
			if p := usesRecords(ms, false); p != "" {
				f = &fail{"uses-records-without-the-option", "no Entry.Uses records", p, classes(c)}
				return
			}
			// lookups in the statement tree walk through the uses statements into the groupings; a
			// processing run after them builds the same trees
			for _, m := range []string{"a", "b"} {
				mod := ms.Modules[m]
				for _, top := range sortedKids(w.Trees[m]) {
					for _, k := range sortedKids(top) {
						if top.Kind == "rpc" || top.Kind == "choice" || top.Kind == "notification" || k.Kind == "case" || k.Implicit {
							continue
						}
						path := "/" + mod.GetPrefix() + ":" + top.Name + "/" + k.Name
						yang.FindNode(mod, path) // (what it finds is not C06's business: it does not look into submodules)
					}
				}
			}
			if errs := ms.Process(); len(errs) > 0 {
				f = &fail{"process-errors:after-statement-tree-lookups", "no errors", dump.Errors(errs), classes(c)}
				return
			}
			for _, m := range []string{"a", "b"} {
				if d := ircmp.Compare(w.Trees[m], yang.ToEntry(ms.Modules[m]), ircmp.All); len(d) > 0 {
					f = &fail{"copy-differs-from-reference-inlining:after-statement-tree-lookups", "the reference tree", m + strings.Join(d, "\n"+m), classes(c)}
					return
				}
			}
		}
		// the same with the option that records, on every node, the uses statements written in it:
		// the copies are what they are without it, and the records name the statements in order
		ms := yang.NewModules()
		ms.ParseOptions.StoreUses = true
		for _, n := range w.Order {
			if err := ms.Parse(w.Mods[n].Text(), n+".yang"); err != nil {
				f = &fail{"load-error", "loads", err.Error(), classes(c)}
				return
			}
		}
		if errs := ms.Process(); len(errs) > 0 {
			f = &fail{"process-errors:store-uses", "no errors", dump.Errors(errs), classes(c)}
			return
		}
		var diffs []string
		for _, m := range []string{"a", "b"} {
			for _, d := range ircmp.Compare(w.Trees[m], yang.ToEntry(ms.Modules[m]), ircmp.All) {
				diffs = append(diffs, m+d)
			}
		}
		if len(diffs) > 0 {
			f = &fail{"copy-differs-from-reference-inlining:store-uses", "the reference tree", strings.Join(diffs, "\n"), classes(c)}
			return
		}
		if p := usesRecords(ms, true); p != "" {
			f = &fail{"uses-records-wrong", "one record per uses statement written in the node, in order, each with its grouping", p, classes(c)}
		}
	})
	if pan {
		return &fail{"panic@" + core.LastPanicSite, "no panic", pt, classes(c)}
	}
	return f
}

func sortedKids(e *ir.E) []*ir.E {
	var ks []string
	for k := range e.Kids {
		ks = append(ks, k)
	}
	sort.Strings(ks)
	var out []*ir.E
	for _, k := range ks {
		out = append(out, e.Kids[k])
	}
	return out
}

// usesRecords checks Entry.Uses on every node of every module: empty without the option; with it,
// the records of a node begin with one record per uses statement written in that node, in order.
func usesRecords(ms *yang.Modules, on bool) string {
	var problem string
	seen := map[*yang.Entry]bool{}
	var walk func(e *yang.Entry, path string)
	walk = func(e *yang.Entry, path string) {
		if e == nil || seen[e] || problem != "" {
			return
		}
		seen[e] = true
		if !on && len(e.Uses) > 0 {
			problem = fmt.Sprintf("%s has %d records", path, len(e.Uses))
			return
		}
		if on && e.Node != nil && e.Node.Statement() != nil && e.Kind != yang.CaseEntry || on && e.Node != nil && e.Node.Statement() != nil && e.Node.Statement().Keyword == "case" {
			var written []string
			for _, st := range e.Node.Statement().SubStatements() {
				if st.Keyword == "uses" {
					written = append(written, st.Argument)
				}
			}
			if len(e.Uses) < len(written) {
				problem = fmt.Sprintf("%s: %d uses statements written, %d records", path, len(written), len(e.Uses))
				return
			}
			for i, arg := range written {
				u := e.Uses[i]
				if u == nil || u.Uses == nil || u.Grouping == nil || u.Uses.Name != arg || u.Grouping.Name != arg[strings.Index(arg, ":")+1:] {
					problem = fmt.Sprintf("%s: record %d does not describe uses %s", path, i, arg)
					return
				}
			}
		}
		for k, c := range ircmp.Kids(e) {
			walk(c, path+"/"+k)
		}
	}
	for n, m := range ms.Modules {
		if !strings.Contains(n, "@") {
			walk(yang.ToEntry(m), "/"+n)
		}
	}
	return problem
}

// subtree dumps the subtree below a top-level node of a module, positions off.
func subtree(ms *yang.Modules, mod, node string) string {
	m := ms.Modules[mod]
	if m == nil {
		return "<no module " + mod + ">"
	}
	e := yang.ToEntry(m).Dir[node]
	if e == nil {
		return "<no node " + node + ">"
	}
	var sb strings.Builder
	dump.Entry(&sb, e, "", dump.Options{}, map[*yang.Entry]bool{})
	return sb.String()
}

// firstInside returns the path (names) from the site's wrapper node to a node of the grouping copy
// of the wanted kind, searching the expected tree.
func firstInside(t *ir.E, want func(*ir.E) bool) []string {
	var found []string
	var rec func(e *ir.E, path []string)
	rec = func(e *ir.E, path []string) {
		if found != nil {
			return
		}
		if want(e) && len(path) > 1 {
			found = append([]string{}, path...)
			return
		}
		var ks []string
		for k := range e.Kids {
			ks = append(ks, k)
		}
		sort.Strings(ks)
		for _, k := range ks {
			rec(e.Kids[k], append(path, k))
		}
	}
	rec(t, []string{t.Name})
	return found
}

type mutation struct {
	name string
	want func(*ir.E) bool
	text func(path string) string
}

var mutations = []mutation{
	{"augment-leaf", func(e *ir.E) bool {
		return e.Kind == "container" || e.Kind == "list" || e.Kind == "case" || e.Kind == "input"
	}, func(p string) string {
		return `augment "` + p + `" { leaf zz { type string; } }`
	}},
	{"deviate-not-supported", func(e *ir.E) bool { return e.Kind == "leaf" }, func(p string) string { return `deviation "` + p + `" { deviate not-supported; }` }},
	{"deviate-replace-type", func(e *ir.E) bool { return e.Kind == "leaf" }, func(p string) string {
		return `deviation "` + p + `" { deviate replace { type boolean; } }`
	}},
	{"deviate-add-default-units", func(e *ir.E) bool { return e.Kind == "leaf" && e.Default == "" && e.Name != "k" }, func(p string) string {
		return `deviation "` + p + `" { deviate add { default 7; units uu; } }`
	}},
	{"deviate-replace-config-mandatory", func(e *ir.E) bool { return e.Kind == "leaf" && e.Name != "k" }, func(p string) string {
		return `deviation "` + p + `" { deviate replace { config false; } deviate add { mandatory true; } }`
	}},
	{"deviate-replace-min-max", func(e *ir.E) bool { return e.Kind == "list" || e.Kind == "leaf-list" }, func(p string) string {
		return `deviation "` + p + `" { deviate replace { min-elements 3; max-elements 5; } }`
	}},
	{"deviate-replace-default", func(e *ir.E) bool { return e.Kind == "leaf" && e.Default != "" }, func(p string) string {
		return `deviation "` + p + `" { deviate replace { default 9; } }`
	}},
	{"deviate-add-default-leaf-list", func(e *ir.E) bool { return e.Kind == "leaf-list" }, func(p string) string {
		return `deviation "` + p + `" { deviate add { default 8; } }`
	}},
	{"deviate-replace-default-leaf-list", func(e *ir.E) bool { return e.Kind == "leaf-list" && e.Default != "" }, func(p string) string {
		return `deviation "` + p + `" { deviate replace { default 8; } }`
	}},
	{"deviate-delete-default", func(e *ir.E) bool { return e.Kind == "leaf" && e.Default != "" }, func(p string) string {
		return `deviation "` + p + `" { deviate delete { default 3; } }`
	}},
}

// phase 2: independence. For every site as victim and every applicable mutation.
func checkIndependence(c fam.Case, report func(in Input, f *fail), count func()) {
	w := c.W
	if len(c.Sites) < 2 {
		return
	}
	base, lerr, errs := ircmp.Load(w, w.Order)
	if lerr != nil || len(errs) > 0 {
		return // phase 1 reports that
	}
	for vi, victim := range c.Sites {
		vmod := victim[0]
		if vmod == "as" || vmod == "as2" {
			vmod = "a"
		}
		vt := w.Trees[vmod].Kids[victim[1]]
		if vt == nil {
			continue
		}
		for _, mu := range mutations {
			names := firstInside(vt, mu.want)
			if names == nil {
				continue
			}
			path := ""
			for _, n := range names {
				path += "/" + vmod + ":" + n
			}
			text := `module mu { namespace "urn:mu"; prefix mu; import a { prefix a; } import b { prefix b; } ` + mu.text(path) + ` }`
			mfile := dump.File{Name: "mu.yang", Text: text}
			var others []string
			for oi, o := range c.Sites {
				if oi != vi {
					others = append(others, o[0]+"/"+o[1])
				}
			}
			in := Input{Desc: c.Desc + " mutation=" + mu.name, Files: ircmp.Files(w, w.Order), Mutant: &mfile, Victim: victim[0] + "/" + victim[1], Others: others}
			count()
			if f := independence(base, in); f != nil {
				f.classes = classes(c)
				report(in, f)
			}
		}
	}
}

// checkBoth mutates both instances at once (the same kind of mutation, from two modules): each
// instance must come out exactly as in the run where it alone was mutated.
func checkBoth(c fam.Case, report func(in Input, f *fail), count func()) {
	w := c.W
	if len(c.Sites) != 2 {
		return
	}
	files := ircmp.Files(w, w.Order)
	for _, mu := range mutations {
		var texts [2]string
		ok := true
		for vi, victim := range c.Sites {
			vmod := victim[0]
			if vmod == "as" || vmod == "as2" {
				vmod = "a"
			}
			vt := w.Trees[vmod].Kids[victim[1]]
			if vt == nil {
				ok = false
				break
			}
			names := firstInside(vt, mu.want)
			if names == nil {
				ok = false
				break
			}
			path := ""
			for _, n := range names {
				path += "/" + vmod + ":" + n
			}
			body := mu.text(path)
			body = strings.ReplaceAll(strings.ReplaceAll(body, "default 8;", fmt.Sprintf("default 8%d;", vi)), "default 9;", fmt.Sprintf("default 9%d;", vi))
			texts[vi] = fmt.Sprintf(`module mu%d { namespace "urn:mu%d"; prefix mu%d; import a { prefix a; } import b { prefix b; } %s }`, vi, vi, vi, body)
		}
		if !ok {
			continue
		}
		count()
		in := Input{Desc: c.Desc + " both-mutated=" + mu.name, Files: files, Mutant: &dump.File{Name: "mu0.yang", Text: texts[0]}, Mutant2: &dump.File{Name: "mu1.yang", Text: texts[1]},
			Victim: c.Sites[0][0] + "/" + c.Sites[0][1], Others: []string{c.Sites[1][0] + "/" + c.Sites[1][1]}}
		if f := both(in); f != nil {
			f.classes = classes(c)
			report(in, f)
		}
	}
}

func both(in Input) *fail {
	var f *fail
	pan, pt := core.Guard(func() {
		sub := func(r dump.Result, site string) string {
			mod, node, _ := strings.Cut(site, "/")
			if mod == "as" || mod == "as2" {
				mod = "a"
			}
			return subtree(r.MS, mod, node)
		}
		r0 := dump.Run(append(append([]dump.File{}, in.Files...), *in.Mutant), dump.Options{})
		r1 := dump.Run(append(append([]dump.File{}, in.Files...), *in.Mutant2), dump.Options{})
		if len(r0.ProcErrs)+len(r1.ProcErrs) > 0 {
			return // the single-mutation phase reports that
		}
		for _, files := range [][]dump.File{
			append(append([]dump.File{}, in.Files...), *in.Mutant, *in.Mutant2),
			append([]dump.File{*in.Mutant2, *in.Mutant}, in.Files...),
		} {
			rb := dump.Run(files, dump.Options{})
			if len(rb.ProcErrs) > 0 {
				f = &fail{"both-mutations-give-errors", "no errors", dump.Errors(rb.ProcErrs), nil}
				return
			}
			if want, got := sub(r0, in.Victim), sub(rb, in.Victim); want != got {
				f = &fail{"instances-interfere-when-both-are-mutated", want, got, nil}
				return
			}
			if want, got := sub(r1, in.Others[0]), sub(rb, in.Others[0]); want != got {
				f = &fail{"instances-interfere-when-both-are-mutated", want, got, nil}
				return
			}
		}
	})
	if pan {
		return &fail{"panic@" + core.LastPanicSite, "no panic", pt, nil}
	}
	return f
}

func independence(base *yang.Modules, in Input) *fail {
	var f *fail
	pan, pt := core.Guard(func() {
		if base == nil {
			r := dump.Run(in.Files, dump.Options{})
			base = r.MS
		}
		for _, ord := range explore.Perms(2) {
			files := append([]dump.File{}, in.Files...)
			if ord[0] == 1 {
				files = append([]dump.File{*in.Mutant}, files...)
			} else {
				files = append(files, *in.Mutant)
			}
			r := dump.Run(files, dump.Options{})
			for _, e := range r.LoadErrs {
				if e != "" {
					f = &fail{"mutating-module-does-not-load", "loads", e, nil}
					return
				}
			}
			if len(r.ProcErrs) > 0 {
				f = &fail{"mutation-gives-errors", "no errors", dump.Errors(r.ProcErrs), nil}
				return
			}
			for _, o := range in.Others {
				mod, node, _ := strings.Cut(o, "/")
				if mod == "as" || mod == "as2" {
					mod = "a"
				}
				want, got := subtree(base, mod, node), subtree(r.MS, mod, node)
				if want != got {
					f = &fail{"other-instance-changed", want, got, nil}
					return
				}
			}
			// and the mutation must have reached the victim
			mod, node, _ := strings.Cut(in.Victim, "/")
			if mod == "as" || mod == "as2" {
				mod = "a"
			}
			if subtree(base, mod, node) == subtree(r.MS, mod, node) {
				f = &fail{"mutation-had-no-effect-on-its-target", "a changed subtree", subtree(r.MS, mod, node), nil}
				return
			}
		}
	})
	if pan {
		return &fail{"panic@" + core.LastPanicSite, "no panic", pt, nil}
	}
	return f
}

const nShards = 32

func shards(tier string) []string {
	var out []string
	for i := 0; i < nShards; i++ {
		out = append(out, fmt.Sprintf("uses/%d", i))
	}
	return append(out, scalekit.ShardNames()...)
}

func run(c *core.Ctx) {
	if strings.HasPrefix(c.Shard, "scale/") {
		scalekit.Run(c, c.Shard, scaleCases(c.Tier), checkScale, func(cs scalekit.Case) any { return Input{Scale: &cs} })
		return
	}
	var shard int
	fmt.Sscanf(c.Shard, "uses/%d", &shard)
	c.Res.Bound = "grouping g (10 bodies incl. nested uses to depth 3, list, leaf-list, choice, action, local typedef, default, anydata) defined at 4 sites (top of a, inside a container of a, top of submodule as, top of b) x all pairs of 10 using sites (containers of a, b, as; config-false container; list; case; rpc input; rpc output; notification; nested container) x type spelled string / shadowed typedef t; 2 load orders; independence: each instance mutated by 7 kinds of augment/deviation from a further module, 2 load positions"
	i := 0
	fam.USES(c.Tier, func(cs fam.Case) {
		i++
		if (i-1)%nShards != shard || c.Expired() {
			return
		}
		caseNo, run := c.Begin()
		in := Input{Desc: cs.Desc, Files: ircmp.Files(cs.W, cs.W.Order), Index: i - 1}
		if c.Skip(caseNo, run, in) {
			return
		}
		c.Exec()
		c.Validate()
		c.Edge(2)
		c.StateN(1)
		c.NontrivialN(1)
		if f := checkCopy(cs); f != nil {
			c.Outcome("FAIL:" + f.fp)
			c.Fail(caseNo, f.classes, f.fp, in, f.exp, f.obs)
			return
		}
		c.Outcome("copy-faithful")
		if i%257 == 3 {
			b, _ := json.Marshal(in)
			c.Sample(string(b))
		}
		checkBoth(cs, func(in Input, f *fail) {
			c.Outcome("FAIL:" + f.fp)
			c.Fail(caseNo, f.classes, f.fp, in, f.exp, f.obs)
		}, func() {
			c.Exec()
			c.Validate()
			c.Edge(4)
			c.StateN(1)
			c.NontrivialN(1)
			c.Outcome("both-mutated-checked")
		})
		checkIndependence(cs, func(in Input, f *fail) {
			c.Outcome("FAIL:" + f.fp)
			c.Fail(caseNo, f.classes, f.fp, in, f.exp, f.obs)
		}, func() {
			c.Exec()
			c.Validate()
			c.Edge(2)
			c.StateN(1)
			c.NontrivialN(1)
			c.Outcome("independence-checked")
		})
	})
}

func replay(tier string, raw json.RawMessage) (bool, string, string) {
	var in Input
	if err := json.Unmarshal(raw, &in); err != nil {
		return false, "", err.Error()
	}
	if in.Scale != nil {
		v := checkScale(*in.Scale)
		return v.Fp != "", "scale:" + v.Fp, fmt.Sprintf("expected %s\nobserved %s", v.Exp, v.Obs)
	}
	var f *fail
	if in.Mutant2 != nil {
		f = both(in)
	} else if in.Mutant != nil {
		f = independence(nil, in)
	} else {
		i := 0
		fam.USES(tier, func(cs fam.Case) {
			if i == in.Index {
				f = checkCopy(cs)
			}
			i++
		})
	}
	if f == nil {
		return false, "", "as required"
	}
	return true, f.fp, fmt.Sprintf("expected %s\nobserved %s", f.exp, f.obs)
}

func init() {
	core.Register(&core.Prop{
		ID: "C06", Variant: "plain", Shards: shards, Run: run, Replay: replay,
		Rule:        "USES family: grouping definition site x body x unordered pair of using sites x type spelling, three files (module a with submodule as, module b importing a and vice versa, a typedef t declared differently at the top of a, at the top of b and inside a container of a). Phase 1: the trees of a and b are compared node by node with the reference inlining (package ir: lexical lookup of groupings and typedefs in the definition scope, copies attributed to the using module): name, kind, resolved type kind and nearest typedef name, default, min/max-elements, read-only flag, namespace, instantiating module, parent links, no missing or extra node. Phase 2: for every program with two instances of the grouping, every instance in turn is mutated from a further module by an augment adding a leaf or by one of six deviations; the other instance must dump exactly as in the run without the mutating module, and the mutated one must have changed. states = distinct programs and (program, victim, mutation) triples",
		Assumptions: []string{"the reference inliner of package ir", "refine and uses-augment are outside the claim and not generated", "groupings carrying config statements or actions are not used inside rpc/notification (generator constraints from the property's quantifier)"},
	})
}
