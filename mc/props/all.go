// Package props links every property harness into the worker.
package props

import (
	_ "verif/mc/props/c20"
)
