// Package props links every property harness into the worker.
package props

import (
	_ "verif/mc/props/c01"
	_ "verif/mc/props/c02"
	_ "verif/mc/props/c03"
	_ "verif/mc/props/c04"
	_ "verif/mc/props/c05"
	_ "verif/mc/props/c06"
	_ "verif/mc/props/c07"
	_ "verif/mc/props/c08"
	_ "verif/mc/props/c09"
	_ "verif/mc/props/c10"
	_ "verif/mc/props/c11"
	_ "verif/mc/props/c12"
	_ "verif/mc/props/c13"
	_ "verif/mc/props/c14"
	_ "verif/mc/props/c15"
	_ "verif/mc/props/c16"
	_ "verif/mc/props/c17"
	_ "verif/mc/props/c18"
	_ "verif/mc/props/c19"
	_ "verif/mc/props/c20"
)
