// Package c05 decides C05: same sources and options give the same result, whatever the load order
// and whatever order Go picks for the library's maps. A library of conflict scenarios is run under
// every permutation of load order x every map-iteration order within a deviation bound (the
// instrumented build makes each range-over-map a choice point); all executions of one scenario must
// produce the same canonical dump or the same error list. The instrumented goyang command is run
// on the same scenarios and its output must be byte-identical.
package c05

import (
	"encoding/json"
	"fmt"
	"github.com/openconfig/goyang/pkg/yang"
	"github.com/openconfig/goyang/pkg/yangentry"
	"hash/fnv"
	"os"
	"os/exec"
	"path/filepath"
	"regexp"
	"sort"
	"strconv"
	"strings"

	"verif/mc/core"
	"verif/mc/dump"
	"verif/mc/explore"
	"verif/mc/gen/scale"
	"verif/mc/order"
)

func H(n string) string { return fmt.Sprintf(`namespace "urn:%s"; prefix %s;`, n, n) }

type scenario struct {
	name    string
	files   []dump.File
	classes []string
}

const baseA = `identity base; identity other; leaf l { type string; default d; units u; } leaf m { type int8; mandatory true; } container c { leaf x { type string; } } leaf r { type identityref { base base; } } leaf-list ll { type string; min-elements 1; max-elements 5; } list li { key k; leaf k { type string; } } choice ch { default s1; leaf s1 { type string; } case c2 { leaf s2 { type string; } } } rpc op { input { leaf oi { type string; } } }`

func modA() dump.File {
	return dump.File{Name: "a.yang", Text: `module a { ` + H("a") + ` ` + baseA + ` }`}
}

func imp(n string) string { return `module ` + n + ` { ` + H(n) + ` import a { prefix a; } ` }

// Scenarios returns the conflict library as (name, files) pairs for other checks that want a corpus of module sets.
func Scenarios() (names []string, files [][]dump.File) {
	for _, s := range scenarios() {
		names = append(names, s.name)
		// for the other checks the modules that C05 leaves on the search path are plain members of the set
		var fs []dump.File
		for _, f := range s.files {
			fs = append(fs, dump.File{Name: strings.TrimPrefix(f.Name, "PATH/"), Text: f.Text})
		}
		files = append(files, fs)
	}
	return
}

func scenarios() []scenario {
	var out []scenario
	add := func(name string, classes []string, files ...dump.File) {
		out = append(out, scenario{name, files, classes})
	}
	f := func(n, body string) dump.File { return dump.File{Name: n + ".yang", Text: imp(n) + body + ` }`} }
	a := modA()
	// (a) identities of equal name in two or three modules under one base
	add("ident-same-name-2", nil, a, f("m1", `identity x { base a:base; }`), f("m2", `identity x { base a:base; }`))
	add("ident-same-name-3", nil, a, f("m1", `identity x { base a:base; }`), f("m2", `identity x { base a:base; }`), f("m3", `identity x { base a:base; } identity y { base x; }`))
	add("ident-multi-base", nil, a, f("m1", `identity x { base a:base; base a:other; } identity w { base x; }`), f("m2", `identity x { base a:other; } identity v { base x; base a:base; }`))
	// ... and in modules that declare the same prefix (prefixes need not be unique across a set)
	sp := func(n, body string) dump.File {
		return dump.File{Name: n + ".yang", Text: `module ` + n + ` { namespace "urn:` + n + `"; prefix p; import a { prefix a; } ` + body + ` }`}
	}
	add("ident-same-name-same-prefix", nil, a, sp("m1", `identity x { base a:base; }`), sp("m2", `identity x { base a:base; }`))
	add("ident-same-name-same-prefix-3", nil, a, sp("m1", `identity x { base a:base; } identity y { base x; }`), sp("m2", `identity x { base a:base; } identity y { base x; }`), sp("m3", `identity y { base a:base; } typedef t { type string; } leaf l { type t; }`))
	add("same-prefix-augment-deviate", nil, a, sp("m1", `augment /a:c { leaf y { type string; } } deviation /a:l { deviate replace { default P1; } }`), sp("m2", `augment /a:c { leaf z { type string; } } deviation /a:l { deviate replace { default P2; } }`))
	// (b) pairs of deviate statements of different kinds in one deviation
	devs := []string{`deviate delete { default d; }`, `deviate add { default e; }`, `deviate replace { default f; }`, `deviate add { units v; }`, `deviate replace { type int8; }`, `deviate delete { units u; }`, `deviate add { mandatory false; }`, `deviate replace { config false; }`}
	for i, d1 := range devs {
		for j, d2 := range devs {
			if i == j || d1[:14] == d2[:14] {
				continue
			}
			add(fmt.Sprintf("deviate-pair-%d-%d", i, j), nil, a, f("d", `deviation /a:l { `+d1+` `+d2+` }`))
		}
	}
	add("deviate-triple", nil, a, f("d", `deviation /a:ll { deviate replace { min-elements 2; } deviate add { default q; } deviate delete { max-elements 5; } }`))
	// (c) two modules deviating one node
	add("two-deviators-replace", nil, a, f("d", `deviation /a:l { deviate replace { default D; } }`), f("e", `deviation /a:l { deviate replace { default E; } }`))
	add("two-deviators-ns-replace", nil, a, f("d", `deviation /a:c/a:x { deviate not-supported; }`), f("e", `deviation /a:c/a:x { deviate replace { type int8; } }`))
	add("two-deviators-add-add", nil, a, f("d", `deviation /a:c/a:x { deviate add { default D; } }`), f("e", `deviation /a:c/a:x { deviate add { default E; } }`))
	add("two-deviators-list", nil, a, f("d", `deviation /a:ll { deviate replace { max-elements 3; } }`), f("e", `deviation /a:ll { deviate delete { max-elements 5; } }`))
	// (d) two modules augmenting one node
	add("augment-same-name", nil, a, f("b", `augment /a:c { leaf y { type string; } }`), f("c", `augment /a:c { leaf y { type int8; } }`))
	add("augment-diff-name", nil, a, f("b", `augment /a:c { leaf y { type string; } }`), f("c", `augment /a:c { leaf z { type int8; } }`))
	add("augment-existing-name", nil, a, f("b", `augment /a:c { leaf x { type int8; } }`), f("c", `augment /a:c { leaf z { type int8; } }`))
	add("augment-choice", nil, a, f("b", `augment /a:ch { leaf s3 { type string; } }`), f("c", `augment /a:ch { case c4 { leaf s4 { type int8; } } } augment /a:ch/a:c2 { leaf s5 { type string; } }`))
	add("augment-rpc", nil, a, f("b", `augment /a:op/a:input { leaf i2 { type string; } }`), f("c", `augment /a:op/a:output { leaf o2 { type int8; } } augment /a:op/a:input { leaf i3 { type string; } }`))
	// (e) augment chains across three modules
	add("augment-chain", nil, a, f("b", `augment /a:c { container e { leaf f { type string; } } }`), dump.File{Name: "c.yang", Text: imp("c") + `import b { prefix b; } augment /a:c/b:e { leaf g { type string; } } augment /a:c/b:e { container h; } }`},
		dump.File{Name: "d.yang", Text: imp("d") + `import b { prefix b; } import c { prefix c; } augment /a:c/b:e/c:h { leaf i { type string; } } }`})
	add("augment-chain-missing", nil, a, f("b", `augment /a:c/a:nosuch { leaf f { type string; } }`), f("c", `augment /a:nosuch2 { leaf g { type string; } } augment /a:c { leaf ok { type string; } }`))
	// (f) one module name in two revisions that both carry deviations
	add("two-revisions-deviate", nil, a,
		dump.File{Name: "d1.yang", Text: imp("d") + `revision 2020-01-01; deviation /a:l { deviate replace { default R1; } } }`},
		dump.File{Name: "d2.yang", Text: imp("d") + `revision 2021-01-01; deviation /a:l { deviate replace { default R2; } } }`})
	add("two-revisions-augment", nil, a,
		dump.File{Name: "b1.yang", Text: imp("b") + `revision 2020-01-01; augment /a:c { leaf y1 { type string; } } }`},
		dump.File{Name: "b2.yang", Text: imp("b") + `revision 2021-01-01; augment /a:c { leaf y2 { type string; } } }`})
	// ... and two revisions of the TARGET, each with augments that collide there or carry an error in
	// their body: what is found only once the augments are merged is reported for every revision
	add("two-revisions-of-the-target-augmented-with-problems", nil,
		dump.File{Name: "t1.yang", Text: `module t { ` + H("t") + ` revision 2020-01-01; container c { leaf x { type string; } } }`},
		dump.File{Name: "t2.yang", Text: `module t { ` + H("t") + ` revision 2021-01-01; container c { leaf x { type string; } leaf y { type string; } } }`},
		dump.File{Name: "u1.yang", Text: `module u1 { ` + H("u1") + ` import t { prefix t; revision-date 2020-01-01; } augment /t:c { leaf x { type int8; } } augment /t:c { leaf z { type u1:nosuch; } } }`},
		dump.File{Name: "u2.yang", Text: `module u2 { ` + H("u2") + ` import t { prefix t; } augment /t:c { leaf y { type int8; } leaf fine { type string; } } }`})
	// (g) errors in several modules and lines
	add("errors-many", nil,
		dump.File{Name: "a.yang", Text: "module a { " + H("a") + "\n leaf p { type nosuch1; }\n leaf q { type int8 { range \"5..1\"; } }\n leaf p2 { type nosuch1; }\n uses nog;\n container c { uses nog; leaf z { type nosuch2; } } }"},
		dump.File{Name: "b.yang", Text: "module b { " + H("b") + "\n leaf p { type nosuch1; }\n\n leaf q { type string { length \"a\"; } } leaf e { type enumeration { enum x { value 1; } enum y { value 1; } } } }"},
		dump.File{Name: "c.yang", Text: "module c { " + H("c") + " import a { prefix a; } leaf t { type a:nosuch; } augment /a:nosuch { leaf f { type string; } } deviation /a:nosuch { deviate not-supported; } }"})
	add("errors-import-missing", nil, f("b", `leaf t { type a:t; }`), f("c", `leaf u { type a:t; }`), dump.File{Name: "e.yang", Text: "module e { " + H("e") + " import nosuch { prefix n; } }"})
	add("errors-dup-leaf", nil, a, f("b", `leaf d { type string; } leaf d { type int8; } container k { leaf d { type string; } leaf d { type string; } }`), f("c", `augment /a:c { leaf x { type string; } } augment /a:c { leaf x { type int8; } }`))
	// (h) definitions spread over submodules
	add("submodules", nil,
		dump.File{Name: "m.yang", Text: `module m { ` + H("m") + ` include s1; include s2; leaf u { type t1; } container k { uses g2; } leaf ir { type identityref { base i1; } } }`},
		dump.File{Name: "s1.yang", Text: `submodule s1 { belongs-to m { prefix m; } typedef t1 { type int8; } identity i1; identity i3 { base i1; } container c1 { leaf a { type t1; } } }`},
		dump.File{Name: "s2.yang", Text: `submodule s2 { belongs-to m { prefix m; } include s1; grouping g2 { leaf b { type t1; } } identity i2 { base i1; } container c2 { uses g2; } augment /m:c1 { leaf aug { type string; } } }`})
	// one prefix bound to two different modules by a module and its submodule (prefixes are
	// scoped per file), reached from typedefs, identities, leaves, uses and augments
	add("submodule-one-prefix-two-modules", nil,
		dump.File{Name: "x.yang", Text: `module x { ` + H("x") + ` typedef t { type string; } identity b; grouping g { leaf gx { type t; } } container cx; }`},
		dump.File{Name: "y.yang", Text: `module y { ` + H("y") + ` typedef t { type int32; } identity b; grouping g { leaf gy { type t; } } container cy; }`},
		dump.File{Name: "m.yang", Text: `module m { ` + H("m") + ` import x { prefix p; } include s1; typedef tm { type p:t; } identity im { base p:b; } leaf lm { type tm; } leaf lm2 { type p:t; } container um { uses p:g; } augment /p:cx { leaf am { type p:t; } } leaf rm { type identityref { base p:b; } } }`},
		dump.File{Name: "s1.yang", Text: `submodule s1 { belongs-to m { prefix m; } import y { prefix p; } typedef ts { type p:t; } identity is { base p:b; } leaf ls { type ts; } leaf ls2 { type p:t; } container us { uses p:g; } augment /p:cy { leaf as { type p:t; } } leaf rs { type identityref { base p:b; } } }`})
	// names that a careless comparison takes for equal: differing only in case, only in the
	// separator, or ordered differently as numbers and as text - among siblings written together,
	// brought together by augments, among identities of one base, typedefs, enums and module names
	add("names-equal-under-folding", nil, a,
		f("m1", `container box { leaf MTU { type string; } leaf mtu { type string; } leaf Mtu { type string; } leaf a-b { type string; } leaf a_b { type string; } leaf a.b { type string; } leaf ab { type string; } leaf e10 { type string; } leaf e9 { type string; } leaf e09 { type string; } } identity X { base a:base; } identity x { base a:base; } identity x-1 { base a:base; } identity x_1 { base a:base; } typedef T { type string; } typedef t { type int8; } leaf lt { type T; } leaf lt2 { type t; } leaf en { type enumeration { enum A; enum a; enum B { value 5; } enum b { value 7; } } } augment /a:c { leaf ID { type string; } leaf Id { type string; } leaf id { type string; } }`),
		f("M1", `identity x { base a:base; } identity X { base a:base; } augment /a:c { leaf iD { type string; } leaf I-D { type string; } leaf I_D { type string; } } deviation /a:l { deviate replace { default M; } }`),
		f("m-1", `identity x { base a:base; } augment /a:c { leaf i.d { type string; } } augment /a:ch { leaf S1 { type string; } case C2 { leaf S2 { type string; } } }`))
	// a closure of more than 32 identities in which names repeat across modules
	add("many-identities-with-equal-names", nil, func() []dump.File {
		fs := []dump.File{{Name: "i0.yang", Text: "module i0 { " + H("i0") + " identity root; leaf r { type identityref { base root; } } }"}}
		for m := 1; m <= 3; m++ {
			var sb strings.Builder
			fmt.Fprintf(&sb, "module i%d { %s import i0 { prefix z; } identity a { base z:root; } identity k { base z:root; } identity z { base z:root; }", m, H(fmt.Sprintf("i%d", m)))
			for j := 0; j < 10; j++ {
				fmt.Fprintf(&sb, " identity own%d%d { base z:root; }", m, j)
			}
			sb.WriteString(" }")
			fs = append(fs, dump.File{Name: fmt.Sprintf("i%d.yang", m), Text: sb.String()})
		}
		return fs
	}()...)
	// more errors in one tree than any cap on error lists (130 unknown types, 130 bad ranges, in two
	// containers and at top level)
	add("many-errors-in-one-tree", nil, func() dump.File {
		var sb strings.Builder
		sb.WriteString("module me { " + H("me") + " container c1 {")
		for i := 0; i < 130; i++ {
			fmt.Fprintf(&sb, "\n leaf u%d { type nosuch%d; }", i, i)
		}
		sb.WriteString(" } container c2 {")
		for i := 0; i < 130; i++ {
			fmt.Fprintf(&sb, "\n leaf r%d { type int8 { range \"%d..1\"; } }", i, i+2)
		}
		sb.WriteString(" }")
		for i := 0; i < 40; i++ {
			fmt.Fprintf(&sb, "\n leaf t%d { type nosuch; }", i)
		}
		sb.WriteString(" }")
		return dump.File{Name: "me.yang", Text: sb.String()}
	}())
	// more derived identities than any small table holds, with identities reached along two paths
	add("identity-fan-with-joins", nil, func() dump.File { f := scale.IdentityFan(34); f.Name = "fan.yang"; return f }(),
		dump.File{Name: "fu.yang", Text: `module fu { ` + H("fu") + ` import m { prefix m; } identity far { base m:d3; base m:j9; } identity farther { base far; base m:d20; } leaf fr { type identityref { base m:root; } } }`})
	// typedef derivation cycles: one error per member, whichever member is entered first
	add("typedef-cycles", nil,
		dump.File{Name: "ty.yang", Text: `module ty { ` + H("ty") + ` include tys; import tz { prefix tz; } typedef a { type b; } typedef b { type a; } typedef p { type q; } typedef r { type p; }
 typedef x { type tz:y; } leaf la { type a; } leaf lp { type p; } leaf lx { type x; } typedef u1 { type union { type string; type u2; } } typedef u2 { type union { type u1; type int8; } } }`},
		dump.File{Name: "tys.yang", Text: `submodule tys { belongs-to ty { prefix ty; } typedef q { type ty:r; } }`},
		dump.File{Name: "tz.yang", Text: `module tz { ` + H("tz") + ` import ty { prefix ty; } typedef y { type ty:x; } leaf ly { type y; } }`})
	// derivation chains that pass through different typedefs of the same name (across imports, and
	// by shadowing in an inner scope)
	add("same-named-typedef-chains", nil,
		dump.File{Name: "na.yang", Text: `module na { ` + H("na") + ` import nb { prefix nb; } typedef percent { type nb:percent { range "0..50"; } units a; } leaf la { type percent; }
 typedef level { type int16; } typedef reading { type level; } container c { typedef level { type reading { range "1..9"; } } leaf lc { type level; } list li { key k; typedef reading { type level; } leaf k { type reading; } } } }`},
		dump.File{Name: "nb.yang", Text: `module nb { ` + H("nb") + ` import nc { prefix nc; } typedef percent { type nc:percent { range "0..90"; } default 7; } leaf lb { type percent; } }`},
		dump.File{Name: "nc.yang", Text: `module nc { ` + H("nc") + ` typedef percent { type uint8 { range "0..100"; } units c; } leaf lc { type percent; } }`})
	// several typedefs derived from one typedef whose accumulated pattern list has spare capacity
	// (3 and 5 patterns), each adding a pattern: resolved in dictionary order
	add("typedefs-narrowing-a-shared-pattern-list", nil,
		dump.File{Name: "pt.yang", Text: `module pt { ` + H("pt") + ` typedef b3 { type string { pattern "a.*"; pattern ".*b"; pattern "[a-z]*"; } } typedef b5 { type b3 { pattern ".c.*"; pattern ".*d."; } }
 typedef lower { type b3 { pattern "[a-m]*"; } } typedef upper { type b3 { pattern "[n-z]*"; } } typedef mid { type b3 { pattern "[g-s]*"; } }
 typedef l5 { type b5 { pattern "x*"; } } typedef u5 { type b5 { pattern "y*"; } }
 leaf ll { type lower; } leaf lu { type upper; } leaf lm { type mid; } leaf l5l { type l5; } leaf l5u { type u5; } leaf plain { type b3; } }`},
		dump.File{Name: "pu.yang", Text: `module pu { ` + H("pu") + ` import pt { prefix pt; } typedef other { type pt:b3 { pattern "[0-9]*"; } } leaf lo { type other; } leaf lb { type pt:b5; } }`})
	// a module whose revision statements are listed oldest first, next to the older revision itself
	add("revision-list-oldest-first", nil,
		dump.File{Name: "x-old.yang", Text: `module x { ` + H("x") + ` revision 2019-01-01; typedef t { type string { length "1..8"; } } leaf l { type t; default old; } }`},
		dump.File{Name: "x-new.yang", Text: `module x { ` + H("x") + ` revision 2019-01-01; revision 2020-06-01; typedef t { type string { length "1..64"; } } leaf l { type t; default new; } leaf b { type t; } }`},
		dump.File{Name: "user.yang", Text: `module user { ` + H("user") + ` import x { prefix x; } leaf u { type x:t; } container c { leaf v { type x:t; default dv; } } }`})
	// groupings that use each other across the module boundary: which uses is blamed
	add("mutual-groupings-across-modules", nil,
		dump.File{Name: "ma.yang", Text: `module ma { ` + H("ma") + ` import mb { prefix mb; } grouping ga { leaf la { type string; } uses mb:gb; } container ca { uses ga; } }`},
		dump.File{Name: "mb.yang", Text: `module mb { ` + H("mb") + ` import ma { prefix ma; } grouping gb { leaf lb { type string; } uses ma:ga; } container cb { uses gb; } }`})
	add("mutual-groupings-three-modules", nil,
		dump.File{Name: "ma.yang", Text: `module ma { ` + H("ma") + ` import mb { prefix mb; } grouping ga { uses mb:gb; } }`},
		dump.File{Name: "mb.yang", Text: `module mb { ` + H("mb") + ` import mc { prefix mc; } grouping gb { container k { uses mc:gc; } } }`},
		dump.File{Name: "mc.yang", Text: `module mc { ` + H("mc") + ` import ma { prefix ma; } grouping gc { uses ma:ga; } leaf l { type string; } }`})
	// two revisions of a module include the same submodule
	add("two-revisions-share-submodule", []string{"two-revisions-include-one-submodule"},
		dump.File{Name: "m1.yang", Text: `module m { ` + H("m") + ` revision 2020-01-01; include s; leaf a { type t; } }`},
		dump.File{Name: "m2.yang", Text: `module m { ` + H("m") + ` revision 2021-01-01; include s; leaf b { type t; } }`},
		dump.File{Name: "s.yang", Text: `submodule s { belongs-to m { prefix m; } typedef t { type int8; } leaf sl { type t; } container sc { leaf x { type string; } } }`})
	// ... and the submodule defines identities that both revisions, an importer that pins the older
	// revision and one that takes the latest derive from
	add("two-revisions-share-submodule-identities", []string{"two-revisions-include-one-submodule"},
		dump.File{Name: "m1.yang", Text: `module m { ` + H("m") + ` revision 2020-01-01; include s; identity d1 { base base-id; } leaf a { type identityref { base base-id; } } }`},
		dump.File{Name: "m2.yang", Text: `module m { ` + H("m") + ` revision 2021-01-01; include s; identity d2 { base base-id; } identity d3 { base sd; } leaf b { type identityref { base sd; } } }`},
		dump.File{Name: "s.yang", Text: `submodule s { belongs-to m { prefix m; } identity base-id; identity sd { base base-id; } leaf sl { type identityref { base base-id; } } }`},
		dump.File{Name: "x.yang", Text: `module x { ` + H("x") + ` import m { prefix m; revision-date 2020-01-01; } identity y { base m:base-id; } identity y2 { base m:sd; } leaf r { type identityref { base m:base-id; } } }`},
		dump.File{Name: "z.yang", Text: `module z { ` + H("z") + ` import m { prefix m; } identity w { base m:sd; } leaf r { type identityref { base m:base-id; } } }`})
	// modules that are not loaded but lie on the search path (file names behind "PATH/"): a
	// processing run fetches them when it meets the imports, in an order of its own choosing
	add("fetched-two-revisions-pinned-and-not", nil,
		dump.File{Name: "fd.yang", Text: `module fd { ` + H("fd") + ` import fc { prefix fc; } augment /fc:c { leaf y { type string; } } identity d { base fc:i; } }`},
		dump.File{Name: "fe.yang", Text: `module fe { ` + H("fe") + ` import fc { prefix fc; revision-date 2020-01-01; } leaf r { type identityref { base fc:i; } } }`},
		dump.File{Name: "PATH/fc.yang", Text: `module fc { ` + H("fc") + ` revision 2021-06-01; container c { leaf x { type string; } } identity i; }`},
		dump.File{Name: "PATH/fc@2020-01-01.yang", Text: `module fc { ` + H("fc") + ` revision 2020-01-01; container c { leaf old { type string; } } identity i; identity j { base i; } }`})
	add("fetched-imports-and-includes", nil,
		dump.File{Name: "fa.yang", Text: `module fa { ` + H("fa") + ` import fb { prefix fb; } import fg { prefix fg; } leaf l { type fb:t; } container c { uses fb:g; uses fg:g; } }`},
		dump.File{Name: "fh.yang", Text: `module fh { ` + H("fh") + ` import fg { prefix fg; } import fb { prefix fb; } identity h { base fg:i; } augment /fb:sc { leaf a { type fg:t; } } }`},
		dump.File{Name: "PATH/fb.yang", Text: `module fb { ` + H("fb") + ` include fbsub; import fg { prefix fg; } typedef t { type st; } grouping g { leaf gl { type t; } leaf gi { type identityref { base fg:i; } } } }`},
		dump.File{Name: "PATH/fbsub.yang", Text: `submodule fbsub { belongs-to fb { prefix fb; } typedef st { type int8 { range "1..9"; } } container sc { leaf sl { type st; } } }`},
		dump.File{Name: "PATH/fg.yang", Text: `module fg { ` + H("fg") + ` typedef t { type string; } identity i; grouping g { leaf fgl { type t; } } }`})
	add("uses-and-typedef-cross", nil, a, dump.File{Name: "g.yang", Text: `module g { ` + H("g") + ` typedef t { type int8 { range "1..9"; } } grouping gg { leaf gl { type t; } container gc { leaf gd { type t; default 3; } } } }`},
		dump.File{Name: "u.yang", Text: `module u { ` + H("u") + ` import g { prefix g; } import a { prefix a; } typedef t { type string; } container k1 { uses g:gg; } container k2 { uses g:gg; leaf own { type t; } } augment /a:c { uses g:gg; } deviation /u:k1/u:gl { deviate replace { type string; } } }`})
	// pairwise combinations of scenarios that extend module a with differently named modules
	var small []scenario
	for _, s := range out {
		if len(s.files) <= 3 && s.files[0].Name == "a.yang" && !strings.HasPrefix(s.name, "deviate-pair") {
			small = append(small, s)
		}
	}
	for i := 0; i < len(small); i++ {
		for j := i + 1; j < len(small); j++ {
			names := map[string]bool{}
			modRev := map[string]string{} // module name -> "rev" / "norev"; mixing both for one name is C13's known registry defect
			ok := true
			var fs []dump.File
			for _, x := range append(append([]dump.File{}, small[i].files...), small[j].files[1:]...) {
				if names[x.Name] {
					ok = false
				}
				names[x.Name] = true
				mn := strings.Fields(x.Text)[1]
				kind := "norev"
				if strings.Contains(x.Text, " revision ") {
					kind = "rev"
				}
				if k, seen := modRev[mn]; seen && (k != kind || kind == "norev") {
					ok = false
				}
				modRev[mn] = kind
				fs = append(fs, x)
			}
			if ok && len(fs) <= 4 {
				add("combo:"+small[i].name+"+"+small[j].name, nil, fs...)
			}
		}
	}
	return out
}

// Exec identifies one execution of a scenario.
type Exec struct {
	Order   []int `json:"order"`
	Choices []int `json:"choices"`
}

type Input struct {
	Scenario string      `json:"scenario"`
	Files    []dump.File `json:"files"`
	A, B     Exec
	CLI      string `json:"cli,omitempty"`  // format, for command-line cases
	Kind     string `json:"kind,omitempty"` // "list": the error list of execution A is malformed; else A and B differ
}

var posRe = regexp.MustCompile(`^([^:\s]+):(\d+):(\d+):`)

// errorListOK checks ordering by (file, line, column) and absence of duplicates.
func errorListOK(errs []error) string {
	seen := map[string]bool{}
	type pos struct {
		f    string
		l, c int
	}
	var last *pos
	for _, e := range errs {
		s := e.Error()
		if seen[s] {
			return "duplicate error: " + s
		}
		seen[s] = true
		if m := posRe.FindStringSubmatch(s); m != nil {
			l, _ := strconv.Atoi(m[2])
			c, _ := strconv.Atoi(m[3])
			p := pos{m[1], l, c}
			if last != nil && (p.f < last.f || (p.f == last.f && (p.l < last.l || (p.l == last.l && p.c < last.c)))) {
				return "errors not ordered by file, line, column: " + s + " after " + fmt.Sprintf("%s:%d:%d", last.f, last.l, last.c)
			}
			last = &p
		}
	}
	return ""
}

// viaYangentry: a directory holding the files of the scenario under way, when the run also goes
// through yangentry.Parse (first load order of every scenario); "" otherwise.
var viaYangentry string

// lastYangentry: what the last run got from yangentry.Parse ("" when it did not go that way).
var lastYangentry string

// yangentrySummary: what yangentry.Parse returns for the files read from disk in the given order -
// per name the revision and the number of top-level nodes of the tree filed under it, or the errors.
func yangentrySummary(fs []dump.File) string {
	var paths []string
	for _, f := range fs {
		paths = append(paths, filepath.Join(viaYangentry, f.Name))
	}
	entries, errs := yangentry.Parse(paths, nil)
	if len(errs) > 0 {
		return fmt.Sprintf("yangentry.Parse: %d errors", len(errs))
	}
	var keys []string
	for k := range entries {
		keys = append(keys, k)
	}
	sort.Strings(keys)
	var sb strings.Builder
	sb.WriteString("yangentry.Parse:")
	for _, k := range keys {
		e := entries[k]
		rev := ""
		if m, ok := e.Node.(*yang.Module); ok {
			rev = m.Current()
		}
		fmt.Fprintf(&sb, " %s=%s@%s/%d", k, e.Name, rev, len(e.Dir))
	}
	return sb.String()
}

// runOnce executes a scenario in a given load order under the map-order answers of x.
func runOnce(files []dump.File, ord []int, x *explore.X) (summary, listProblem string) {
	order.Install(func(n int, site string) int { return x.Choose(n, site) })
	defer order.Install(nil)
	var fs, onPath []dump.File
	for _, i := range ord {
		if strings.HasPrefix(files[i].Name, "PATH/") {
			onPath = append(onPath, files[i])
			continue
		}
		fs = append(fs, files[i])
	}
	withPath := func(ms *yang.Modules) {}
	if len(onPath) > 0 {
		// the same directory for every execution of a scenario (its name shows in positions)
		sort.Slice(onPath, func(i, j int) bool { return onPath[i].Name < onPath[j].Name })
		h := fnv.New32a()
		for _, f := range onPath {
			h.Write([]byte(f.Name + f.Text))
		}
		dir := filepath.Join(os.Getenv("VERIF_SCRATCH_DIR"), fmt.Sprintf("c05path-%x", h.Sum32()))
		if _, err := os.Stat(dir); err != nil {
			os.MkdirAll(dir, 0o755)
			for _, f := range onPath {
				os.WriteFile(filepath.Join(dir, strings.TrimPrefix(f.Name, "PATH/")), []byte(f.Text), 0o644)
			}
		}
		withPath = func(ms *yang.Modules) { ms.AddPath(dir) }
	}
	pan, pt := core.Guard(func() {
		r := dump.Run(fs, dump.Options{Positions: true}, withPath)
		summary = r.Summary()
		listProblem = errorListOK(r.ProcErrs)
		lastYangentry = ""
		if viaYangentry != "" {
			lastYangentry = yangentrySummary(fs)
			// ... and (first load order again) the same sources with the parse options switched on
			for _, f := range fs {
				if strings.Contains(f.Text, "deviat") || strings.Contains(f.Text, "include") {
					ro := dump.Run(fs, dump.Options{Positions: true}, func(ms *yang.Modules) {
						ms.ParseOptions.DeviateOptions.IgnoreDeviateNotSupported = true
						ms.ParseOptions.StoreUses = true
						ms.ParseOptions.IgnoreSubmoduleCircularDependencies = true
					}, withPath)
					lastYangentry += "\nwith the parse options:\n" + ro.Summary()
					if lp := errorListOK(ro.ProcErrs); lp != "" && listProblem == "" {
						listProblem = lp
					}
					break
				}
			}
		}
	})
	if pan {
		summary = "PANIC: " + pt
	}
	return
}

func bound(tier string) int {
	if tier == "thorough" {
		return 2
	}
	return 1
}

func shards(tier string) []string {
	var out []string
	for i := range scenarios() {
		out = append(out, fmt.Sprintf("lib/%d", i))
	}
	return append(out, "cli/tree", "cli/types")
}

func run(c *core.Ctx) {
	if !order.Active() {
		panic("C05 needs the worker built against the instrumented copy (variant order)")
	}
	c.Res.Bound = fmt.Sprintf("scenario library (8 conflict families and their pairwise combinations); all load orders of <= 4 sources; map-iteration deviations <= %d per execution (all permutations for <= 3 keys, rotations + adjacent transpositions + reversal beyond); the goyang command on 8 scenarios x 2 formats x single deviations", bound(c.Tier))
	sc := scenarios()
	if strings.HasPrefix(c.Shard, "cli/") {
		runCLI(c, sc, strings.TrimPrefix(c.Shard, "cli/"))
		return
	}
	var si int
	fmt.Sscanf(c.Shard, "lib/%d", &si)
	s := sc[si]
	b := bound(c.Tier)
	if len(s.files) >= 4 && b > 1 {
		b = 1 // four sources: 24 orders, keep the quadratic deviation space to three-source scenarios
	}
	outcomes := map[string]Exec{}
	youtcomes := map[string]Exec{} // what yangentry.Parse returned, first load order only
	var first, yfirst string
	caseNo, run := c.Begin()
	if c.Skip(caseNo, run, Input{Scenario: s.name, Files: s.files}) {
		return
	}
	ydir := filepath.Join(os.Getenv("VERIF_SCRATCH_DIR"), fmt.Sprintf("yangentry-%d", si))
	os.MkdirAll(ydir, 0o755)
	for _, f := range s.files {
		os.MkdirAll(filepath.Dir(filepath.Join(ydir, f.Name)), 0o755)
		os.WriteFile(filepath.Join(ydir, f.Name), []byte(f.Text), 0o644)
	}
	defer os.RemoveAll(ydir)
	for oi, ord := range explore.Perms(len(s.files)) {
		ord := ord
		viaYangentry = ""
		if oi == 0 {
			viaYangentry = ydir
		}
		st, complete := explore.DFS(b, func(x *explore.X) {
			sum, lp := runOnce(s.files, ord, x)
			if lp != "" {
				e := Exec{append([]int{}, ord...), append([]int{}, x.Choices...)}
				c.Fail(caseNo, s.classes, "error-list-malformed", Input{Scenario: s.name, Files: s.files, A: e, B: e, Kind: "list"}, "ordered by file:line:col, no duplicates", lp)
			}
			x.Labels = []string{sum, lastYangentry}
		}, func(x *explore.X) {
			sum := x.Labels[0]
			if y := x.Labels[1]; y != "" {
				if _, ok := youtcomes[y]; !ok {
					youtcomes[y] = Exec{append([]int{}, ord...), append([]int{}, x.Choices...)}
					if yfirst == "" {
						yfirst = y
					}
				}
			}
			if _, ok := outcomes[sum]; !ok {
				outcomes[sum] = Exec{append([]int{}, ord...), append([]int{}, x.Choices...)}
				if first == "" {
					first = sum
				}
			}
			c.StateN(1)
		}, c.Expired)
		c.Execs(st.Executions)
		c.Validates(st.Executions)
		c.Edge(st.Edges + 1)
		if !complete {
			break
		}
	}
	if nc := order.NonCanonical(); len(nc) > 0 {
		panic("map key types without canonical order: " + strings.Join(nc, ", "))
	}
	c.NontrivialN(1)
	if len(youtcomes) > 1 {
		var other string
		for k := range youtcomes {
			if k != yfirst && (other == "" || k < other) {
				other = k
			}
		}
		c.Outcome("FAIL:yangentry-outcomes")
		c.Fail(caseNo, s.classes, "second-route-outcome-depends-on-map-order", Input{Scenario: s.name, Files: s.files, A: youtcomes[yfirst], B: youtcomes[other], Kind: "yangentry"}, yfirst, other)
	}
	if len(outcomes) > 1 {
		var keys []string
		for k := range outcomes {
			keys = append(keys, k)
		}
		sort.Strings(keys)
		other := keys[0]
		if other == first {
			other = keys[1]
		}
		c.Outcome(fmt.Sprintf("FAIL:%d-outcomes", len(outcomes)))
		c.Fail(caseNo, s.classes, "outcome-depends-on-order", Input{Scenario: s.name, Files: s.files, A: outcomes[first], B: outcomes[other]}, first, other)
	} else {
		if strings.HasPrefix(first, "process errors") || strings.HasPrefix(first, "load[") {
			c.Outcome("one-outcome:errors")
		} else {
			c.Outcome("one-outcome:trees")
		}
		if si%9 == 0 {
			b, _ := json.Marshal(map[string]any{"scenario": s.name, "files": s.files, "load_orders": len(explore.Perms(len(s.files)))})
			c.Sample(string(b))
		}
	}
}

// ---------------------------------------------------------------------------------------------
// command line

func runCLI(c *core.Ctx, sc []scenario, format string) {
	cli := os.Getenv("VERIF_CLI")
	scratch := os.Getenv("VERIF_SCRATCH_DIR")
	if cli == "" || scratch == "" {
		panic("VERIF_CLI / VERIF_SCRATCH_DIR not set")
	}
	picked := 0
	for si, s := range sc {
		if strings.HasPrefix(s.name, "combo:") || strings.HasPrefix(s.name, "deviate-pair") || strings.HasPrefix(s.name, "errors") {
			continue
		}
		if c.Expired() {
			return
		}
		picked++
		dir := filepath.Join(scratch, fmt.Sprintf("cli-%s-%d", format, si))
		os.MkdirAll(dir, 0o755)
		var paths []string
		for _, f := range s.files {
			p := filepath.Join(dir, f.Name)
			os.MkdirAll(filepath.Dir(p), 0o755)
			os.MkdirAll(filepath.Dir(p), 0o755)
		os.WriteFile(p, []byte(f.Text), 0o644)
			paths = append(paths, p)
		}
		caseNo, run := c.Begin()
		if c.Skip(caseNo, run, Input{Scenario: s.name, Files: s.files, CLI: format}) {
			continue
		}
		invoke := func(prefix []int) (string, []int) {
			logf := filepath.Join(dir, "rt.log")
			os.Remove(logf)
			var ps []string
			for _, p := range prefix {
				ps = append(ps, strconv.Itoa(p))
			}
			cmd := exec.Command(cli, append([]string{"--format", format, "--path", dir}, paths...)...)
			cmd.Dir = dir
			cmd.Env = append(os.Environ(), "VERIFRT_PREFIX="+strings.Join(ps, ","), "VERIFRT_LOG="+logf)
			out, err := cmd.CombinedOutput()
			res := string(out)
			if err != nil {
				res += "\nEXIT: " + err.Error()
			}
			var widths []int
			if b, e := os.ReadFile(logf); e == nil {
				for _, l := range strings.Split(strings.TrimSpace(string(b)), "\n") {
					if l != "" {
						w, _ := strconv.Atoi(strings.Fields(l)[0])
						widths = append(widths, w)
					}
				}
			}
			return res, widths
		}
		base, widths := invoke(nil)
		c.Exec()
		c.StateN(1)
		c.Edge(1)
		failed := false
		for at := 0; at < len(widths) && !failed; at++ {
			for alt := 1; alt < widths[at]; alt++ {
				prefix := make([]int, at+1)
				prefix[at] = alt
				got, _ := invoke(prefix)
				c.Exec()
				c.Validate()
				c.StateN(1)
				c.Edge(1)
				if got != base {
					c.Outcome("FAIL:cli-output-differs")
					c.Fail(caseNo, s.classes, "cli-output-depends-on-map-order", Input{Scenario: s.name, Files: s.files, CLI: format, A: Exec{nil, nil}, B: Exec{nil, prefix}}, base, got)
					failed = true
					break
				}
			}
		}
		c.NontrivialN(1)
		if !failed {
			c.Outcome("cli-output-identical")
			if picked == 2 {
				b, _ := json.Marshal(map[string]any{"scenario": s.name, "format": format, "range_instances": len(widths)})
				c.Sample(string(b))
			}
		}
		os.RemoveAll(dir)
	}
}

func replay(tier string, raw json.RawMessage) (bool, string, string) {
	var in Input
	if err := json.Unmarshal(raw, &in); err != nil {
		return false, "", err.Error()
	}
	if !order.Active() {
		return false, "", "needs the order variant"
	}
	if in.CLI != "" {
		return replayCLI(in)
	}
	idOrd := in.A.Order
	// the first load order of a scenario also goes through yangentry.Parse
	ydir, _ := os.MkdirTemp(os.Getenv("VERIF_SCRATCH_DIR"), "yangentry-replay")
	defer os.RemoveAll(ydir)
	for _, f := range in.Files {
		os.MkdirAll(filepath.Dir(filepath.Join(ydir, f.Name)), 0o755)
		os.WriteFile(filepath.Join(ydir, f.Name), []byte(f.Text), 0o644)
	}
	first := func(ord []int) string {
		for i, o := range ord {
			if i != o {
				return ""
			}
		}
		return ydir
	}
	viaYangentry = first(idOrd)
	a, lpa := runOnce(in.Files, idOrd, explore.New(in.A.Choices))
	ya := lastYangentry
	viaYangentry = first(in.B.Order)
	b, lpb := runOnce(in.Files, in.B.Order, explore.New(in.B.Choices))
	yb := lastYangentry
	viaYangentry = ""
	if in.Kind == "yangentry" {
		if ya != yb {
			return true, "second-route-outcome-depends-on-map-order", fmt.Sprintf("execution A (map choices %v):\n%s\nexecution B (map choices %v):\n%s", in.A.Choices, ya, in.B.Choices, yb)
		}
		return false, "", "both executions agree"
	}
	if in.Kind == "list" {
		if lpa != "" {
			return true, "error-list-malformed", lpa
		}
		return false, "", "error list well-formed"
	}
	_ = lpb
	if a != b {
		return true, "outcome-depends-on-order", fmt.Sprintf("execution A (order %v, map choices %v):\n%s\nexecution B (order %v, map choices %v):\n%s", in.A.Order, in.A.Choices, a, in.B.Order, in.B.Choices, b)
	}
	return false, "", "both executions agree"
}

func replayCLI(in Input) (bool, string, string) {
	cli := os.Getenv("VERIF_CLI")
	dir, _ := os.MkdirTemp(os.Getenv("VERIF_SCRATCH_DIR"), "clireplay")
	defer os.RemoveAll(dir)
	var paths []string
	for _, f := range in.Files {
		p := filepath.Join(dir, f.Name)
		os.MkdirAll(filepath.Dir(p), 0o755)
		os.WriteFile(p, []byte(f.Text), 0o644)
		paths = append(paths, p)
	}
	run := func(prefix []int) string {
		var ps []string
		for _, p := range prefix {
			ps = append(ps, strconv.Itoa(p))
		}
		cmd := exec.Command(cli, append([]string{"--format", in.CLI, "--path", dir}, paths...)...)
		cmd.Dir = dir
		cmd.Env = append(os.Environ(), "VERIFRT_PREFIX="+strings.Join(ps, ","))
		out, _ := cmd.CombinedOutput()
		return string(out)
	}
	a, b := run(in.A.Choices), run(in.B.Choices)
	if a != b {
		return true, "cli-output-depends-on-map-order", a + "\n---\n" + b
	}
	return false, "", "identical output"
}

func init() {
	core.Register(&core.Prop{
		ID: "C05", Variant: "order", NoResume: true, Shards: shards, Run: run, Replay: replay,
		Rule:        "for every scenario of the conflict library (equal identity names, pairs of deviate kinds in one deviation, two deviating modules, two augmenting modules with equal/different/existing child names, augment chains and missing targets, two revisions of one module, errors spread over modules and lines, definitions spread over submodules, and pairwise combinations): every permutation of load order x every map-iteration order within the deviation bound is one execution of the real (instrumented) library; all executions of a scenario must give the same canonical dump (all exported attributes, positions, identity value sequences) or the same error list; every error list must be ordered by file, line, column without duplicates; the instrumented goyang command must print byte-identical tree and types renderings under every single deviation. states = distinct (scenario, load order, map-order answers); transitions = choice edges",
		Assumptions: []string{"the instrumented copy behaves like the original under canonical order (the repository's suite is run on it each time)", "for maps with more than three keys rotations, adjacent transpositions and the reversal stand for all permutations"},
	})
}
