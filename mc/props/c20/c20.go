// Package c20 decides C20: the indenting writer is chunk-independent and accounts bytes truthfully.
// Exhaustive fault enumeration: all texts over {a,b,\n} up to a length x prefixes x all
// compositions into Write calls (plus one empty Write at every position) x every stop point of the
// underlying writer, against a reference indenter that keeps a source-index map.
package c20

import (
	"encoding/hex"
	"encoding/json"
	"errors"
	"fmt"
	"io"
	"strings"
	"unicode/utf8"

	"github.com/openconfig/goyang/pkg/indent"
	"verif/mc/core"
)

// the last two prefixes consist of bytes of the text alphabet: a chunk may end in (or be) the prefix
var prefixes = []string{">", ">>", ">\n", "", "\t ", "a", "ab"}
var alpha = []byte{'a', '\n', 'b'}

// Input is one execution: the chunks are written in order; the underlying writer accepts Budget
// bytes in total and then stops short with an error (Budget < 0: never fails).
type Input struct {
	Prefix string   `json:"prefix"`
	Chunks []string `json:"chunks"`
	Budget int      `json:"budget"`
	Hex    bool     `json:"hex,omitempty"` // prefix and chunks are spelled in hexadecimal
	// Rich: the underlying writer is not a bare io.Writer but also has WriteByte, WriteString and
	// ReadFrom (as *bufio.Writer and *bytes.Buffer have), all under the same byte budget
	Rich    bool          `json:"rich_underlying_writer,omitempty"`
	Nested  *NestedInput  `json:"nested,omitempty"`
	Writers *WritersInput `json:"live_writers,omitempty"`
}

// decoded undoes the hexadecimal spelling used for texts that are not valid UTF-8 (JSON would not
// carry them unchanged into a replay file).
func (in Input) decoded() Input {
	if !in.Hex {
		return in
	}
	out := in
	out.Hex = false
	b, _ := hex.DecodeString(in.Prefix)
	out.Prefix = string(b)
	out.Chunks = nil
	for _, c := range in.Chunks {
		b, _ := hex.DecodeString(c)
		out.Chunks = append(out.Chunks, string(b))
	}
	return out
}

func mkInput(asHex bool, prefix string, chunks []string, budget int) Input {
	if !asHex {
		return Input{Prefix: prefix, Chunks: chunks, Budget: budget}
	}
	in := Input{Prefix: hex.EncodeToString([]byte(prefix)), Budget: budget, Hex: true}
	for _, c := range chunks {
		in.Chunks = append(in.Chunks, hex.EncodeToString([]byte(c)))
	}
	return in
}

type lim struct {
	left   int
	got    []byte
	failed bool
	nofail bool
}

func (l *lim) Write(b []byte) (int, error) {
	if l.nofail || len(b) <= l.left {
		l.left -= len(b)
		l.got = append(l.got, b...)
		return len(b), nil
	}
	n := l.left
	l.got = append(l.got, b[:n]...)
	l.left = 0
	l.failed = true
	return n, errors.New("short write")
}

// limRich is lim with the further methods common destinations have.
type limRich struct{ *lim }

func (l limRich) WriteByte(b byte) error {
	_, err := l.lim.Write([]byte{b})
	return err
}
func (l limRich) WriteString(s string) (int, error) { return l.lim.Write([]byte(s)) }
func (l limRich) ReadFrom(r io.Reader) (int64, error) {
	b, _ := io.ReadAll(r)
	n, err := l.lim.Write(b)
	return int64(n), err
}

// ref renders text with prefix at the start of every line; srcIdx[i] is the index in text of output
// byte i, or -1 for a prefix byte.
func ref(prefix, text string) (out []byte, srcIdx []int) {
	atStart := true
	for i := 0; i < len(text); i++ {
		if atStart {
			for j := 0; j < len(prefix); j++ {
				out = append(out, prefix[j])
				srcIdx = append(srcIdx, -1)
			}
			atStart = false
		}
		out = append(out, text[i])
		srcIdx = append(srcIdx, i)
		if text[i] == '\n' {
			atStart = true
		}
	}
	return
}

type verdict struct {
	classes     []string
	fingerprint string
	expected    string
	observed    string
	writes      int
}

// check runs one execution against the real writer. ok=true when everything agreed.
func check(in Input) (ok bool, v verdict) {
	in = in.decoded()
	text := strings.Join(in.Chunks, "")
	want, idx := ref(in.Prefix, text)
	u := &lim{left: in.Budget, nofail: in.Budget < 0}
	var w interface {
		Write([]byte) (int, error)
	}
	fail := func(fp, exp, obs string, classes ...string) (bool, verdict) {
		v.fingerprint, v.expected, v.observed, v.classes = fp, exp, obs, classes
		return false, v
	}
	var pan bool
	var ptext string
	consumed := 0
	var res *verdict
	pan, ptext = core.Guard(func() {
		w = indent.NewWriter(u, in.Prefix)
		if in.Rich {
			w = indent.NewWriter(limRich{u}, in.Prefix)
		}
		for ci, c := range in.Chunks {
			before := len(u.got)
			v.writes++
			m, err := w.Write([]byte(c))
			if !u.failed {
				if err != nil {
					_, r := fail("error-without-fault", "nil error", err.Error())
					res = &r
					return
				}
				if m != len(c) {
					_, r := fail("success-count", fmt.Sprint(len(c)), fmt.Sprintf("chunk %d returned %d", ci, m))
					res = &r
					return
				}
				consumed += len(c)
				continue
			}
			// the faulting call
			var classes []string
			if consumed > 0 && text[consumed-1] != '\n' {
				classes = append(classes, "short-write-continuing-partial-line")
			}
			reached := 0
			for k := before; k < len(u.got); k++ {
				if k < len(idx) && idx[k] >= consumed && idx[k] < consumed+len(c) {
					reached++
				}
			}
			if len(u.got) > len(want) || string(u.got) != string(want[:len(u.got)]) {
				_, r := fail("fault-output-not-prefix-of-reference", fmt.Sprintf("%q", want), fmt.Sprintf("%q", u.got), classes...)
				res = &r
				return
			}
			if err == nil {
				_, r := fail("fault-swallowed", "non-nil error", "nil", classes...)
				res = &r
				return
			}
			if m < 0 || m > len(c) {
				_, r := fail("fault-count-out-of-range", fmt.Sprintf("0..%d", len(c)), fmt.Sprint(m), classes...)
				res = &r
				return
			}
			if m != reached {
				fp := "n=over-count"
				if m < reached {
					fp = "n=under-count"
				}
				_, r := fail(fp, fmt.Sprintf("n=%d (caller bytes that reached the writer)", reached), fmt.Sprintf("n=%d", m), classes...)
				res = &r
				return
			}
			// Resumption. The count tells the caller where to go on; when the bytes that reached the
			// underlying writer end where the writer believes it stands (at a line start, or in a line
			// behind its complete prefix - not inside a prefix, which the writer cannot know), writing
			// the rest of this chunk and the remaining chunks to a writer that has recovered must
			// complete the reference rendering: a failed call leaves nothing behind that is sent again
			// or left out.
			if strings.Contains(in.Prefix, "\n") || len(c) == 0 {
				return
			}
			L := len(u.got)
			insidePrefix := L > 0 && L < len(idx) && idx[L-1] == -1 && idx[L] == -1
			truePartial := L > 0 && u.got[L-1] != '\n'
			believed := c[len(c)-1] != '\n'
			if insidePrefix || truePartial != believed {
				return
			}
			u.nofail, u.failed = true, false
			rest := append([]string{c[m:]}, in.Chunks[ci+1:]...)
			for ri, r := range rest {
				if r == "" {
					continue
				}
				v.writes++
				if k, err := w.Write([]byte(r)); err != nil || k != len(r) {
					_, x := fail("resumed-write-fails", fmt.Sprintf("%d, nil", len(r)), fmt.Sprintf("write %d after the fault returned %d, %v", ri, k, err), classes...)
					res = &x
					return
				}
			}
			if string(u.got) != string(want) {
				_, x := fail("output-differs-after-resuming-from-the-reported-count", fmt.Sprintf("%q", want), fmt.Sprintf("%q (fault after %d bytes, resumed at byte %d of chunk %d)", u.got, L, m, ci), classes...)
				res = &x
			}
			return
		}
		if string(u.got) != string(want) {
			_, r := fail("output-differs", fmt.Sprintf("%q", want), fmt.Sprintf("%q", u.got))
			res = &r
		}
	})
	if pan {
		return fail("panic", "no panic", ptext)
	}
	if res != nil {
		res.writes = v.writes
		return false, *res
	}
	return true, v
}

func rv0(in Input) int { return len(in.Chunks) }

func checkOneShot(prefix, text string) (bool, verdict) {
	want, _ := ref(prefix, text)
	var v verdict
	var s string
	var b []byte
	if pan, pt := core.Guard(func() { s = indent.String(prefix, text); b = indent.Bytes([]byte(prefix), []byte(text)) }); pan {
		v.fingerprint, v.observed = "panic", pt
		return false, v
	}
	if s != string(want) {
		v.fingerprint, v.expected, v.observed = "String-differs", fmt.Sprintf("%q", want), fmt.Sprintf("%q", s)
		return false, v
	}
	if string(b) != string(want) {
		v.fingerprint, v.expected, v.observed = "Bytes-differs", fmt.Sprintf("%q", want), fmt.Sprintf("%q", b)
		return false, v
	}
	// the one-shot rendering belongs to the caller: a prefix slice with room behind it (cut from a
	// larger buffer) is used for two renderings in a row; the first result, the buffer behind the
	// prefix and the text stay what they were, and writing into a result changes nothing else
	buf := make([]byte, len(prefix), len(prefix)+len(text)+8)
	copy(buf, prefix)
	tail := buf[len(prefix):cap(buf)]
	for i := range tail {
		tail[i] = 0xEE
	}
	tb := []byte(text)
	other := strings.Map(func(r rune) rune {
		if r == '\n' {
			return r
		}
		return 'z'
	}, text)
	wantOther, _ := ref(prefix, other)
	var b1, b2 []byte
	if pan, pt := core.Guard(func() { b1 = indent.Bytes(buf, tb); b2 = indent.Bytes(buf, []byte(other)) }); pan {
		v.fingerprint, v.observed = "panic", pt
		return false, v
	}
	intact := func() string {
		for _, x := range tail {
			if x != 0xEE {
				return fmt.Sprintf("the caller's bytes behind the prefix were overwritten: %q", tail)
			}
		}
		if string(buf) != prefix || string(tb) != text {
			return fmt.Sprintf("arguments changed: prefix %q text %q", buf, tb)
		}
		return ""
	}
	switch {
	case string(b1) != string(want):
		v.fingerprint, v.expected, v.observed = "Bytes-result-changed-by-a-later-call", fmt.Sprintf("%q", want), fmt.Sprintf("%q", b1)
		return false, v
	case string(b2) != string(wantOther) && utf8.ValidString(text):
		v.fingerprint, v.expected, v.observed = "Bytes-differs", fmt.Sprintf("%q", wantOther), fmt.Sprintf("%q", b2)
		return false, v
	case intact() != "":
		v.fingerprint, v.expected, v.observed = "Bytes-writes-into-its-arguments", "arguments untouched", intact()
		return false, v
	}
	if len(prefix) == 0 || len(text) == 0 {
		return true, v // nothing to add: the text itself is handed back
	}
	for i := range b1 {
		b1[i] = 'q'
	}
	if p := intact(); p != "" || (string(b2) != string(wantOther) && utf8.ValidString(text)) {
		v.fingerprint, v.expected, v.observed = "Bytes-result-shares-memory", "a result of its own", p+fmt.Sprintf(" second result %q", b2)
		return false, v
	}
	return true, v
}

func maxLen(tier string) int {
	if tier == "thorough" {
		return 9
	}
	return 7
}

func shards(tier string) []string {
	var out []string
	for pi := range prefixes {
		out = append(out, fmt.Sprintf("p%d/short", pi)) // lengths 0..4
		for n := 5; n <= maxLen(tier); n++ {
			for k := 0; k < 9; k++ {
				out = append(out, fmt.Sprintf("p%d/n%d/%d", pi, n, k))
			}
		}
	}
	for oi := range nestPrefixes {
		for ii := range nestPrefixes {
			out = append(out, fmt.Sprintf("nest/%d/%d", oi, ii))
		}
	}
	out = append(out, largeShards()...)
	for pi := range uPrefixes {
		for k := range uAlpha {
			out = append(out, fmt.Sprintf("u/%d/%d", pi, k))
		}
	}
	return append(out, "writers")
}

// texts that are not ASCII: the two bytes of a two-byte character, a byte that is never valid in
// UTF-8, a line break and a letter, so that chunk boundaries and stop points fall inside characters;
// prefixes that are or end in a partial character.
var uAlpha = []byte{0xc3, 0xa9, '\n', 'a', 0xff}
var uPrefixes = []string{">", "é", "\xc3"}

func uMaxLen(tier string) int {
	if tier == "thorough" {
		return 7
	}
	return 6
}

func texts(n int, lead string, f func(string)) { textsOver(alpha, n, lead, f) }

func textsOver(alpha []byte, n int, lead string, f func(string)) {
	var rec func(s []byte)
	rec = func(s []byte) {
		if len(s) == n {
			f(string(s))
			return
		}
		for _, c := range alpha {
			rec(append(s, c))
		}
	}
	rec([]byte(lead))
}

func run(c *core.Ctx) {
	var pi, n, k int
	short := false
	c.Res.Bound = fmt.Sprintf("text length <= %d over {a,b,\\n}; %d prefixes; all compositions; every stop point; <=1 empty write; texts of <= 5 bytes also into a destination that has WriteByte, WriteString and ReadFrom besides Write; texts of <= "+fmt.Sprint(uMaxLen(c.Tier))+" bytes over {C3, A9, FF, a, \\n} (chunk boundaries and stop points inside a two-byte character, invalid bytes) with 3 prefixes, one of them a partial character; nested writers: %d x %d prefixes, every sequence of <= %d writes of %d chunks to the inner or the outer writer, every stop point; 1..40 writers alive at once with distinct or equal prefixes of 1..33 bytes, written to in turn; every length 1..700 in one Write (at a line start, with and without a final line break, after a complete line; 3 prefixes); large writes: texts of 4096, 4097, 8192, 8193 (thorough also 4095, 8191, 12289) bytes (around the block sizes 4096 and 8192) with line breaks never, always, every 7th and every 4096th byte, in one call and split at byte 4096, 2 prefixes, every stop point (every third beyond 9000 output bytes, all next to a multiple of 4096)", maxLen(c.Tier), len(prefixes), len(nestPrefixes), len(nestPrefixes), nestedDepth(c.Tier), len(nestChunks))
	var oi, ii int
	if c.Shard == "writers" {
		runWriters(c)
		return
	}
	if _, err := fmt.Sscanf(c.Shard, "len/%d", &oi); err == nil {
		runLengths(c, oi)
		return
	}
	if _, err := fmt.Sscanf(c.Shard, "large/%d/%d", &oi, &ii); err == nil {
		runLarge(c, oi, ii)
		return
	}
	if _, err := fmt.Sscanf(c.Shard, "nest/%d/%d", &oi, &ii); err == nil {
		runNested(c, nestPrefixes[oi], nestPrefixes[ii])
		return
	}
	var prefix string
	bytesShard := false
	if _, err := fmt.Sscanf(c.Shard, "u/%d/%d", &pi, &k); err == nil {
		bytesShard = true
		prefix = uPrefixes[pi]
	} else {
		if _, err := fmt.Sscanf(c.Shard, "p%d/n%d/%d", &pi, &n, &k); err != nil {
			if _, err := fmt.Sscanf(c.Shard, "p%d/short", &pi); err != nil {
				panic("bad shard " + c.Shard)
			}
			short = true
		}
		prefix = prefixes[pi]
	}
	one := func(text string) {
		if c.Expired() {
			return
		}
		caseNo, run := c.Begin()
		if c.Skip(caseNo, run, mkInput(bytesShard, prefix, []string{text}, -2)) {
			return
		}
		if ok, v := checkOneShot(prefix, text); !ok {
			c.Fail(caseNo, v.classes, v.fingerprint, mkInput(bytesShard, prefix, []string{text}, -2), v.expected, v.observed)
		}
		want, _ := ref(prefix, text)
		n := len(text)
		if n == 0 {
			// a single empty write
			in := mkInput(bytesShard, prefix, []string{""}, -1)
			ok, v := check(in)
			c.Exec()
			c.Validate()
			c.Edge(1)
			c.StateN(1)
			if !ok {
				c.Fail(caseNo, v.classes, v.fingerprint, in, v.expected, v.observed)
			}
			return
		}
		for mask := 0; mask < 1<<(n-1); mask++ {
			var chunks []string
			start := 0
			for i := 1; i < n; i++ {
				if mask&(1<<(i-1)) != 0 {
					chunks = append(chunks, text[start:i])
					start = i
				}
			}
			chunks = append(chunks, text[start:])
			// variants: no empty write, or one empty write inserted at position e
			for e := -1; e <= len(chunks); e++ {
				ch := chunks
				if e >= 0 {
					if n > 5 && mask != 0 && mask != 1<<(n-1)-1 {
						break // empty-write insertion only for the coarsest and finest composition of long texts
					}
					ch = append(append(append([]string{}, chunks[:e]...), ""), chunks[e:]...)
				}
				for budget := -1; budget <= len(want); budget++ {
					if budget == len(want) {
						continue // same as no fault
					}
					in := mkInput(bytesShard, prefix, ch, budget)
					if n <= 5 && budget >= 0 {
						// short texts also into a destination with more than Write
						rin := in
						rin.Rich = true
						if rok, rv := check(rin); !rok {
							c.Outcome("FAIL:" + rv.fingerprint)
							c.Fail(caseNo, rv.classes, rv.fingerprint+":rich-destination", rin, rv.expected, rv.observed)
						}
						c.Exec()
						c.Validate()
						c.Edge(int64(rv0(rin)))
						c.StateN(1)
					}
					ok, v := check(in)
					c.Exec()
					c.Validate()
					c.Edge(int64(v.writes))
					c.StateN(1)
					if budget > 0 || len(ch) > 1 {
						c.NontrivialN(1)
					}
					if ok {
						if budget < 0 {
							c.Outcome("complete")
						} else {
							c.Outcome("fault-accounted")
						}
					} else {
						c.Outcome("FAIL:" + v.fingerprint)
						c.Fail(caseNo, v.classes, v.fingerprint, in, v.expected, v.observed)
					}
				}
			}
		}
		if n == maxLen(c.Tier) && strings.Contains(text, "\n") && !strings.HasSuffix(text, "\n") {
			b, _ := json.Marshal(Input{Prefix: prefix, Chunks: []string{text[:n/2], text[n/2:]}, Budget: len(want) / 2})
			c.Sample(string(b))
		}
	}
	if bytesShard {
		for l := 1; l <= uMaxLen(c.Tier); l++ {
			textsOver(uAlpha, l, string(uAlpha[k:k+1]), one)
		}
	} else if short {
		for l := 0; l <= 4; l++ {
			texts(l, "", one)
		}
	} else {
		lead := string([]byte{alpha[k/3], alpha[k%3]})
		texts(n, lead, one)
	}
}

func replay(tier string, raw json.RawMessage) (bool, string, string) {
	var in Input
	if err := json.Unmarshal(raw, &in); err != nil {
		return false, "", "bad input: " + err.Error()
	}
	if in.Writers != nil {
		ok, v := replayWriters(*in.Writers)
		return !ok, v.fingerprint, fmt.Sprintf("expected %s observed %s", v.expected, v.observed)
	}
	if in.Nested != nil {
		ok, v := checkNested(*in.Nested)
		return !ok, v.fingerprint, fmt.Sprintf("expected %s observed %s", v.expected, v.observed)
	}
	in = in.decoded()
	if in.Budget == -2 {
		ok, v := checkOneShot(in.Prefix, strings.Join(in.Chunks, ""))
		return !ok, v.fingerprint, fmt.Sprintf("expected %s observed %s", v.expected, v.observed)
	}
	ok, v := check(in)
	return !ok, v.fingerprint, fmt.Sprintf("expected %s observed %s", v.expected, v.observed)
}

func init() {
	core.Register(&core.Prop{
		ID: "C20", Variant: "plain", Shards: shards, Run: run, Replay: replay,
		Rule:        "every (prefix, text over {a,b,\\n}, composition into Write calls incl. one empty Write, stop point B of the underlying writer) is one execution of the real indent.NewWriter against a reference indenter with a source-index map; nested writers (an indenting writer whose underlying writer is another indenting writer, as the tree printers build them): every sequence of writes within the depth bound to the inner or the outer writer, switching in the middle of lines, with the bottom writer stopping at every byte - the bottom must hold the outer rendering of the stream made of the inner rendering and the direct writes, after every call, and a faulting call must return the caller bytes that reached the bottom; large writes (arguments around 4096 and 8192 bytes, where a writer might process its argument in blocks) with the underlying writer stopping at every position; states = distinct executions (generator is injective); transitions = Write calls issued; non-trivial = a fault strictly inside the output or more than one Write call",
		Assumptions: []string{"the underlying writer fails at most once and the caller stops writing after the first error", "texts over a 3-symbol alphabet stand for all texts: the writer only distinguishes line breaks from other bytes"},
	})
}
