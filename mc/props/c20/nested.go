package c20

import (
	"fmt"
	"io"

	"github.com/openconfig/goyang/pkg/indent"
	"verif/mc/core"
)

// Nested writers: the underlying writer of an indenting writer is itself an indenting writer (this
// is how the tree printers use the package), and the caller writes to either of them, switching in
// the middle of lines. Each writer tracks its own lines: the bytes the inner one passes down are the
// rendering of the text written to it, and the outer one renders the stream it receives - the
// inner writer's output and the direct writes, in call order.

type Op struct {
	Inner bool   `json:"to_inner"`
	Chunk string `json:"chunk"`
}

type NestedInput struct {
	Outer  string `json:"outer_prefix"`
	Inner  string `json:"inner_prefix"`
	Ops    []Op   `json:"ops"`
	Budget int    `json:"budget"` // bytes the bottom writer accepts; < 0: never fails
}

var nestPrefixes = []string{">", ">\n", "", "\t ", "a"}
var nestChunks = []string{"a", "\n", "a\n", "\nb", "ab", "a\n\nb"}

func checkNested(in NestedInput) (ok bool, v verdict) {
	fail := func(fp, exp, obs string) (bool, verdict) {
		v.fingerprint, v.expected, v.observed = "nested:"+fp, exp, obs
		return false, v
	}
	var res *verdict
	pan, ptext := core.Guard(func() {
		u := &lim{left: in.Budget, nofail: in.Budget < 0}
		outer := indent.NewWriter(u, in.Outer)
		inner := indent.NewWriter(outer, in.Inner)
		innerText, stream := "", ""
		for oi, op := range in.Ops {
			var w io.Writer = outer
			delta := op.Chunk
			var dIdx []int // for a write to the inner writer: index in op.Chunk of each delta byte, -1 for prefix bytes
			if op.Inner {
				w = inner
				before, _ := ref(in.Inner, innerText)
				after, idx := ref(in.Inner, innerText+op.Chunk)
				delta = string(after[len(before):])
				for _, x := range idx[len(before):] {
					if x >= 0 {
						x -= len(innerText)
					}
					dIdx = append(dIdx, x)
				}
			} else {
				for i := range op.Chunk {
					dIdx = append(dIdx, i)
				}
			}
			wantBefore, _ := ref(in.Outer, stream)
			wantAfter, oIdx := ref(in.Outer, stream+delta)
			v.writes++
			m, err := w.Write([]byte(op.Chunk))
			if !u.failed {
				if err != nil {
					_, r := fail("error-without-fault", "nil error", err.Error())
					res = &r
					return
				}
				if m != len(op.Chunk) {
					_, r := fail("success-count", fmt.Sprint(len(op.Chunk)), fmt.Sprintf("op %d returned %d", oi, m))
					res = &r
					return
				}
				if string(u.got) != string(wantAfter) {
					_, r := fail("output-differs", fmt.Sprintf("%q after op %d", wantAfter, oi), fmt.Sprintf("%q", u.got))
					res = &r
					return
				}
				if op.Inner {
					innerText += op.Chunk
				}
				stream += delta
				continue
			}
			// the faulting call
			if len(u.got) > len(wantAfter) || string(u.got) != string(wantAfter[:len(u.got)]) {
				_, r := fail("fault-output-not-prefix-of-reference", fmt.Sprintf("%q", wantAfter), fmt.Sprintf("%q", u.got))
				res = &r
				return
			}
			if err == nil {
				_, r := fail("fault-swallowed", "non-nil error", "nil")
				res = &r
				return
			}
			// stream bytes of this call that reached the bottom, in stream order they form a prefix of delta
			reachedDelta := 0
			for k := len(wantBefore); k < len(u.got); k++ {
				if oIdx[k] >= len(stream) {
					reachedDelta++
				}
			}
			// caller bytes among them
			reached := 0
			for k := 0; k < reachedDelta; k++ {
				if dIdx[k] >= 0 {
					reached++
				}
			}
			if m != reached {
				fp := "n=over-count"
				if m < reached {
					fp = "n=under-count"
				}
				_, r := fail(fp, fmt.Sprintf("n=%d (caller bytes that reached the bottom writer)", reached), fmt.Sprintf("n=%d", m))
				res = &r
			}
			return
		}
	})
	if pan {
		return fail("panic", "no panic", ptext)
	}
	if res != nil {
		res.writes = v.writes
		return false, *res
	}
	return true, v
}

func nestedDepth(tier string) int {
	if tier == "thorough" {
		return 5
	}
	return 4
}

// runNested enumerates every sequence of at most depth writes (target x chunk) for one pair of
// prefixes, without fault and with the bottom writer stopping at every byte position.
func runNested(c *core.Ctx, outer, inner string) {
	depth := nestedDepth(c.Tier)
	var ops []Op
	var rec func()
	rec = func() {
		if c.Expired() {
			return
		}
		if len(ops) > 0 {
			// total length of the final output bounds the interesting budgets
			innerText, stream := "", ""
			for _, op := range ops {
				if op.Inner {
					b, _ := ref(inner, innerText)
					a, _ := ref(inner, innerText+op.Chunk)
					stream += string(a[len(b):])
					innerText += op.Chunk
				} else {
					stream += op.Chunk
				}
			}
			want, _ := ref(outer, stream)
			prev, _ := ref(outer, stream[:len(stream)-lastDelta(ops, inner)])
			// budgets below the output before the last op were explored with the shorter sequence
			for budget := -1; budget < len(want); budget++ {
				if budget >= 0 && budget < len(prev) {
					continue
				}
				in := NestedInput{Outer: outer, Inner: inner, Ops: append([]Op{}, ops...), Budget: budget}
				caseNo, run := c.Begin()
				if c.Skip(caseNo, run, Input{Nested: &in}) {
					continue
				}
				ok, v := checkNested(in)
				c.Exec()
				c.Validate()
				c.Edge(int64(v.writes))
				c.StateN(1)
				c.NontrivialN(1)
				if ok {
					if budget < 0 {
						c.Outcome("nested-complete")
					} else {
						c.Outcome("nested-fault-accounted")
					}
				} else {
					c.Outcome("FAIL:" + v.fingerprint)
					c.Fail(caseNo, v.classes, v.fingerprint, Input{Nested: &in}, v.expected, v.observed)
				}
			}
		}
		if len(ops) == depth {
			return
		}
		for _, to := range []bool{true, false} {
			for _, ch := range nestChunks {
				ops = append(ops, Op{to, ch})
				rec()
				ops = ops[:len(ops)-1]
			}
		}
	}
	rec()
}

// lastDelta: number of stream bytes the last op contributes.
func lastDelta(ops []Op, inner string) int {
	last := ops[len(ops)-1]
	if !last.Inner {
		return len(last.Chunk)
	}
	innerText := ""
	for _, op := range ops[:len(ops)-1] {
		if op.Inner {
			innerText += op.Chunk
		}
	}
	b, _ := ref(inner, innerText)
	a, _ := ref(inner, innerText+last.Chunk)
	return len(a) - len(b)
}

// ---------------------------------------------------------------------------------------------
// large writes: texts around the block sizes a writer might process its argument in (4096, 8192),
// written in one call or split at a block boundary, the underlying writer stopping at every position

var largeLens = []int{4095, 4096, 4097, 8191, 8192, 8193, 12289}
var largeEvery = []int{0, 1, 7, 4096} // a line break after every so many bytes (0: none)
var largePrefixes = []string{">", "ab"}

func largeText(n, every int) string {
	b := make([]byte, n)
	for i := range b {
		b[i] = "ab"[i%2]
		if every > 0 && (i+1)%every == 0 {
			b[i] = '\n'
		}
	}
	return string(b)
}

// every length from 1 to 700 bytes: one Write at a line start that does not end in a line break,
// the same ending in one, and the same after a complete line, with three prefixes and two line-break
// patterns, the underlying writer stopping at every position
func runLengths(c *core.Ctx, k int) {
	for n := 1; n <= 700; n++ {
		if n%8 != k {
			continue
		}
		for _, every := range []int{0, 50} {
			text := largeText(n, every)
			for _, prefix := range []string{"  ", "// ", ">"} {
				want, _ := ref(prefix, text)
				for _, chunks := range [][]string{{text}, {text + "\n"}, {"x\n", text}} {
					wantLen := len(want) + len(prefix) + 3
					for budget := -1; budget < wantLen; budget++ {
						if c.Expired() {
							return
						}
						if budget >= 0 && n > 300 && budget%5 != 0 && budget < len(want)-8 {
							continue // long texts: every fifth stop point and the last eight
						}
						in := Input{Prefix: prefix, Chunks: chunks, Budget: budget}
						caseNo, run := c.Begin()
						if c.Skip(caseNo, run, in) {
							continue
						}
						ok, v := check(in)
						c.Exec()
						c.Validate()
						c.Edge(int64(v.writes))
						c.StateN(1)
						c.NontrivialN(1)
						if ok {
							c.Outcome("length-sweep-accounted")
						} else {
							c.Outcome("FAIL:" + v.fingerprint)
							c.Fail(caseNo, v.classes, "length:"+v.fingerprint, in, clip(v.expected), clip(v.observed))
						}
					}
				}
			}
		}
	}
}

func largeShards() []string {
	var out []string
	for k := 0; k < 8; k++ {
		out = append(out, fmt.Sprintf("len/%d", k))
	}
	for li := range largeLens {
		for ei := range largeEvery {
			out = append(out, fmt.Sprintf("large/%d/%d", li, ei))
		}
	}
	return out
}

func runLarge(c *core.Ctx, li, ei int) {
	if c.Tier != "thorough" && (largeLens[li] == 12289 || largeLens[li] == 8191 || largeLens[li] == 4095) {
		return // quick: the lengths at and just above the block sizes
	}
	text := largeText(largeLens[li], largeEvery[ei])
	for _, prefix := range largePrefixes {
		want, _ := ref(prefix, text)
		for _, chunks := range [][]string{{text}, {text[:4096%len(text)], text[4096%len(text):]}} {
			if chunks[0] == "" {
				continue
			}
			step := 1
			if len(want) > 9000 {
				step = 3 // larger texts: every third stop point and all those next to a block boundary
			}
			for budget := -1; budget < len(want); budget++ {
				if c.Expired() {
					return
				}
				if budget > 0 && step > 1 && budget%step != 0 && budget%4096 > 2 && budget%4096 < 4094 {
					continue
				}
				in := Input{Prefix: prefix, Chunks: chunks, Budget: budget}
				caseNo, run := c.Begin()
				if c.Skip(caseNo, run, in) {
					continue
				}
				ok, v := check(in)
				c.Exec()
				c.Validate()
				c.Edge(int64(v.writes))
				c.StateN(1)
				c.NontrivialN(1)
				if ok {
					c.Outcome("large-write-accounted")
				} else {
					c.Outcome("FAIL:" + v.fingerprint)
					c.Fail(caseNo, v.classes, "large:"+v.fingerprint, in, clip(v.expected), clip(v.observed))
				}
			}
		}
	}
}

func clip(s string) string {
	if len(s) > 300 {
		return s[:140] + " ... " + s[len(s)-140:]
	}
	return s
}

// ---------------------------------------------------------------------------------------------
// many writers alive at once: k writers with k distinct prefixes (and, in a variant, all with the
// same one), each over a sink of its own, written to in turn - before, between and after the
// creation of the later ones. Every sink must hold its own rendering.

type WritersInput struct {
	K      int  `json:"writers"`
	Same   bool `json:"same_prefix"`
	Late   bool `json:"create_between_writes"`
	PfxLen int  `json:"prefix_length"`
	Rounds int  `json:"rounds"`
}

func checkWriters(in WritersInput) (ok bool, v verdict) {
	fail := func(fp, exp, obs string) (bool, verdict) {
		v.fingerprint, v.expected, v.observed = "writers:"+fp, exp, obs
		return false, v
	}
	var res *verdict
	pan, pt := core.Guard(func() {
		prefix := func(i int) string {
			if in.Same {
				i = 0
			}
			p := make([]byte, in.PfxLen)
			for j := range p {
				p[j] = byte('a' + (i+j)%26)
			}
			p[len(p)-1] = '>'
			return string(p) + fmt.Sprint(i)
		}
		sinks := make([]*lim, in.K)
		ws := make([]io.Writer, in.K)
		texts := make([]string, in.K)
		chunks := []string{"one\n", "tw", "o\nthree", "\n", "four\n\nfive"}
		write := func(i, r int) bool {
			c := chunks[(i+r)%len(chunks)]
			v.writes++
			if m, err := ws[i].Write([]byte(c)); err != nil || m != len(c) {
				_, x := fail("success-count", fmt.Sprint(len(c)), fmt.Sprint(m, err))
				res = &x
				return false
			}
			texts[i] += c
			return true
		}
		for i := 0; i < in.K; i++ {
			sinks[i] = &lim{nofail: true}
			ws[i] = indent.NewWriter(sinks[i], prefix(i))
			if in.Late {
				for j := 0; j <= i; j++ {
					if !write(j, i) {
						return
					}
				}
			}
		}
		for r := 0; r < in.Rounds; r++ {
			for i := 0; i < in.K; i++ {
				if !write(i, r) {
					return
				}
			}
		}
		for i := 0; i < in.K; i++ {
			want, _ := ref(prefix(i), texts[i])
			if string(sinks[i].got) != string(want) {
				_, x := fail("output-differs", fmt.Sprintf("writer %d of %d: %q", i, in.K, clip(string(want))), fmt.Sprintf("%q", clip(string(sinks[i].got))))
				res = &x
				return
			}
		}
	})
	if pan {
		return fail("panic", "no panic", pt)
	}
	if res != nil {
		return false, *res
	}
	return true, v
}

// writersCases lists the cases in execution order (the package under test may keep state between
// writers, so a replay runs the sequence up to the recorded case).
func writersCases() []WritersInput {
	var out []WritersInput
	for k := 1; k <= 40; k++ {
		for _, same := range []bool{false, true} {
			for _, late := range []bool{false, true} {
				for _, pl := range []int{1, 2, 7, 8, 9, 16, 17, 33} {
					out = append(out, WritersInput{K: k, Same: same, Late: late, PfxLen: pl, Rounds: 3})
				}
			}
		}
	}
	return out
}

func replayWriters(rec WritersInput) (bool, verdict) {
	for _, in := range writersCases() {
		if ok, v := checkWriters(in); !ok {
			return false, v
		}
		if in == rec {
			break
		}
	}
	return true, verdict{}
}

func runWriters(c *core.Ctx) {
	for _, in := range writersCases() {
		{
			{
				{
					if c.Expired() {
						return
					}
					caseNo, run := c.Begin()
					if c.Skip(caseNo, run, Input{Writers: &in}) {
						continue
					}
					ok, v := checkWriters(in)
					c.Exec()
					c.Validate()
					c.Edge(int64(v.writes))
					c.StateN(1)
					c.NontrivialN(1)
					if ok {
						c.Outcome("writers-independent")
					} else {
						c.Outcome("FAIL:" + v.fingerprint)
						c.Fail(caseNo, nil, v.fingerprint, Input{Writers: &in}, v.expected, v.observed)
					}
				}
			}
		}
	}
}
