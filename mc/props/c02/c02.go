// Package c02 decides C02: generic parsing agrees with the RFC 7950 section 6 reading of the text.
// Every text of the lexical spaces L1 (characters), L2 (pieces) and L2s (pieces inside one
// argument) is parsed by yang.Parse and by the reference reader; accept/reject and the forests
// must agree.
package c02

import (
	"encoding/json"
	"fmt"
	"strings"

	"github.com/openconfig/goyang/pkg/yang"
	"verif/mc/core"
	"verif/mc/gen/lexspace"
	"verif/mc/gen/scale"
	"verif/mc/ref/rfcread"
)

type Input struct {
	Text string `json:"text"`
	// After: a text parsed in the same process immediately before Text (the pair space); how Text is
	// read must not depend on it
	After *string `json:"after,omitempty"`
}

type fail struct{ fp, exp, obs string }

func cmp(a []*rfcread.RStmt, b []*yang.Statement) string {
	if len(a) != len(b) {
		return fmt.Sprintf("%d statements vs %d", len(a), len(b))
	}
	for i := range a {
		arg, has := b[i].Arg()
		if a[i].Keyword != b[i].Keyword || a[i].HasArg != has || a[i].Arg != arg {
			return fmt.Sprintf("ref(%q,%v,%q) impl(%q,%v,%q)", a[i].Keyword, a[i].HasArg, a[i].Arg, b[i].Keyword, has, arg)
		}
		if d := cmp(a[i].Subs, b[i].SubStatements()); d != "" {
			return d
		}
	}
	return ""
}

// check returns the failure (nil if none), whether the text is excluded, and whether it was accepted.
func check(text string) (f *fail, excluded string, accepted bool, nstmts int) {
	return checkRef(rfcread.Parse(text), text)
}

func checkRef(r rfcread.RRes, text string) (f *fail, excluded string, accepted bool, nstmts int) {
	if r.Excluded != "" {
		return nil, r.Excluded, false, 0
	}
	var ss []*yang.Statement
	var err error
	if pan, pt := core.Guard(func() { ss, err = yang.Parse(text, "f") }); pan {
		return &fail{"panic", "no panic", pt}, "", false, 0
	}
	switch {
	case r.Err != "" && err == nil:
		return &fail{"accepts-ill-formed", "reject: " + r.Err, fmt.Sprintf("%d statements", len(ss))}, "", false, 0
	case r.Err == "" && err != nil:
		return &fail{"rejects-well-formed", fmt.Sprintf("%d statements", len(r.Stmts)), err.Error()}, "", true, len(r.Stmts)
	case r.Err == "":
		if d := cmp(r.Stmts, ss); d != "" {
			return &fail{"forest-differs", "", d}, "", true, len(r.Stmts)
		}
		return nil, "", true, len(r.Stmts)
	default:
		if len(ss) != 0 {
			return &fail{"reject-with-statements", "no statements", fmt.Sprint(len(ss))}, "", false, 0
		}
		if err.Error() == "" {
			return &fail{"reject-with-empty-error", "non-empty error", ""}, "", false, 0
		}
	}
	return nil, "", false, 0
}

// deepTexts: statements nested n deep in compact and one-brace-per-line layout, balanced, with one
// closer too many followed by a statement, with one closer missing, with empty blocks and with a
// comment between the closers.
func deepTexts(n int) []string {
	var out []string
	for _, pretty := range []bool{false, true} {
		t := scale.Nested(n, pretty)
		out = append(out, t, t+"x;}", t+"}x;", strings.TrimSuffix(strings.TrimSuffix(t, "\n"), "}"))
	}
	la, _ := scale.LongArgs(n)
	lb, _ := scale.LongArgs(n * 37)
	out = append(out, la.Text, lb.Text, scale.Counts(n).Text)
	open, close := strings.Repeat("k{", n), strings.Repeat("}", n)
	out = append(out, open+close, open+"a b;"+strings.Repeat("}/*c*/", n), open+"a b;"+close+close, strings.Repeat("k a;", n), strings.Repeat("k{}", n))
	return out
}

// quoteTexts: a double-quoted string that opens at column q (pushed right by blanks, by a long
// keyword, or by nesting) whose continuation lines are indented by i blanks, for every q up to 140
// and i around q, 0 and beyond (two sizes at once: where the string opens and how far it is indented).
func quoteTexts(q int) []string {
	var out []string
	for _, i := range []int{0, 1, q - 2, q - 1, q, q + 1, q + 2, q + 3, q + 9, 2 * q} {
		if i < 0 {
			continue
		}
		ind := strings.Repeat(" ", i)
		pad := strings.Repeat(" ", q)
		out = append(out,
			pad+"k \"first\n"+ind+"second\n"+ind+"  third\";",
			"k"+strings.Repeat("x", q)+" \"first\n"+ind+"second\";",
			pad+"k 'a' + \"first\n"+ind+"second\";",
		)
		if q%8 == 0 {
			tabs := strings.Repeat("\t", q/8)
			out = append(out, tabs+"k \"first\n"+ind+"second\n"+tabs+"   third\";")
		}
	}
	return out
}

// runAfter: the pair space. Every text of the first pool is parsed, then every text of the second
// pool, whose reading must agree with the reference as it does on its own: nothing a reader keeps
// from one call (a pooled lexer, a column, a nesting depth, an error count) may reach the next.
func runAfter(c *core.Ctx) {
	var shard int
	fmt.Sscanf(c.Shard, "after/%d", &shard)
	first, second := lexspace.PairPool(c.Tier)
	c.Res.Bound = fmt.Sprintf("pair space: %d first texts x %d second texts, every ordered pair parsed back to back in one process", len(first), len(second))
	refs := make([]rfcread.RRes, len(second))
	for i, t := range second {
		refs[i] = rfcread.Parse(t)
	}
	for i, t1 := range first {
		if i%16 != shard {
			continue
		}
		if c.Expired() {
			return
		}
		t1 := t1
		for j, t2 := range second {
			if refs[j].Excluded != "" {
				continue
			}
			caseNo, run := c.Begin()
			if c.Skip(caseNo, run, Input{Text: t2, After: &t1}) {
				continue
			}
			c.Exec()
			c.Edge(2)
			c.StateN(1)
			c.Validate()
			core.Guard(func() { yang.Parse(t1, "f") })
			f, _, acc, ns := checkRef(refs[j], t2)
			switch {
			case f != nil:
				c.NontrivialN(1)
				c.Outcome("FAIL:after:" + f.fp)
				c.Fail(caseNo, nil, "after:"+f.fp, Input{Text: t2, After: &t1}, f.exp, f.obs)
			case acc && ns > 0:
				c.NontrivialN(1)
				c.Outcome("second-of-pair:accepted-forest-equal")
			default:
				c.Outcome("second-of-pair:rejected-by-both")
			}
		}
	}
}

// twoStrings: two statements, each with a double-quoted string over two lines, in one text - the
// quote columns and the indentations of the continuation lines in every relation to each other
// (blanks; with a tab in front of the second statement or of a continuation line every fourth time).
func twoStrings(f func(string)) {
	for q1 := 0; q1 <= 12; q1 += 2 {
		for i1 := 0; i1 <= 18; i1++ {
			for q2 := 0; q2 <= 12; q2 += 2 {
				for i2 := 0; i2 <= 18; i2++ {
					sp := func(n int) string { return strings.Repeat(" ", n) }
					t := sp(q1) + "k \"a\n" + sp(i1) + "b\";\n" + sp(q2) + "m \"c d\n" + sp(i2) + "e\";"
					f(t)
					if (i1+i2)%4 == 0 {
						f(sp(q1) + "k \"a\n\t" + sp(i1) + "b\";\n\t" + sp(q2) + "m \"c\n\t" + sp(i2) + "d\n" + sp(i1) + "e\";")
					}
				}
			}
		}
	}
}

func run(c *core.Ctx) {
	if strings.HasPrefix(c.Shard, "after/") {
		runAfter(c)
		return
	}
	if c.Shard == "deep" {
		sizes := []int{}
		for n := 1; n <= 300; n++ {
			sizes = append(sizes, n)
		}
		sizes = append(sizes, 511, 512, 513, 1023, 1024, 1025)
		c.Res.Bound = "nesting depth 1..300, 511..513, 1023..1025 in 13 layouts; arguments of n and 37 n bytes; n statements of one kind; multi-line strings opening at column 1..140 with continuation lines indented around that column; every statement keyword, near-miss spellings of pattern and pattern-like extension keywords with 10 argument forms around backslash escapes"
		for _, n := range sizes {
			texts := deepTexts(n)
			if n <= 140 {
				texts = append(texts, quoteTexts(n)...)
			}
			if n == 1 {
				texts = append(texts, lexspace.KeywordTexts()...) // every keyword with escapes only a pattern may keep
				twoStrings(func(t string) { texts = append(texts, t) })
			}
			for _, text := range texts {
				if c.Expired() {
					return
				}
				caseNo, run := c.Begin()
				if c.Skip(caseNo, run, Input{Text: text}) {
					continue
				}
				c.Exec()
				c.Edge(1)
				c.StateN(1)
				c.Validate()
				f, excl, acc, ns := check(text)
				switch {
				case excl != "":
					c.Outcome("excluded:" + excl)
				case f != nil:
					c.Outcome("FAIL:" + f.fp)
					c.Fail(caseNo, nil, "deep:"+f.fp, Input{Text: text}, f.exp, f.obs)
				case acc && ns > 0:
					c.NontrivialN(1)
					c.Outcome("accepted-forest-equal")
				default:
					c.Outcome("rejected-by-both")
				}
			}
		}
		return
	}
	sp, idx := lexspace.Find(c.Tier, c.Shard)
	c.Res.Bound = "L1: all strings of <= 6 (thorough 7; 8 over a 10-symbol sub-alphabet) symbols over a 15-symbol lexical alphabet; L2: <= 5 (7) lexical pieces of 17; L2s: one statement whose argument is <= 6 (7) pieces of 13, keyword k / pattern / tab-indented, and <= 5 (6) pieces after a same-line comment or single-quoted piece holding a multi-byte rune"
	n := 0
	lexspace.Enumerate(sp, idx, func(text string, syms int) bool {
		if c.Expired() {
			return false
		}
		caseNo, run := c.Begin()
		if c.Skip(caseNo, run, Input{Text: text}) {
			return true
		}
		c.Exec()
		c.Edge(1)
		c.StateN(1)
		f, excl, acc, ns := check(text)
		n++
		if excl != "" {
			c.Exclude()
			c.Outcome("excluded:" + excl)
			return true
		}
		c.Validate()
		if (acc && ns > 0) || f != nil {
			c.NontrivialN(1)
		}
		if f != nil {
			c.Outcome("FAIL:" + f.fp)
			c.Fail(caseNo, nil, f.fp, Input{Text: text}, f.exp, f.obs)
			return true
		}
		if acc {
			if ns > 0 {
				c.Outcome("accepted-forest-equal")
				if n%40000 == 7 {
					b, _ := json.Marshal(Input{Text: text})
					c.Sample(string(b))
				}
			} else {
				c.Outcome("accepted-empty")
			}
		} else {
			c.Outcome("rejected-by-both")
		}
		return true
	})
}

func replay(tier string, raw json.RawMessage) (bool, string, string) {
	var in Input
	if err := json.Unmarshal(raw, &in); err != nil {
		return false, "", err.Error()
	}
	if in.After != nil {
		core.Guard(func() { yang.Parse(*in.After, "f") })
	}
	f, excl, _, _ := check(in.Text)
	if f != nil && in.After != nil {
		f.fp = "after:" + f.fp
	}
	if excl != "" {
		return false, "", "excluded: " + excl
	}
	if f == nil {
		return false, "", "agrees with the reference reader"
	}
	return true, f.fp, fmt.Sprintf("expected %s observed %s", f.exp, f.obs)
}

func init() {
	core.Register(&core.Prop{
		ID: "C02", Variant: "plain", Shards: func(tier string) []string {
			out := append(lexspace.Shards(tier), "deep")
			for i := 0; i < 16; i++ {
				out = append(out, fmt.Sprintf("after/%d", i))
			}
			return out
		}, Run: run, Replay: replay,
		Rule:        "every symbol sequence up to the bound over three small lexical alphabets (characters; lexical pieces such as quotes, escapes, comments, braces, the keyword pattern; pieces inside one statement argument incl. tabs, multi-byte runes, CR LF, same-line comments and single-quoted strings before a multi-line string) is parsed by yang.Parse and by a reference reader written from RFC 7950 section 6; accept/reject must agree, accepted forests must be equal in keywords, argument presence, exact argument strings, nesting and order, rejections must return no statements and a non-empty error; statements nested 1..300 (and 511..513, 1023..1025) deep in compact and one-brace-per-line layouts, balanced and unbalanced; the pair space: every text of a pool of short and of abruptly ending texts (unterminated quotes and comments at several columns, the cut-off after too many errors, open blocks) is parsed, then every text of a pool of column-, line- and nesting-sensitive texts in the same process, which must be read as on its own; texts containing one of the four constructs the property excludes (or whose reading depends on how a tab is counted) are counted as excluded; states = distinct symbol sequences; non-trivial = accepted with at least one statement",
		Assumptions: []string{"the reference reader (ref/rfcread) is the RFC reading", "small alphabets and lengths stand for all texts (small-scope hypothesis)"},
	})
}
