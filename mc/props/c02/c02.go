// Package c02 decides C02: generic parsing agrees with the RFC 7950 section 6 reading of the text.
// Every text of the lexical spaces L1 (characters), L2 (pieces) and L2s (pieces inside one
// argument) is parsed by yang.Parse and by the reference reader; accept/reject and the forests
// must agree.
package c02

import (
	"encoding/json"
	"fmt"
	"os"
	"path/filepath"
	"strings"

	"github.com/openconfig/goyang/pkg/yang"
	"verif/mc/core"
	"verif/mc/gen/lexspace"
	"verif/mc/gen/scale"
	"verif/mc/ref/rfcread"
)

type Input struct {
	Text string `json:"text"`
	// After: a text parsed in the same process immediately before Text (the pair space); how Text is
	// read must not depend on it
	After *string `json:"after,omitempty"`
	// Read: the text is a file that Modules.Read opens (by path, and by module name from the search
	// path); the statements of the module it registers are compared
	Read bool `json:"through_read,omitempty"`
}

// checkRead: the text reaches the reader through a file and Modules.Read. What the registered
// module's statement says is held to the reference like the result of Parse.
func checkRead(text string) (f *fail, excluded string, accepted bool, nstmts int) {
	r := rfcread.Parse(text)
	if r.Excluded != "" {
		return nil, r.Excluded, false, 0
	}
	if r.Err != "" || len(r.Stmts) != 1 || r.Stmts[0].Keyword != "module" {
		return nil, "not one module statement", false, 0
	}
	name := r.Stmts[0].Arg
	dir, err := os.MkdirTemp("", "c02read")
	if err != nil {
		panic(err)
	}
	defer os.RemoveAll(dir)
	if err := os.WriteFile(filepath.Join(dir, name+".yang"), []byte(text), 0o644); err != nil {
		panic(err)
	}
	for _, route := range []string{"path", "name"} {
		var st *yang.Statement
		var rerr error
		if pan, pt := core.Guard(func() {
			ms := yang.NewModules()
			if route == "path" {
				rerr = ms.Read(filepath.Join(dir, name+".yang"))
			} else {
				ms.AddPath(dir)
				rerr = ms.Read(name)
			}
			if m := ms.Modules[name]; m != nil {
				st = m.Statement()
			}
		}); pan {
			return &fail{"panic", "no panic", pt}, "", false, 0
		}
		if rerr != nil {
			return &fail{"read-by-" + route + ":rejects-well-formed", "one module", rerr.Error()}, "", true, 1
		}
		if st == nil {
			return &fail{"read-by-" + route + ":no-module-registered", "module " + name, "nil"}, "", true, 1
		}
		if d := cmp(r.Stmts, []*yang.Statement{st}); d != "" {
			return &fail{"read-by-" + route + ":forest-differs", "", d}, "", true, 1
		}
	}
	return nil, "", true, 1
}

// readTexts: a module whose description is a string over line breaks of the three kinds, blanks and
// tabs before and after them, in double and in single quotes; the lines of the module itself end in
// LF or in CR LF.
func readTexts(f func(string)) {
	pieces := []string{"a", " ", "\t", "\r\n", "\n", "\r", "b"}
	var rec func(cur string, n int)
	rec = func(cur string, n int) {
		if n > 0 {
			for _, q := range []string{`"`, "'"} {
				for _, eol := range []string{"\n", "\r\n"} {
					f("module m {" + eol + "  namespace \"urn:m\";" + eol + "  prefix m;" + eol + "  description " + q + cur + q + ";" + eol + "}" + eol)
				}
			}
		}
		if n == 4 {
			return
		}
		for _, p := range pieces {
			rec(cur+p, n+1)
		}
	}
	rec("", 0)
}

type fail struct{ fp, exp, obs string }

func cmp(a []*rfcread.RStmt, b []*yang.Statement) string {
	if len(a) != len(b) {
		return fmt.Sprintf("%d statements vs %d", len(a), len(b))
	}
	for i := range a {
		arg, has := b[i].Arg()
		if a[i].Keyword != b[i].Keyword || a[i].HasArg != has || a[i].Arg != arg {
			return fmt.Sprintf("ref(%q,%v,%q) impl(%q,%v,%q)", a[i].Keyword, a[i].HasArg, a[i].Arg, b[i].Keyword, has, arg)
		}
		if d := cmp(a[i].Subs, b[i].SubStatements()); d != "" {
			return d
		}
	}
	return ""
}

// check returns the failure (nil if none), whether the text is excluded, and whether it was accepted.
func check(text string) (f *fail, excluded string, accepted bool, nstmts int) {
	return checkRef(rfcread.Parse(text), text)
}

func checkRef(r rfcread.RRes, text string) (f *fail, excluded string, accepted bool, nstmts int) {
	if r.Excluded != "" {
		return nil, r.Excluded, false, 0
	}
	var ss []*yang.Statement
	var err error
	if pan, pt := core.Guard(func() { ss, err = yang.Parse(text, "f") }); pan {
		return &fail{"panic", "no panic", pt}, "", false, 0
	}
	switch {
	case r.Err != "" && err == nil:
		return &fail{"accepts-ill-formed", "reject: " + r.Err, fmt.Sprintf("%d statements", len(ss))}, "", false, 0
	case r.Err == "" && err != nil:
		return &fail{"rejects-well-formed", fmt.Sprintf("%d statements", len(r.Stmts)), err.Error()}, "", true, len(r.Stmts)
	case r.Err == "":
		if d := cmp(r.Stmts, ss); d != "" {
			return &fail{"forest-differs", "", d}, "", true, len(r.Stmts)
		}
		return nil, "", true, len(r.Stmts)
	default:
		if len(ss) != 0 {
			return &fail{"reject-with-statements", "no statements", fmt.Sprint(len(ss))}, "", false, 0
		}
		if err.Error() == "" {
			return &fail{"reject-with-empty-error", "non-empty error", ""}, "", false, 0
		}
	}
	return nil, "", false, 0
}

// deepTexts: statements nested n deep in compact and one-brace-per-line layout, balanced, with one
// closer too many followed by a statement, with one closer missing, with empty blocks and with a
// comment between the closers.
func deepTexts(n int) []string {
	var out []string
	for _, pretty := range []bool{false, true} {
		t := scale.Nested(n, pretty)
		out = append(out, t, t+"x;}", t+"}x;", strings.TrimSuffix(strings.TrimSuffix(t, "\n"), "}"))
	}
	la, _ := scale.LongArgs(n)
	lb, _ := scale.LongArgs(n * 37)
	out = append(out, la.Text, lb.Text, scale.Counts(n).Text)
	open, close := strings.Repeat("k{", n), strings.Repeat("}", n)
	out = append(out, open+close, open+"a b;"+strings.Repeat("}/*c*/", n), open+"a b;"+close+close, strings.Repeat("k a;", n), strings.Repeat("k{}", n))
	return out
}

// quoteTexts: a double-quoted string that opens at column q (pushed right by blanks, by a long
// keyword, or by nesting) whose continuation lines are indented by i blanks, for every q up to 140
// and i around q, 0 and beyond (two sizes at once: where the string opens and how far it is indented).
func quoteTexts(q int) []string {
	var out []string
	for _, i := range []int{0, 1, q - 2, q - 1, q, q + 1, q + 2, q + 3, q + 9, 2 * q} {
		if i < 0 {
			continue
		}
		ind := strings.Repeat(" ", i)
		pad := strings.Repeat(" ", q)
		out = append(out,
			pad+"k \"first\n"+ind+"second\n"+ind+"  third\";",
			"k"+strings.Repeat("x", q)+" \"first\n"+ind+"second\";",
			pad+"k 'a' + \"first\n"+ind+"second\";",
		)
		if q%8 == 0 {
			tabs := strings.Repeat("\t", q/8)
			out = append(out, tabs+"k \"first\n"+ind+"second\n"+tabs+"   third\";")
		}
	}
	return out
}

// runAfter: the pair space. Every text of the first pool is parsed, then every text of the second
// pool, whose reading must agree with the reference as it does on its own: nothing a reader keeps
// from one call (a pooled lexer, a column, a nesting depth, an error count) may reach the next.
func runAfter(c *core.Ctx) {
	var shard int
	fmt.Sscanf(c.Shard, "after/%d", &shard)
	first, second := lexspace.PairPool(c.Tier)
	c.Res.Bound = fmt.Sprintf("pair space: %d first texts x %d second texts, every ordered pair parsed back to back in one process", len(first), len(second))
	refs := make([]rfcread.RRes, len(second))
	for i, t := range second {
		refs[i] = rfcread.Parse(t)
	}
	for i, t1 := range first {
		if i%16 != shard {
			continue
		}
		if c.Expired() {
			return
		}
		t1 := t1
		for j, t2 := range second {
			if refs[j].Excluded != "" {
				continue
			}
			caseNo, run := c.Begin()
			if c.Skip(caseNo, run, Input{Text: t2, After: &t1}) {
				continue
			}
			c.Exec()
			c.Edge(2)
			c.StateN(1)
			c.Validate()
			core.Guard(func() { yang.Parse(t1, "f") })
			f, _, acc, ns := checkRef(refs[j], t2)
			switch {
			case f != nil:
				c.NontrivialN(1)
				c.Outcome("FAIL:after:" + f.fp)
				c.Fail(caseNo, nil, "after:"+f.fp, Input{Text: t2, After: &t1}, f.exp, f.obs)
			case acc && ns > 0:
				c.NontrivialN(1)
				c.Outcome("second-of-pair:accepted-forest-equal")
			default:
				c.Outcome("second-of-pair:rejected-by-both")
			}
		}
	}
}

// twoStrings: two statements, each with a double-quoted string over two lines, in one text - the
// quote columns and the indentations of the continuation lines in every relation to each other
// (blanks; with a tab in front of the second statement or of a continuation line every fourth time).
func twoStrings(f func(string)) {
	for q1 := 0; q1 <= 12; q1 += 2 {
		for i1 := 0; i1 <= 18; i1++ {
			for q2 := 0; q2 <= 12; q2 += 2 {
				for i2 := 0; i2 <= 18; i2++ {
					sp := func(n int) string { return strings.Repeat(" ", n) }
					t := sp(q1) + "k \"a\n" + sp(i1) + "b\";\n" + sp(q2) + "m \"c d\n" + sp(i2) + "e\";"
					f(t)
					if (i1+i2)%4 == 0 {
						f(sp(q1) + "k \"a\n\t" + sp(i1) + "b\";\n\t" + sp(q2) + "m \"c\n\t" + sp(i2) + "d\n" + sp(i1) + "e\";")
					}
				}
			}
		}
	}
}

func run(c *core.Ctx) {
	if strings.HasPrefix(c.Shard, "after/") {
		runAfter(c)
		return
	}
	if strings.HasPrefix(c.Shard, "read/") {
		var shard, i int
		fmt.Sscanf(c.Shard, "read/%d", &shard)
		c.Res.Bound = "through Modules.Read (a file, opened by path and found by name on the search path): a module whose description is a string of <= 4 pieces over {a, b, blank, tab, LF, CR LF, CR} in double and in single quotes, the module's own lines ending in LF or CR LF"
		readTexts(func(t string) {
			i++
			if i%4 != shard || c.Expired() {
				return
			}
			caseNo, run := c.Begin()
			if c.Skip(caseNo, run, Input{Text: t, Read: true}) {
				return
			}
			c.Exec()
			c.Edge(2)
			c.StateN(1)
			f, excl, _, _ := checkRead(t)
			switch {
			case excl != "":
				c.Exclude()
				c.Outcome("excluded:" + excl)
			case f != nil:
				c.Validate()
				c.NontrivialN(1)
				c.Outcome("FAIL:" + f.fp)
				c.Fail(caseNo, nil, f.fp, Input{Text: t, Read: true}, f.exp, f.obs)
			default:
				c.Validate()
				c.NontrivialN(1)
				c.Outcome("read-from-file:forest-equal")
			}
		})
		return
	}
	if c.Shard == "deep" {
		sizes := []int{}
		for n := 1; n <= 300; n++ {
			sizes = append(sizes, n)
		}
		sizes = append(sizes, 511, 512, 513, 1023, 1024, 1025)
		c.Res.Bound = "nesting depth 1..300, 511..513, 1023..1025 in 13 layouts; arguments of n and 37 n bytes; n statements of one kind; multi-line strings opening at column 1..140 with continuation lines indented around that column; every statement keyword, near-miss spellings of pattern and pattern-like extension keywords with 10 argument forms around backslash escapes"
		for _, n := range sizes {
			texts := deepTexts(n)
			if n <= 140 {
				texts = append(texts, quoteTexts(n)...)
			}
			if n == 1 {
				texts = append(texts, lexspace.KeywordTexts()...) // every keyword with escapes only a pattern may keep
				twoStrings(func(t string) { texts = append(texts, t) })
			}
			for _, text := range texts {
				if c.Expired() {
					return
				}
				caseNo, run := c.Begin()
				if c.Skip(caseNo, run, Input{Text: text}) {
					continue
				}
				c.Exec()
				c.Edge(1)
				c.StateN(1)
				c.Validate()
				f, excl, acc, ns := check(text)
				switch {
				case excl != "":
					c.Outcome("excluded:" + excl)
				case f != nil:
					c.Outcome("FAIL:" + f.fp)
					c.Fail(caseNo, nil, "deep:"+f.fp, Input{Text: text}, f.exp, f.obs)
				case acc && ns > 0:
					c.NontrivialN(1)
					c.Outcome("accepted-forest-equal")
				default:
					c.Outcome("rejected-by-both")
				}
			}
		}
		return
	}
	sp, idx := lexspace.Find(c.Tier, c.Shard)
	c.Res.Bound = "L1: all strings of <= 6 (thorough 7; 8 over a 10-symbol sub-alphabet) symbols over a 15-symbol lexical alphabet; L2: <= 5 (7) lexical pieces of 17; L2s: one statement whose argument is <= 6 (7) pieces of 13, keyword k / pattern / tab-indented, and <= 5 (6) pieces after a same-line comment or single-quoted piece holding a multi-byte rune"
	n := 0
	lexspace.Enumerate(sp, idx, func(text string, syms int) bool {
		if c.Expired() {
			return false
		}
		caseNo, run := c.Begin()
		if c.Skip(caseNo, run, Input{Text: text}) {
			return true
		}
		c.Exec()
		c.Edge(1)
		c.StateN(1)
		f, excl, acc, ns := check(text)
		n++
		if excl != "" {
			c.Exclude()
			c.Outcome("excluded:" + excl)
			return true
		}
		c.Validate()
		if (acc && ns > 0) || f != nil {
			c.NontrivialN(1)
		}
		if f != nil {
			c.Outcome("FAIL:" + f.fp)
			c.Fail(caseNo, nil, f.fp, Input{Text: text}, f.exp, f.obs)
			return true
		}
		if acc {
			if ns > 0 {
				c.Outcome("accepted-forest-equal")
				if n%40000 == 7 {
					b, _ := json.Marshal(Input{Text: text})
					c.Sample(string(b))
				}
			} else {
				c.Outcome("accepted-empty")
			}
		} else {
			c.Outcome("rejected-by-both")
		}
		return true
	})
}

func replay(tier string, raw json.RawMessage) (bool, string, string) {
	var in Input
	if err := json.Unmarshal(raw, &in); err != nil {
		return false, "", err.Error()
	}
	if in.After != nil {
		core.Guard(func() { yang.Parse(*in.After, "f") })
	}
	f, excl, _, _ := check(in.Text)
	if in.Read {
		f, excl, _, _ = checkRead(in.Text)
	}
	if f != nil && in.After != nil {
		f.fp = "after:" + f.fp
	}
	if excl != "" {
		return false, "", "excluded: " + excl
	}
	if f == nil {
		return false, "", "agrees with the reference reader"
	}
	return true, f.fp, fmt.Sprintf("expected %s observed %s", f.exp, f.obs)
}

func init() {
	core.Register(&core.Prop{
		ID: "C02", Variant: "plain", Shards: func(tier string) []string {
			out := append(lexspace.Shards(tier), "deep")
			for i := 0; i < 16; i++ {
				out = append(out, fmt.Sprintf("after/%d", i))
			}
			return append(out, "read/0", "read/1", "read/2", "read/3")
		}, Run: run, Replay: replay,
		Rule:        "every symbol sequence up to the bound over three small lexical alphabets (characters; lexical pieces such as quotes, escapes, comments, braces, the keyword pattern; pieces inside one statement argument incl. tabs, multi-byte runes, CR LF, same-line comments and single-quoted strings before a multi-line string) is parsed by yang.Parse and by a reference reader written from RFC 7950 section 6; accept/reject must agree, accepted forests must be equal in keywords, argument presence, exact argument strings, nesting and order, rejections must return no statements and a non-empty error; statements nested 1..300 (and 511..513, 1023..1025) deep in compact and one-brace-per-line layouts, balanced and unbalanced; the pair space: every text of a pool of short and of abruptly ending texts (unterminated quotes and comments at several columns, the cut-off after too many errors, open blocks) is parsed, then every text of a pool of column-, line- and nesting-sensitive texts in the same process, which must be read as on its own; texts containing one of the four constructs the property excludes (or whose reading depends on how a tab is counted) are counted as excluded; states = distinct symbol sequences; non-trivial = accepted with at least one statement",
		Assumptions: []string{"the reference reader (ref/rfcread) is the RFC reading", "small alphabets and lengths stand for all texts (small-scope hypothesis)"},
	})
}
