// Package c04 decides C04: a clean Process yields proper trees and really means there were no
// errors. Every module set of the schema families (USES, AUG, CFG and the conflict library with
// deviations, revisions and submodules) on which Process returns no error is walked with a
// pointer-identity visited set and the structural invariants of the statement are evaluated on
// every node.
package c04

import (
	"encoding/json"
	"fmt"
	"os"
	"path/filepath"
	"sort"
	"strings"

	"github.com/openconfig/goyang/pkg/yang"
	"verif/mc/core"
	"verif/mc/dump"
	"verif/mc/gen/corpus"
	"verif/mc/gen/scale"
)

type Input struct {
	Family string      `json:"family"`
	Desc   string      `json:"desc"`
	Files  []dump.File `json:"files"`
}

type fail struct{ fp, exp, obs string }

// Invariants walks all trees of a processed set and returns the violated invariants.
func Invariants(ms *yang.Modules) []string {
	var problems []string
	add := func(f string, a ...any) {
		if len(problems) < 12 {
			problems = append(problems, fmt.Sprintf(f, a...))
		}
	}
	seen := map[*yang.Entry]string{}
	var walk func(e *yang.Entry, path string, parent *yang.Entry, key string)
	walk = func(e *yang.Entry, path string, parent *yang.Entry, key string) {
		if e == nil {
			add("%s: nil entry", path)
			return
		}
		if prev, ok := seen[e]; ok {
			add("%s: the same node object is also reachable as %s", path, prev)
			return
		}
		seen[e] = path
		if key != "" && e.Name != key {
			add("%s: filed under %q but named %q", path, key, e.Name)
		}
		if e.Parent != parent {
			pn := "<nil>"
			if e.Parent != nil {
				pn = e.Parent.Name
			}
			add("%s: parent link points to %s, not to the node it is filed under", path, pn)
		}
		isLeaf := e.Kind == yang.LeafEntry
		switch {
		case isLeaf && e.Type == nil:
			add("%s: leaf or leaf-list without a resolved type", path)
		case isLeaf && e.Dir != nil:
			add("%s: leaf or leaf-list with a child map", path)
		case !isLeaf && e.Dir == nil:
			add("%s: %v node without a child map", path, e.Kind)
		case !isLeaf && e.Type != nil:
			add("%s: %v node with a type", path, e.Kind)
		}
		// what the source says the node is (a leaf-list entry carries a synthetic leaf node whose
		// statement is still the leaf-list statement; implicit cases borrow their member's statement)
		kw := ""
		if n := e.Node; n != nil && e.Kind != yang.CaseEntry {
			if st := n.Statement(); st != nil {
				kw = st.Keyword
			}
		}
		isListish := kw == "list" || kw == "leaf-list"
		if e.ListAttr != nil && kw != "" && !isListish {
			add("%s: list attributes on a %s", path, kw)
		}
		if e.ListAttr == nil && isListish {
			add("%s: %s without list attributes", path, kw)
		}
		if e.Kind == yang.ChoiceEntry {
			for k, c := range e.Dir {
				if c != nil && c.Kind != yang.CaseEntry {
					add("%s/%s: child of a choice is not a case", path, k)
				}
			}
		}
		if len(e.Augments) > 0 {
			add("%s: %d augments left unapplied", path, len(e.Augments))
		}
		if len(e.Errors) > 0 {
			add("%s: node carries %d recorded errors although Process reported none: %v", path, len(e.Errors), e.Errors[0])
		}
		var ks []string
		for k := range e.Dir {
			ks = append(ks, k)
		}
		sort.Strings(ks)
		for _, k := range ks {
			walk(e.Dir[k], path+"/"+k, e, k)
		}
		if e.RPC != nil {
			if e.RPC.Input != nil {
				walk(e.RPC.Input, path+"/input", e, "input")
			}
			if e.RPC.Output != nil {
				walk(e.RPC.Output, path+"/output", e, "output")
			}
		}
	}
	done := map[*yang.Module]bool{}
	for _, mm := range []map[string]*yang.Module{ms.Modules, ms.SubModules} {
		var names []string
		for n := range mm {
			names = append(names, n)
		}
		sort.Strings(names)
		for _, n := range names {
			m := mm[n]
			if done[m] {
				continue
			}
			done[m] = true
			e := yang.ToEntry(m)
			walk(e, "/"+m.Name, nil, "")
			if errs := e.GetErrors(); len(errs) > 0 {
				add("/%s: GetErrors returns %d errors although Process reported none: %v", m.Name, len(errs), errs[0])
			}
		}
	}
	return problems
}

// fromPath loads one file of the set explicitly and lets Process fetch what it imports and includes
// from a search path that holds all files of the set - the way the command and GetModule are used.
// What such a run loads is another program than the whole set, so its errors are not judged; when
// it is clean, the invariants hold for every module it loaded, fetched ones included.
func fromPath(files []dump.File) (f *fail) {
	dir, err := os.MkdirTemp("..", "c04-")
	if err != nil {
		panic(err)
	}
	defer os.RemoveAll(dir)
	dir, _ = filepath.Abs(dir)
	for _, x := range files {
		if err := os.WriteFile(filepath.Join(dir, x.Name), []byte(x.Text), 0o644); err != nil {
			panic(err)
		}
	}
	for _, x := range files {
		ms := yang.NewModules()
		ms.AddPath(dir)
		if err := ms.Read(filepath.Join(dir, x.Name)); err != nil {
			continue
		}
		if errs := ms.Process(); len(errs) > 0 {
			continue
		}
		if p := Invariants(ms); len(p) > 0 {
			return &fail{classify(p) + ":fetched-from-the-search-path", "a proper tree without recorded errors in every module the run loaded (explicitly loaded: " + x.Name + ")", strings.Join(p, "\n")}
		}
	}
	return nil
}

func check(files []dump.File) (f *fail, clean bool, nodes int) { return checkWith(files, false) }

func checkWith(files []dump.File, path bool) (f *fail, clean bool, nodes int) {
	pan, pt := core.Guard(func() {
		for _, rev := range []bool{false, true} {
			fs := append([]dump.File{}, files...)
			if rev {
				for i, j := 0, len(fs)-1; i < j; i, j = i+1, j-1 {
					fs[i], fs[j] = fs[j], fs[i]
				}
			}
			ms := yang.NewModules()
			for _, x := range fs {
				if err := ms.Parse(x.Text, x.Name); err != nil {
					return
				}
			}
			if errs := ms.Process(); len(errs) > 0 {
				return
			}
			clean = true
			if p := Invariants(ms); len(p) > 0 {
				f = &fail{classify(p), "a proper tree without recorded errors", strings.Join(p, "\n")}
				return
			}
			// a second look after read access (Find creates rpc input/output on demand)
			for _, m := range ms.Modules {
				e := yang.ToEntry(m)
				for _, c := range e.Dir {
					if c.RPC != nil {
						e.Find(c.Name + "/input")
						e.Find(c.Name + "/output")
					}
				}
			}
			if p := Invariants(ms); len(p) > 0 {
				f = &fail{classify(p) + ":after-lookup", "a proper tree", strings.Join(p, "\n")}
				return
			}
		}
		if path && len(files) > 1 && f == nil {
			f = fromPath(files)
		}
		// the options that change what is built - targets of not-supported retained, uses recorded,
		// include cycles tolerated: a clean run still leaves proper trees
		if f == nil && clean {
			for _, x := range files {
				if strings.Contains(x.Text, "deviat") || strings.Contains(x.Text, "uses") {
					ms := yang.NewModules()
					ms.ParseOptions.DeviateOptions.IgnoreDeviateNotSupported = true
					ms.ParseOptions.StoreUses = true
					ms.ParseOptions.IgnoreSubmoduleCircularDependencies = true
					for _, y := range files {
						if err := ms.Parse(y.Text, y.Name); err != nil {
							return
						}
					}
					if errs := ms.Process(); len(errs) > 0 {
						return
					}
					if p := Invariants(ms); len(p) > 0 {
						f = &fail{classify(p) + ":with-parse-options", "a proper tree without recorded errors", strings.Join(p, "\n")}
					}
					return
				}
			}
		}
	})
	if pan {
		return &fail{"panic@" + core.LastPanicSite, "no panic", pt}, clean, 0
	}
	return f, clean, nodes
}

func classify(p []string) string {
	s := p[0]
	switch {
	case strings.Contains(s, "also reachable"):
		return "node-shared"
	case strings.Contains(s, "parent link"):
		return "parent-link"
	case strings.Contains(s, "filed under"):
		return "filed-under-wrong-name"
	case strings.Contains(s, "recorded errors") || strings.Contains(s, "GetErrors"):
		return "errors-although-clean"
	case strings.Contains(s, "not a case"):
		return "choice-child-not-a-case"
	case strings.Contains(s, "unapplied"):
		return "augment-unapplied"
	}
	return "kind-inconsistent"
}

const nShards = 32

func shards(tier string) []string {
	var out []string
	for i := 0; i < nShards; i++ {
		out = append(out, fmt.Sprintf("corpus/%d", i))
	}
	for i := range hugeSizes {
		out = append(out, fmt.Sprintf("huge/%d", i))
	}
	return out
}

// module sets with thousands of statements (n leaves in each of five places): around the powers of
// two at which a table, cache or buffer bound might sit. Too large for the all-pairs checks that
// share the corpus.
var hugeSizes = []int{341, 683, 1365, 2047, 2048, 2049, 2730, 2731, 3276, 3277, 4095, 4096, 4097, 5461, 6553, 8192, 13107, 16385}

func run(c *core.Ctx) {
	var shard int
	if _, err := fmt.Sscanf(c.Shard, "huge/%d", &shard); err == nil {
		n := hugeSizes[shard]
		s := corpus.Set{Family: "scale", Desc: fmt.Sprintf("scale wide n=%d", n), Files: scale.Wide(n)}
		caseNo, run := c.Begin()
		in := Input{s.Family, s.Desc, nil} // the files are rebuilt from the size on replay
		if c.Skip(caseNo, run, in) {
			return
		}
		c.Exec()
		c.Edge(2)
		c.StateN(1)
		f, clean, _ := check(s.Files)
		if !clean && f == nil {
			c.Fail(caseNo, nil, "scale-set-not-clean", in, "processes without error", "errors")
			return
		}
		c.Validate()
		c.NontrivialN(1)
		if f != nil {
			c.Outcome("FAIL:" + f.fp)
			c.Fail(caseNo, nil, f.fp, in, f.exp, f.obs)
			return
		}
		c.Outcome("proper-trees:huge")
		return
	}
	fmt.Sscanf(c.Shard, "corpus/%d", &shard)
	c.Res.Bound = "every program of the USES, AUG and CFG families and of the conflict library (deviations of every kind, two deviating or augmenting modules, revisions, submodules, errors) and the scale sets (deep nesting to 40 (70), wide containers, long chains, many imports and includes at every size up to a bound and around the powers of two; 18 sets of 1 700 to 82 000 statements) in two load orders, and - for every hand-written set and a third (thorough: all) of the generated ones - each file loaded alone with the others fetched from a search path during Process; sets with deviations or uses statements also with the three parse options switched on; invariants evaluated on every node of every module and submodule tree of every set that processes without error, before and after path lookups into rpc input/output"
	stride := 1
	n := 0
	corpus.Each(c.Tier, shard, nShards, stride, func(s corpus.Set) {
		if c.Expired() {
			return
		}
		caseNo, run := c.Begin()
		in := Input{s.Family, s.Desc, s.Files}
		if c.Skip(caseNo, run, in) {
			return
		}
		c.Exec()
		c.Edge(2)
		c.StateN(1)
		// the pass that fetches from a search path: every set by hand, every third generated one
		// (thorough: all)
		pathPass := c.Tier == "thorough" || (s.Family != "uses" && s.Family != "aug" && s.Family != "cfg") || caseNo%3 == 0
		f, clean, _ := checkWith(s.Files, pathPass)
		if !clean && f == nil {
			c.Exclude()
			c.Outcome("not-clean:outside-the-quantifier")
			return
		}
		c.Validate()
		c.NontrivialN(1)
		n++
		if f != nil {
			c.Outcome("FAIL:" + f.fp)
			c.Fail(caseNo, nil, f.fp, in, f.exp, f.obs)
			return
		}
		c.Outcome("proper-trees:" + s.Family)
		if n%600 == 5 {
			b, _ := json.Marshal(in)
			c.Sample(string(b))
		}
	})
}

func replay(tier string, raw json.RawMessage) (bool, string, string) {
	var in Input
	if err := json.Unmarshal(raw, &in); err != nil {
		return false, "", err.Error()
	}
	if in.Files == nil {
		var n int
		if _, err := fmt.Sscanf(in.Desc, "scale wide n=%d", &n); err == nil {
			in.Files = scale.Wide(n)
		}
	}
	f, _, _ := checkWith(in.Files, true)
	if f == nil {
		return false, "", "all invariants hold"
	}
	return true, f.fp, fmt.Sprintf("expected %s\nobserved %s", f.exp, f.obs)
}

func init() {
	core.Register(&core.Prop{
		ID: "C04", Variant: "plain", Shards: shards, Run: run, Replay: replay,
		Rule:        "all module sets of the schema families and the conflict library, in two load orders; for every set on which Process returns no error every tree (modules and submodules) is walked over Dir and RPC.Input/Output with a pointer-identity visited set: each child is filed under its own name; Parent is the node it was reached from (rpc/action input and output included); no node object is reached twice (within a tree, across uses, across modules); leaf/leaf-list <=> resolved type and no child map, every other kind has a child map and no type; list attributes <=> list or leaf-list; every child of a choice is a case; no entry keeps unapplied augments; no node carries recorded errors and GetErrors is empty; re-evaluated after lookups that create rpc input/output on demand. states = distinct sets; non-trivial = sets that process cleanly",
		Assumptions: []string{"sets on which Process reports errors are outside the quantifier"},
	})
}
