// Package c19 decides C19: independent module sets and concurrent readers do not interfere.
// The worker is linked against a copy of the library whose sync import is redirected to a shim:
// every Lock/RLock/Unlock/RUnlock is a scheduling point of a cooperative scheduler, exactly one
// goroutine runs at a time, and hand-offs are raw pipe syscalls in norace code so that Go's race
// detector (the worker is built with -race) sees only the synchronisation the library really
// performs. All schedules within a preemption bound are explored; on every schedule each
// goroutine's results must equal the sequential results, there must be no deadlock and no race
// report.
package c19

import (
	"encoding/json"
	"fmt"
	"reflect"
	"runtime"
	"strings"
	"sync"

	"github.com/openconfig/goyang/pkg/yang"
	"verif/mc/core"
	"verif/mc/dump"
	"verif/mc/sched"
)

func H(n string) string { return fmt.Sprintf(`namespace "urn:%s"; prefix %s;`, n, n) }

// bigDir: a container with 40 children and a list with 33 (directories beyond any small threshold
// at which a per-node table might be built lazily on the read path)
var bigDir = func() string {
	var sb strings.Builder
	sb.WriteString(" container big {")
	for i := 0; i < 40; i++ {
		fmt.Fprintf(&sb, " leaf b%02d { type string; }", i)
	}
	sb.WriteString(" } list bigl { key k00;")
	for i := 0; i < 33; i++ {
		fmt.Fprintf(&sb, " leaf k%02d { type string; }", i)
	}
	sb.WriteString(" }")
	return sb.String()
}()

func schema(tag string) []dump.File {
	return []dump.File{
		{Name: "a.yang", Text: `module a { ` + H("a") + ` typedef t { type int8 { range "1..9"; } default 3; } identity base; identity d1 { base base; } grouping g { leaf gl { type t; } list gli { key k; leaf k { type string; } } } container c { uses g; leaf x { type string; default "` + tag + `"; } } leaf r { type identityref { base base; } } rpc op { input { leaf oi { type t; } } } ` + bigDir + ` leaf p8 { type int8; } leaf pu { type uint64; } leaf mm { type int8 { range "min..5 | 7..max"; } } leaf mu { type uint64 { range "1..max"; } } leaf ml { type string { length "min..9 | 11..max"; } } leaf md { type decimal64 { fraction-digits 3; range "min..0 | 1.5..max"; } } }`},
		{Name: "b.yang", Text: `module b { ` + H("b") + ` import a { prefix a; } identity d2 { base a:base; } augment /a:c { leaf y { type a:t; } container z { uses a:g; } } container bc { config false; uses a:g; leaf e { type enumeration { enum one; enum two { value 5; } } } } deviation /a:c/a:x { deviate add { units u; } } }`},
		// a module whose import prefixes no processing run ever resolves (they occur in leafref paths
		// only): whatever the library builds to resolve them is built by the first reader
		{Name: "v.yang", Text: `module v { ` + H("v") + ` import a { prefix va; } import b { prefix vb; } leaf lr { type leafref { path "/va:c/va:x"; } } container vc { leaf lr2 { type leafref { path "/va:c/vb:y"; } } } }`},
		// ... and one with twelve such imports (whatever is built to resolve a prefix may be built
		// differently once the imports are many)
		{Name: "v12.yang", Text: v12},
		{Name: "libs.yang", Text: `module lib0 { ` + H("lib0") + ` container c0 { leaf x { type string; } } }`},
		{Name: "lib1.yang", Text: libN(1)}, {Name: "lib2.yang", Text: libN(2)}, {Name: "lib3.yang", Text: libN(3)}, {Name: "lib4.yang", Text: libN(4)}, {Name: "lib5.yang", Text: libN(5)},
		{Name: "lib6.yang", Text: libN(6)}, {Name: "lib7.yang", Text: libN(7)}, {Name: "lib8.yang", Text: libN(8)}, {Name: "lib9.yang", Text: libN(9)}, {Name: "lib10.yang", Text: libN(10)}, {Name: "lib11.yang", Text: libN(11)},
	}
}

func libN(i int) string {
	return fmt.Sprintf(`module lib%d { namespace "urn:lib%d"; prefix lib%d; container c%d { leaf x { type string; } } }`, i, i, i, i)
}

var v12 = func() string {
	var sb strings.Builder
	sb.WriteString(`module v12 { ` + H("v12"))
	for i := 0; i < 12; i++ {
		fmt.Fprintf(&sb, " import lib%d { prefix p%d; }", i, i)
	}
	for i := 0; i < 12; i++ {
		fmt.Fprintf(&sb, ` leaf r%d { type leafref { path "/p%d:c%d/p%d:x"; } }`, i, i, i, i)
	}
	sb.WriteString(" }")
	return sb.String()
}()

// schemaIncludes: a module with ten submodules; a typedef that one submodule defines - differently
// from tag to tag: the sets are independent, they only share their module names - is used by a
// sibling that does not include it, so it is found through the module's include list. Few
// scheduling points, so that every schedule with one preemption is explored: one set stops anywhere
// in its pipeline while the other runs from start to end.
func schemaIncludes(tag string) []dump.File {
	base := []string{"string", "uint8", "int32", "boolean"}[int(tag[len(tag)-1]-'0')%4]
	// ... and restrictions whose texts, written one behind the other, read the same in two sets
	// (parent 0..1002 restricted to 5, parent 0..100 restricted to 25)
	pr := [][2]string{{"0..1002", "5"}, {"0..100", "25"}, {"0..1000", "7"}, {"0..10", "02"}}[int(tag[len(tag)-1]-'0')%4]
	fs := []dump.File{{Name: "inc.yang", Text: `module inc { ` + H("inc") + ` include s0; include s1; include s2; include s3; include s4; include s5; include s6; include s7; include s8; include s9; identity top; leaf own { type level; } typedef pct { type uint16 { range "` + pr[0] + `"; } } leaf x { type pct { range "` + pr[1] + `"; } } leaf len { type string { length "` + pr[0] + `"; } } }`}}
	for i := 0; i < 10; i++ {
		body := fmt.Sprintf(`leaf l%d { type string; }`, i)
		switch i {
		case 3:
			body = `typedef level { type ` + base + `; units "` + tag + `"; } grouping g3 { leaf in-` + tag + ` { type level; } } identity i3-` + tag + ` { base top; }`
		case 7:
			body = `container c7 { leaf lv { type level; } uses g3; leaf r { type identityref { base top; } } }`
		}
		fs = append(fs, dump.File{Name: fmt.Sprintf("s%d.yang", i), Text: fmt.Sprintf(`submodule s%d { belongs-to inc { prefix inc; } %s }`, i, body)})
	}
	return fs
}

func schemaFor(variant int, tag string) []dump.File {
	if variant == 1 {
		return schemaIncludes(tag)
	}
	if variant == 2 {
		return schemaRejects(tag)
	}
	return schema(tag)
}

// schemaRejects: the schema, and after it texts that the set refuses - a second text for a module it
// holds and a statement that is no module, each with typedefs, groupings and identities that do not
// resolve. The refusal is the last thing the set's loader does: whatever it left lying about meets
// the next load of some other set.
func schemaRejects(tag string) []dump.File {
	fs := append([]dump.File{}, schema(tag)...)
	first := fs[0].Text
	name := strings.Fields(first)[1]
	bad := ` typedef leaked-` + tag + ` { type nosuch-` + tag + `; } typedef leaked2 { type int8 { range "9..1"; } } grouping leaked-g { uses nosuch-g; } leaf leaked-l { type leaked2; }`
	fs = append(fs,
		dump.File{Name: "again-" + tag + ".yang", Text: `module ` + name + ` { ` + H(name) + bad + ` identity leaked-id { base nosuch-base; } }`},
		dump.File{Name: "nomodule-" + tag + ".yang", Text: `container stray { ` + bad + ` }`})
	return fs
}

// ---------------------------------------------------------------------------------------------
// reader operations on a shared processed set

type op struct {
	name string
	f    func(ms *yang.Modules) string
}

func entry(ms *yang.Modules, mod string) *yang.Entry { return yang.ToEntry(ms.Modules[mod]) }

var ops = []op{
	{"ToEntry(a)", func(ms *yang.Modules) string { return entry(ms, "a").Name }},
	{"ToEntry(b)", func(ms *yang.Modules) string { return entry(ms, "b").Name }},
	{"Find(/a:c/b:y)", func(ms *yang.Modules) string {
		e := entry(ms, "b").Find("/a:c/b:y")
		if e == nil {
			return "<nil>"
		}
		return e.Path() + " " + e.Type.Name
	}},
	{"Find(/a:c/b:z/b:gli/b:k) from a", func(ms *yang.Modules) string {
		e := entry(ms, "a").Dir["c"].Find("z/gli/k")
		if e == nil {
			return "<nil>"
		}
		return e.Path()
	}},
	{"Find(/va:c/va:x) from v", func(ms *yang.Modules) string {
		e := entry(ms, "v").Find("/va:c/va:x")
		if e == nil {
			return "<nil>"
		}
		return e.Path() + fmt.Sprint(len(entry(ms, "v").GetErrors()))
	}},
	{"Find(/va:c/vb:y) from v/vc/lr2", func(ms *yang.Modules) string {
		e := entry(ms, "v").Dir["vc"].Dir["lr2"].Find("/va:c/vb:y")
		m := yang.FindModuleByPrefix(ms.Modules["v"], "vb")
		if e == nil || m == nil {
			return "<nil>"
		}
		return e.Path() + " " + m.Name
	}},
	{"Find(/p3:c3/p3:x) from v12", func(ms *yang.Modules) string {
		e := entry(ms, "v12").Find("/p3:c3/p3:x")
		if e == nil {
			return "<nil>"
		}
		return e.Path() + fmt.Sprint(len(entry(ms, "v12").GetErrors()))
	}},
	{"Find(/p11:c11) from v12/r7", func(ms *yang.Modules) string {
		e := entry(ms, "v12").Dir["r7"].Find("/p11:c11")
		m := yang.FindModuleByPrefix(ms.Modules["v12"], "p0")
		if e == nil || m == nil {
			return "<nil>"
		}
		return e.Path() + " " + m.Name
	}},
	{"Namespace(grafted y)", func(ms *yang.Modules) string { return entry(ms, "a").Dir["c"].Dir["y"].Namespace().Name }},
	{"InstantiatingModule(grafted y)", func(ms *yang.Modules) string {
		m, err := entry(ms, "a").Dir["c"].Dir["y"].InstantiatingModule()
		return fmt.Sprint(m, err)
	}},
	{"InstantiatingModule(a:c/gl)", func(ms *yang.Modules) string {
		m, err := entry(ms, "a").Dir["c"].Dir["gl"].InstantiatingModule()
		return fmt.Sprint(m, err)
	}},
	{"InstantiatingModule(b:bc/gl)", func(ms *yang.Modules) string {
		m, err := entry(ms, "b").Dir["bc"].Dir["gl"].InstantiatingModule()
		return fmt.Sprint(m, err)
	}},
	{"FindModuleByNamespace(urn:a)", func(ms *yang.Modules) string {
		m, err := ms.FindModuleByNamespace("urn:a")
		if err != nil {
			return err.Error()
		}
		return m.Name
	}},
	{"FindModuleByNamespace(urn:b)", func(ms *yang.Modules) string {
		m, err := ms.FindModuleByNamespace("urn:b")
		if err != nil {
			return err.Error()
		}
		return m.Name
	}},
	{"FindModuleByNamespace(urn:none)", func(ms *yang.Modules) string {
		_, err := ms.FindModuleByNamespace("urn:none")
		return fmt.Sprint(err)
	}},
	{"ReadOnly+DefaultValues", func(ms *yang.Modules) string {
		a, b := entry(ms, "a"), entry(ms, "b")
		return fmt.Sprint(b.Dir["bc"].Dir["gl"].ReadOnly(), a.Dir["c"].Dir["gl"].ReadOnly(), a.Dir["c"].Dir["gl"].DefaultValues(), a.Dir["c"].Dir["x"].DefaultValues())
	}},
	{"GetErrors", func(ms *yang.Modules) string {
		return fmt.Sprint(len(entry(ms, "a").GetErrors()), len(entry(ms, "b").GetErrors()))
	}},
	{"Print", func(ms *yang.Modules) string {
		var sb strings.Builder
		entry(ms, "a").Print(&sb)
		return sb.String()
	}},
	{"dump", func(ms *yang.Modules) string { return dump.Modules(ms, dump.Options{Positions: true}) }},
	// readers of the statement tree rather than of the entry tree: lookups that walk through uses
	// statements into groupings, prefix and grouping resolution, paths, sources, printing
	{"FindNode through uses", func(ms *yang.Modules) string {
		var sb strings.Builder
		for _, q := range [][2]string{{"a", "/a:c/gl"}, {"a", "/a:c/gli/k"}, {"b", "/b:bc/gl"}, {"b", "/b:bc/gli/k"}, {"b", "/a:c/x"}, {"a", "/a:c/nosuch"}, {"a", "/a:op/input/oi"}} {
			n, err := yang.FindNode(ms.Modules[q[0]], q[1])
			if n != nil && !reflect.ValueOf(n).IsNil() {
				fmt.Fprintf(&sb, "%s=%s@%s ", q[1], yang.NodePath(n), yang.Source(n))
			} else {
				fmt.Fprintf(&sb, "%s=nil(%v) ", q[1], err)
			}
		}
		return sb.String()
	}},
	{"AST lookups", func(ms *yang.Modules) string {
		var sb strings.Builder
		a, b := ms.Modules["a"], ms.Modules["b"]
		for _, c := range a.Container {
			if g := yang.FindGrouping(c, "g", map[string]bool{}); g != nil {
				fmt.Fprintf(&sb, "g from %s=%s ", c.Name, yang.NodePath(g))
			}
			if ch := yang.ChildNode(c, "gl"); ch != nil && !reflect.ValueOf(ch).IsNil() {
				fmt.Fprintf(&sb, "child gl of %s=%s ", c.Name, yang.NodePath(ch))
			}
			fmt.Fprintf(&sb, "root=%s ", yang.RootNode(c).Name)
		}
		for _, c := range b.Container {
			if g := yang.FindGrouping(c, "a:g", map[string]bool{}); g != nil {
				fmt.Fprintf(&sb, "a:g from %s=%s ", c.Name, yang.NodePath(g))
			}
		}
		if m := yang.FindModuleByPrefix(b, "a"); m != nil {
			fmt.Fprintf(&sb, "b's a=%s ", m.Name)
		}
		for _, i := range b.Import {
			if m := ms.FindModule(i); m != nil {
				fmt.Fprintf(&sb, "import %s=%s ", i.Name, m.Name)
			}
		}
		x, err := yang.MatchingExtensions(a, "a", "nothing")
		fmt.Fprint(&sb, len(x), err, " ")
		yang.PrintNode(&sb, a.Container[0])
		a.Source.Write(&sb, " ")
		fmt.Fprint(&sb, entry(ms, "a").Modules() == ms)
		return sb.String()
	}},
}

// newSet loads and processes the schema and nothing else: no query is issued, so that namespace
// lookups made by the goroutines really are first-time (uncached) lookups.
func newSet() *yang.Modules {
	ms := yang.NewModules()
	for _, f := range schema("d") {
		if err := ms.Parse(f.Text, f.Name); err != nil {
			panic("C19 schema does not load: " + err.Error())
		}
	}
	if errs := ms.Process(); len(errs) > 0 {
		panic("C19 schema has errors: " + dump.Errors(errs))
	}
	return ms
}

// Scenario is one closed multi-goroutine program.
type Scenario struct {
	Kind    string  `json:"kind"`    // "readers" | "pipelines"
	Threads [][]int `json:"threads"` // readers: op indexes per thread; pipelines: ignored except for the count
}

type Input struct {
	Scenario Scenario `json:"scenario"`
	Prefix   []int    `json:"schedule"`
}

var seqCache = map[int]string{}

func sequential(i int) string {
	if v, ok := seqCache[i]; ok {
		return v
	}
	v := ops[i].f(newSet())
	seqCache[i] = v
	return v
}

var pipelineWant = map[int]string{}

// execute runs one schedule of a scenario; it returns the scheduler's decisions and the first
// disagreement with the sequential results.
func execute(sc Scenario, prefix []int) (trace, nen, run []int, problem string) {
	n := len(sc.Threads)
	results := make([][]string, n)
	var bodies []func()
	switch sc.Kind {
	case "readers":
		ms := newSet()
		for t := 0; t < n; t++ {
			t := t
			bodies = append(bodies, func() {
				for _, oi := range sc.Threads[t] {
					var r string
					if pan, pt := core.Guard(func() { r = ops[oi].f(ms) }); pan {
						r = "PANIC: " + pt
					}
					results[t] = append(results[t], r)
				}
			})
		}
	case "pipelines":
		for t := 0; t < n; t++ {
			t := t
			bodies = append(bodies, func() {
				var r string
				if pan, pt := core.Guard(func() { r = dump.Run(schemaFor(sc.Threads[t][0], fmt.Sprint("t", t)), dump.Options{Positions: true}).Summary() }); pan {
					r = "PANIC: " + pt
				}
				results[t] = append(results[t], r)
			})
		}
	}
	var deadlock bool
	before := len(core.RaceLog())
	trace, nen, run, deadlock = sched.Run(prefix, bodies)
	if deadlock {
		return trace, nen, run, "deadlock: no goroutine is enabled"
	}
	if log := core.RaceLog(); len(log) > before {
		return trace, nen, run, "data race reported on this schedule:\n" + log[before:]
	}
	for t := 0; t < n; t++ {
		switch sc.Kind {
		case "readers":
			for k, oi := range sc.Threads[t] {
				if want := sequential(oi); results[t][k] != want {
					return trace, nen, run, fmt.Sprintf("goroutine %d, %s: got %q, sequential run gives %q", t, ops[oi].name, results[t][k], want)
				}
			}
		case "pipelines":
			// the sequential reference is computed after the concurrent run: in a fresh process the
			// first execution then meets every lazily built package-level structure unbuilt
			wk := t + 100*sc.Threads[t][0]
			// the sets hold valid schemas (and texts they refuse): whatever the other sets do or
			// refuse, processing reports nothing
			if strings.Contains(results[t][0], "process errors:") || strings.HasPrefix(results[t][0], "PANIC:") {
				return trace, nen, run, fmt.Sprintf("pipeline %d over a valid schema reports errors:\n%s", t, results[t][0])
			}
			if _, ok := pipelineWant[wk]; !ok {
				var r string
				if pan, pt := core.Guard(func() { r = dump.Run(schemaFor(sc.Threads[t][0], fmt.Sprint("t", t)), dump.Options{Positions: true}).Summary() }); pan {
					r = "PANIC: " + pt
				}
				pipelineWant[wk] = r
			}
			if results[t][0] != pipelineWant[wk] {
				return trace, nen, run, fmt.Sprintf("pipeline %d differs from its sequential run:\n%s\n--- sequential:\n%s", t, results[t][0], pipelineWant[wk])
			}
		}
	}
	return trace, nen, run, ""
}

func scenarios(tier string) []Scenario {
	var out []Scenario
	n := len(ops)
	// three readers, one operation each: all multisets of operations
	quickOps := map[int]bool{}
	for i, o := range ops {
		switch o.name {
		case "ToEntry(a)", "Find(/a:c/b:y)", "Find(/va:c/va:x) from v", "Find(/p3:c3/p3:x) from v12", "InstantiatingModule(grafted y)", "InstantiatingModule(a:c/gl)",
			"FindModuleByNamespace(urn:a)", "FindModuleByNamespace(urn:none)", "ReadOnly+DefaultValues", "Print", "FindNode through uses":
			quickOps[i] = true
		}
	}
	for a := 0; a < n; a++ {
		for b := a; b < n; b++ {
			for d := b; d < n; d++ {
				if tier == "thorough" || (quickOps[a] && quickOps[b] && quickOps[d]) {
					out = append(out, Scenario{"readers", [][]int{{a}, {b}, {d}}})
				}
			}
		}
	}
	// two readers with two operations each: first-time lookups followed by cached ones
	for a := 0; a < n; a++ {
		for b := 0; b < n; b++ {
			if tier == "thorough" || (a+b)%3 == 0 {
				out = append(out, Scenario{"readers", [][]int{{a, b}, {b, a}}})
			}
		}
	}
	out = append(out, Scenario{"pipelines", [][]int{{0}, {0}}})
	// independent sets that share their module names only: a module with ten submodules (schemaIncludes)
	out = append(out, Scenario{"pipelines", [][]int{{1}, {1}}})
	// a set whose last loads are refused beside a set that loads cleanly, and two of the former
	out = append(out, Scenario{"pipelines", [][]int{{2}, {0}}})
	if tier == "thorough" {
		out = append(out, Scenario{"pipelines", [][]int{{2}, {2}}})
		out = append(out, Scenario{"pipelines", [][]int{{0}, {2}, {1}}})
		out = append(out, Scenario{"pipelines", [][]int{{1}, {1}, {1}}})
		out = append(out, Scenario{"pipelines", [][]int{{0}, {0}, {0}}})
	}
	return out
}

// bound picks the preemption bound from the number of scheduling points P of the scenario's
// default schedule: the number of schedules grows like (threads*P)^bound.
func bound(tier string, sc Scenario, points int) int {
	if tier == "thorough" {
		switch {
		case points <= 14:
			return 3
		case points <= 70:
			return 2
		}
		return 1
	}
	switch {
	case points <= 12:
		return 2
	case points <= 150:
		return 1
	}
	return 0
}

const perShard = 8

func coldRounds(tier string) int {
	if tier == "thorough" {
		return 48
	}
	return 12
}

// shards: every pipeline scenario and every cold round gets a worker process of its own, so that
// its first execution is the first use of the library in that process.
func shards(tier string) []string {
	all := scenarios(tier)
	var out []string
	// pipelines first: they are the longest
	out = append(out, "stress")
	n := 0
	for i, sc := range all {
		if sc.Kind == "pipelines" {
			out = append(out, fmt.Sprintf("p/%d", i))
		} else {
			n++
		}
	}
	for i := 0; i < coldRounds(tier); i++ {
		out = append(out, fmt.Sprintf("cold/%d", i))
	}
	for i := 0; i < (n+perShard-1)/perShard; i++ {
		out = append(out, fmt.Sprintf("s/%d", i))
	}
	return out
}

func run(c *core.Ctx) {
	if !sched.Active() {
		panic("C19 needs the worker built against the instrumented copy (variant sched)")
	}
	c.Res.Bound = "readers: 3 goroutines x 1 operation (all multisets of 10 (thorough 15) reader operations) and 2 goroutines x 2 operations, pipelines: 2 (thorough also 3) goroutines each loading and processing its own 2-module set; preemption bound per scenario by its number P of scheduling points: quick 2 (P<=12), 1 (P<=150), 0 beyond; thorough 3 (P<=14), 2 (P<=70), 1 beyond - the histogram says how many scenarios reached which bound; every schedule runs under the race detector; free-running: 60 (600) warm stress rounds of 8 goroutines and 12 (48) cold rounds, each in a fresh process whose first use of the library is 4-8 parallel pipelines over a schema with every kind of node, type and statement"
	if c.Shard == "stress" {
		stress(c)
		return
	}
	if strings.HasPrefix(c.Shard, "cold/") {
		cold(c)
		return
	}
	all := scenarios(c.Tier)
	var si int
	lo, hi := 0, 0
	if _, err := fmt.Sscanf(c.Shard, "p/%d", &si); err == nil {
		lo, hi = si, si+1
	} else {
		fmt.Sscanf(c.Shard, "s/%d", &si)
		lo, hi = si*perShard, (si+1)*perShard // readers come first in the list
	}
	for k := lo; k < hi && k < len(all); k++ {
		sc := all[k]
		if sc.Kind == "pipelines" && !strings.HasPrefix(c.Shard, "p/") {
			continue
		}
		t0, _, _, _ := execute(sc, nil)
		b := bound(c.Tier, sc, len(t0))
		if sc.Kind == "pipelines" {
			if sc.Threads[0][0] == 1 && b == 0 {
				b = 1 // the small independent sets: every single preemption, whatever their length
			}
			c.Note("pipelines over schema %d, %d goroutines: %d scheduling points in the default schedule, preemption bound %d", sc.Threads[0][0], len(sc.Threads), len(t0), b)
		}
		c.OutcomeN(fmt.Sprintf("scenarios-explored-to-preemption-bound-%d", b), 1)
		outcomes := map[string]bool{}
		var rec func(prefix []int, preempt int)
		rec = func(prefix []int, preempt int) {
			if c.Expired() {
				return
			}
			caseNo, ok := c.Begin()
			in := Input{Scenario: sc, Prefix: prefix}
			if !ok && caseNo < c.Resume {
				return
			}
			c.Exec()
			c.StateN(1)
			if !ok {
				c.Outcome("FAIL:" + c.Fatal(caseNo))
				c.Fail(caseNo, nil, c.Fatal(caseNo), in, "no race report, no fatal error", "the worker died on this schedule (see the driver's log)")
				return
			}
			trace, nen, run, problem := execute(sc, prefix)
			c.Validate()
			c.Edge(int64(len(trace)))
			outcomes[fmt.Sprint(trace)] = true
			if problem != "" {
				fp := fingerprint(problem)
				c.Outcome("FAIL:" + fp)
				c.Fail(caseNo, nil, fp, in, "the sequential result", problem)
				if fp == "deadlock" {
					return
				}
			} else {
				c.Outcome("equals-sequential")
			}
			if len(trace) < len(prefix) {
				panic(fmt.Sprintf("replay divergence: schedule ended after %d points, prefix has %d", len(trace), len(prefix)))
			}
			for i := len(prefix); i < len(trace); i++ {
				cost := 0
				if run[i] == 1 {
					cost = 1
				}
				if preempt+cost > b {
					continue
				}
				for alt := 1; alt < nen[i]; alt++ {
					p := append(append([]int{}, trace[:i]...), alt)
					rec(p, preempt+cost)
				}
			}
		}
		rec(nil, 0)
		if len(outcomes) > 1 {
			c.NontrivialN(1)
		}
		if k%97 == 5 || sc.Kind == "pipelines" {
			var names [][]string
			for _, th := range sc.Threads {
				var ns []string
				for _, oi := range th {
					if sc.Kind == "readers" {
						ns = append(ns, ops[oi].name)
					} else {
						ns = append(ns, "NewModules;Parse x2;Process;ToEntry;dump")
					}
				}
				names = append(names, ns)
			}
			b, _ := json.Marshal(map[string]any{"kind": sc.Kind, "goroutines": names, "schedules_explored": len(outcomes)})
			c.Sample(string(b))
		}
	}
}

// stress is the free-running cross-check: the same operations and pipelines on real goroutines
// without the scheduler (the shim passes lock operations through), under the race detector.
func stress(c *core.Ctx) {
	rounds := 60
	if c.Tier == "thorough" {
		rounds = 600
	}
	for r := 0; r < rounds && !c.Expired(); r++ {
		caseNo, run := c.Begin()
		if c.Skip(caseNo, run, Input{Scenario: Scenario{Kind: "stress"}, Prefix: []int{r}}) {
			continue
		}
		problem := stressRound(r)
		c.Exec()
		c.Validate()
		c.Edge(stressG)
		c.StateN(1)
		if problem != "" {
			c.Outcome("FAIL:stress")
			c.Fail(caseNo, nil, "stress:"+fingerprint(problem), Input{Scenario: Scenario{Kind: "stress"}, Prefix: []int{r}}, "sequential results, no race", problem)
		} else {
			c.Outcome("stress-round-clean")
		}
	}
}

const stressG = 8

// wide touches every kind of node, type and statement the library converts, so that whatever it
// builds lazily per kind is first built here.
// posixTypes: 140 string types with openconfig posix-pattern extension statements of 50 to 70 bytes
// each (more distinct long patterns than a table of 128 holds), a few of them shared by several leaves
var posixTypes = func() string {
	var sb strings.Builder
	for i := 0; i < 140; i++ {
		fmt.Fprintf(&sb, ` leaf px%d { type string { oc:posix-pattern "^[a-z]{%d}(abcdefghijklmnopqrstuvwxyz0123456789){1,%d}[0-9]*$"; pattern "[a-z]{%d}.*"; } }`, i, i+1, i%7+1, i+1)
	}
	sb.WriteString(` typedef shared { type string { oc:posix-pattern "^(the-same-long-posix-pattern-of-more-than-48-bytes-[a-z0-9]+)$"; } } leaf ps1 { type shared; } leaf ps2 { type shared; } leaf ps3 { type shared { oc:posix-pattern "^(the-same-long-posix-pattern-of-more-than-48-bytes-[a-z0-9]+)$"; } }`)
	return sb.String()
}()

// unicodeLeaves: arguments outside ASCII (two-, three- and four-byte characters, combining marks)
// in double-quoted, single-quoted and unquoted form, in every place the dump shows: units, defaults,
// patterns, enum names, must expressions, extension arguments.
var unicodeLeaves = func() string {
	var sb strings.Builder
	for i := 0; i < 24; i++ {
		fmt.Fprintf(&sb, ` leaf n%d { type string { pattern "[α-ω]{%d}é*"; length "1..%d"; } units "µs·%d°"; default "ñ%dö😀日本é"; description "Größe – 温度 № %d"; must ". != 'ß%d'"; }`, i, i+1, i+40, i, i, i, i)
		fmt.Fprintf(&sb, ` leaf e%d { type enumeration { enum "秒%d"; enum µ%d { value %d; } enum 'Ω %d'; } units °C; }`, i, i, i, i+7, i)
	}
	return sb.String()
}()

func wide(tag string) []dump.File {
	return []dump.File{
		{Name: "u8.yang", Text: `module u8 { yang-version 1.1; ` + H("u8") + ` organization "Ünïcödé Ŧeam 組織"; contact "Björklund <mb@example.com> 😀"; description "` + tag + ` – ` + tag + `";` + unicodeLeaves + ` leaf tag { type string; default "é` + tag + `ü"; units "` + tag + `µ"; } }`},
		{Name: "oc.yang", Text: `module openconfig-extensions { yang-version 1.1; namespace "urn:oc"; prefix oc; extension posix-pattern { argument pattern; } }`},
		{Name: "pp.yang", Text: `module pp { yang-version 1.1; ` + H("pp") + ` import openconfig-extensions { prefix oc; }` + posixTypes + ` leaf tag { type string; default "` + tag + `"; } }`},
		{Name: "w.yang", Text: `module w { yang-version 1.1; ` + H("w") + ` include ws; import x { prefix x; } revision 2020-01-01; extension ext { argument a; } feature f;
 typedef t { type int8 { range "1..9"; } default 3; units u; } typedef u { type union { type t; type string { length "1..4"; pattern "a.*"; } type enumeration { enum one; enum two { value 5; } } type bits { bit b0; bit b7 { position 7; } } } }
 typedef d { type decimal64 { fraction-digits 2; range "1.5..2.5"; } } identity base; identity d1 { base base; } identity d2 { base d1; base x:xb; }
 grouping g { leaf gl { type t; must "1 = 1"; w:ext "` + tag + `"; } list gli { key k; unique v; leaf k { type string; } leaf v { type u; } min-elements 1; max-elements 9; ordered-by user; } leaf-list gll { type d; default 1.5; default 2.5; } }
 container c { presence p; uses g; leaf x { type string; default "` + tag + `"; if-feature f; } choice ch { default s; leaf s { type string; } case k { leaf kk { type leafref { path "../x"; } } anydata ad; anyxml ax; } } action act { input { leaf ai { type t; } } output { leaf ao { type identityref { base base; } } } } notification cn { leaf cnl { type empty; } } }
 leaf r { type identityref { base base; } } leaf ii { type instance-identifier { require-instance false; } } leaf bo { type boolean; mandatory true; } leaf bi { type binary { length "2..4"; } } leaf p8 { type int8; } leaf mm { type int16 { range "min..5 | 7..max"; } } leaf mu { type uint32 { range "1..max"; } } leaf ml { type string { length "min..9 | 11..max"; } } leaf md { type decimal64 { fraction-digits 3; range "min..0 | 1.5..max"; } }
 rpc op { input { leaf oi { type t; } } output { uses g; } } notification n { uses g; }
 augment /w:c { when "x = 1"; leaf wy { type t; } } deviation /w:c/w:x { deviate add { units uu; } } deviation /w:ii { deviate not-supported; } deviation /w:c/w:gli { deviate replace { max-elements 5; } }
}`},
		{Name: "ws.yang", Text: `submodule ws { yang-version 1.1; belongs-to w { prefix w; } container sc { leaf sl { type w:t; } } identity sub { base w:base; } }`},
		{Name: "x.yang", Text: `module x { yang-version 1.1; ` + H("x") + ` import w { prefix w; } identity xb; augment /w:c/w:ch { container xz { uses w:g; } } augment /w:op/w:input { leaf xi { type w:u; } } container xc { config false; uses w:g; } }`},
	}
}

// cold is one round on a fresh process: the first thing the library is asked to do is to run G
// independent pipelines in parallel (free-running, under the race detector); only afterwards are
// the sequential references computed. Package-level structures that the library builds on first use
// are thus built under contention, which no later round of the process can reproduce.
func cold(c *core.Ctx) {
	var k int
	fmt.Sscanf(c.Shard, "cold/%d", &k)
	caseNo, run := c.Begin()
	in := Input{Scenario: Scenario{Kind: "cold"}, Prefix: []int{k}}
	if c.Skip(caseNo, run, in) {
		return
	}
	problem := coldRound(k)
	c.Exec()
	c.Validate()
	c.Edge(int64(4 + k%5))
	c.StateN(1)
	c.NontrivialN(1)
	if problem != "" {
		c.Outcome("FAIL:cold")
		c.Fail(caseNo, nil, "cold:"+fingerprint(problem), in, "sequential results, no race", problem)
	} else {
		c.Outcome("cold-round-clean")
	}
}

var coldDone bool

func coldRound(k int) string {
	if coldDone {
		return "" // only the first round of a process is cold
	}
	coldDone = true
	runtime.GOMAXPROCS(8)
	G := 4 + k%5
	before := len(core.RaceLog())
	files := func(g int) []dump.File {
		if (g+k)%2 == 0 {
			return wide(fmt.Sprint("t", g))
		}
		return schema(fmt.Sprint("t", g))
	}
	results := make([]string, G)
	start := make(chan struct{})
	var wg sync.WaitGroup
	for g := 0; g < G; g++ {
		g := g
		wg.Add(1)
		go func() {
			defer wg.Done()
			<-start
			if pan, pt := core.Guard(func() { results[g] = dump.Run(files(g), dump.Options{Positions: true}).Summary() }); pan {
				results[g] = "PANIC: " + pt
			}
		}()
	}
	close(start)
	wg.Wait()
	problem := ""
	for g := 0; g < G; g++ {
		if want := dump.Run(files(g), dump.Options{Positions: true}).Summary(); results[g] != want {
			problem = fmt.Sprintf("cold pipeline %d differs from its sequential run:\n%s\n--- sequential:\n%s", g, results[g], want)
		}
		if strings.HasPrefix(results[g], "process errors") || strings.HasPrefix(results[g], "load[") {
			problem = "cold pipeline schema does not process: " + results[g]
		}
	}
	if log := core.RaceLog(); len(log) > before {
		problem = "data race reported in the cold round:\n" + log[before:]
	}
	return problem
}

func stressRound(r int) string {
	// Real parallelism: the scheduler-driven exploration serialises goroutines, and incidental
	// synchronisation in the Go runtime and standard library (sync.Pool reuse inside fmt, for one)
	// then orders their accesses and hides races between code that runs far apart; on several Ps
	// the pools are per-P and the detector sees the accesses unordered.
	runtime.GOMAXPROCS(8)
	before := len(core.RaceLog())
	ms := newSet()
	results := make([]string, stressG)
	picked := make([]int, stressG)
	want := make([]string, stressG)
	for g := 0; g < stressG/2; g++ { // sequential references of the pipelines, computed up front
		if _, ok := pipelineWant[g]; !ok {
			pipelineWant[g] = dump.Run(schema(fmt.Sprint("t", g)), dump.Options{Positions: true}).Summary()
		}
		want[g] = pipelineWant[g]
	}
	start := make(chan struct{})
	var wg sync.WaitGroup
	for g := 0; g < stressG; g++ {
		g := g
		picked[g] = (g*7 + r*3) % len(ops)
		if r%2 == 1 {
			picked[g] = ((g/2)*7 + r*3) % len(ops) // odd rounds: two goroutines at a time run the same operation
		}
		wg.Add(1)
		go func() {
			defer wg.Done()
			<-start
			if g < stressG/2 { // independent pipelines, each on its own module set
				if pan, pt := core.Guard(func() { results[g] = dump.Run(schema(fmt.Sprint("t", g)), dump.Options{Positions: true}).Summary() }); pan {
					results[g] = "PANIC: " + pt
				}
				return
			}
			if pan, pt := core.Guard(func() { results[g] = ops[picked[g]].f(ms) }); pan {
				results[g] = "PANIC: " + pt
			}
		}()
	}
	close(start)
	wg.Wait()
	problem := ""
	for g := 0; g < stressG; g++ {
		if g < stressG/2 {
			if results[g] != want[g] {
				problem = fmt.Sprintf("free-running pipeline %d differs from its sequential run:\n%s\n--- sequential:\n%s", g, results[g], want[g])
			}
			continue
		}
		if w := sequential(picked[g]); results[g] != w {
			problem = fmt.Sprintf("free-running goroutine %d, %s: got %q, sequential run gives %q", g, ops[picked[g]].name, results[g], w)
		}
	}
	if log := core.RaceLog(); len(log) > before {
		problem = "data race reported in the free-running stress:\n" + log[before:]
	}
	return problem
}

func replay(tier string, raw json.RawMessage) (bool, string, string) {
	var in Input
	if err := json.Unmarshal(raw, &in); err != nil {
		return false, "", err.Error()
	}
	if !sched.Active() {
		return false, "", "needs the sched variant"
	}
	if in.Scenario.Kind == "cold" {
		if p := coldRound(in.Prefix[0]); p != "" {
			return true, "cold:" + fingerprint(p), p
		}
		return false, "", "cold round clean"
	}
	if in.Scenario.Kind == "stress" {
		// not a schedule: re-run the rounds up to the recorded one, ten times over
		for k := 0; k < 10; k++ {
			for r := 0; r <= in.Prefix[0]; r++ {
				if p := stressRound(r); p != "" {
					return true, "stress:" + fingerprint(p), p
				}
			}
		}
		return false, "", "stress rounds clean"
	}
	_, _, _, problem := execute(in.Scenario, in.Prefix)
	if problem == "" {
		return false, "", "equals the sequential results, no race reported"
	}
	return true, fingerprint(problem), problem
}

func fingerprint(problem string) string {
	switch {
	case strings.HasPrefix(problem, "deadlock"):
		return "deadlock"
	case strings.HasPrefix(problem, "data race"):
		return "data-race"
	case strings.Contains(problem, "over a valid schema reports errors"):
		return "valid-set-reports-errors-beside-another-set"
	}
	return "result-differs-from-sequential"
}

func init() {
	core.Register(&core.Prop{
		ID: "C19", Variant: "sched", NoResume: true, Shards: shards, Run: run, Replay: replay,
		Rule:        "closed programs of 2-3 goroutines over the real library with its sync import redirected to a cooperative-scheduler shim (every lock operation is a scheduling point, a blocked acquire is disabled, no enabled goroutine = deadlock): (readers) one processed 2-module set shared by goroutines issuing reader operations - ToEntry cache hits, Find of grafted and deep nodes, Namespace, first-time and repeated InstantiatingModule / FindModuleByNamespace for the same, different and unknown namespaces, ReadOnly, DefaultValues, GetErrors, Print, full dump - in all multisets of three operations and in 2x2 sequences; (pipelines) goroutines each loading, processing and dumping their own module set, each pipeline scenario in a worker process of its own with the sequential reference computed afterwards; (cold rounds, free-running) fresh processes whose first use of the library is several parallel pipelines over a schema that touches every kind of node, type and statement, so that package-level structures built on first use are built under contention. Every schedule within the preemption bound is executed under Go's race detector, whose view is not disturbed by the scheduler (hand-offs are raw syscalls in norace code); each goroutine's results must equal the sequential results. states = schedules executed; transitions = scheduling decisions; non-trivial = scenarios with more than one distinct schedule",
		Assumptions: []string{"scheduling points are lock operations; unsynchronised accesses between them are left to the race detector, which reports conflicting accesses not ordered by the library's own synchronisation in any explored schedule", "memory-model reorderings between two non-synchronising instructions are not permuted"},
	})
}
