// Package c17 decides C17: schema path lookup finds exactly the node the path names. On every
// clean tree of the schema-family corpus, for all (start node, target node) pairs: the absolute
// path spelled with the prefixes of the module that defines the start node, the relative path via
// ".." to the lowest common ancestor, and every such path with one step replaced by a name that
// names no child there. Oracle: pointer identity with the walked tree; nil for a bogus step.
package c17

import (
	"encoding/json"
	"fmt"
	"github.com/openconfig/goyang/pkg/yangentry"
	"os"
	"path/filepath"
	"sort"
	"strings"

	"github.com/openconfig/goyang/pkg/yang"
	"verif/mc/core"
	"verif/mc/dump"
	"verif/mc/gen/corpus"
)

type Input struct {
	Family string      `json:"family"`
	Desc   string      `json:"desc"`
	Files  []dump.File `json:"files"`
}

type fail struct{ fp, exp, obs string }

type step struct {
	name string
	mod  string // module whose namespace the node has
}

type node struct {
	e     *yang.Entry
	tree  string // module at the root of the tree
	mod   *yang.Module
	steps []step
	up    []*yang.Entry // ancestors, root first (excluding the module entry)
}

func nsModule(ms *yang.Modules, e *yang.Entry) (mod string) {
	defer func() {
		if recover() != nil {
			mod = ""
		}
	}()
	m, err := e.InstantiatingModule()
	if err != nil {
		return ""
	}
	return m
}

// rootOverride: module name -> tree, when the trees walked are those returned by yangentry.Parse.
var rootOverride map[string]*yang.Entry

func collect(ms *yang.Modules) []*node {
	var out []*node
	done := map[*yang.Module]bool{}
	var names []string
	for n := range ms.Modules {
		names = append(names, n)
	}
	sort.Strings(names)
	for _, n := range names {
		m := ms.Modules[n]
		if done[m] {
			continue
		}
		done[m] = true
		root := yang.ToEntry(m)
		if r := rootOverride[m.Name]; r != nil {
			root = r // the trees as another entry point handed them out
		}
		var walk func(e *yang.Entry, steps []step, up []*yang.Entry)
		walk = func(e *yang.Entry, steps []step, up []*yang.Entry) {
			var ks []string
			for k := range e.Dir {
				ks = append(ks, k)
			}
			sort.Strings(ks)
			kids := map[string]*yang.Entry{}
			for _, k := range ks {
				kids[k] = e.Dir[k]
			}
			if e.RPC != nil {
				if e.RPC.Input != nil {
					kids["input"] = e.RPC.Input
					ks = append(ks, "input")
				}
				if e.RPC.Output != nil {
					kids["output"] = e.RPC.Output
					ks = append(ks, "output")
				}
			}
			for _, k := range ks {
				c := kids[k]
				st := append(append([]step{}, steps...), step{k, nsModule(ms, c)})
				nu := append(append([]*yang.Entry{}, up...), c)
				out = append(out, &node{e: c, tree: m.Name, mod: m, steps: st, up: nu})
				walk(c, st, nu)
			}
		}
		walk(root, nil, nil)
	}
	return out
}

// defRoot is the module or submodule whose text the start node stands in. An implied case is not
// written anywhere: it stands where the shorthand member it wraps is written (taken from the
// member, not from the parent the library gave the case it made up).
func defRoot(start *yang.Entry) *yang.Module {
	if start.Kind == yang.CaseEntry && start.Node != nil && start.Node.Statement() != nil && start.Node.Statement().Keyword != "case" {
		if m := start.Dir[start.Name]; m != nil && m.Node != nil {
			return yang.RootNode(m.Node)
		}
	}
	return yang.RootNode(start.Node)
}

// denotes: the module that defines the start node means the target's tree (and not another revision
// of the same module) by the prefix prefixesOf gives: itself under its own prefix; under an import
// prefix the revision the import pins with revision-date, else the one registered under the bare
// name.
func denotes(ms *yang.Modules, start *yang.Entry, t *node) bool {
	root := defRoot(start)
	if root.BelongsTo != nil && root.BelongsTo.Name == t.tree {
		return ms.Modules[t.tree] == t.mod
	}
	if root.BelongsTo == nil && root.Name == t.tree {
		return root == t.mod
	}
	for _, im := range root.Import {
		if im.Name == t.tree {
			key := im.Name
			if im.RevisionDate != nil {
				key += "@" + im.RevisionDate.Name
			}
			return ms.Modules[key] == t.mod
		}
	}
	return false
}

// prefixes available in the module that defines the start node: module name -> prefix.
func prefixesOf(start *yang.Entry) map[string]string {
	out := map[string]string{}
	if start.Node == nil {
		return nil
	}
	root := defRoot(start)
	if root == nil {
		return nil
	}
	own := root.Name
	if root.BelongsTo != nil {
		own = root.BelongsTo.Name
	}
	out[own] = root.GetPrefix()
	for _, im := range root.Import {
		if im.Prefix != nil {
			if _, dup := out[im.Name]; !dup {
				out[im.Name] = im.Prefix.Name
			}
		}
	}
	return out
}

// beat tells the watchdog that a long case is alive (set by run): a big set is millions of lookups,
// each of which returns; only a lookup that does not return is a hang.
var beat func()

func lookups(ms *yang.Modules, countOnly func(n int)) *fail {
	nodes := collect(ms)
	total := 0
	for _, s := range nodes {
		if beat != nil {
			beat()
		}
		pf := prefixesOf(s.e)
		for _, t := range nodes {
			// absolute, with the prefixes of the start node's defining module
			if pf != nil {
				ok := true
				var parts []string
				for i, st := range t.steps {
					mod := st.mod
					if i == 0 {
						mod = t.tree
					}
					p, have := pf[mod]
					if !have || mod == "" {
						ok = false
						break
					}
					parts = append(parts, p+":"+st.name)
				}
				if ok && denotes(ms, s.e, t) {
					path := "/" + strings.Join(parts, "/")
					total++
					if got := s.e.Find(path); got != t.e {
						return &fail{"absolute-lookup-wrong", fmt.Sprintf("Find(%q) from %s = the node %s", path, s.e.Path(), t.e.Path()), describe(got)}
					}
					// one bogus step at every position
					for i := range parts {
						bp := append([]string{}, parts...)
						pfx, _, _ := strings.Cut(bp[i], ":")
						bp[i] = pfx + ":nosuch"
						bpath := "/" + strings.Join(bp, "/")
						total++
						if got := s.e.Find(bpath); got != nil {
							return &fail{"bogus-step-found-something", fmt.Sprintf("Find(%q) from %s = nil", bpath, s.e.Path()), describe(got)}
						}
					}
				}
			}
			// relative, inside one tree
			if s.mod == t.mod {
				common := 0
				for common < len(s.up) && common < len(t.up) && s.up[common] == t.up[common] {
					common++
				}
				var parts []string
				for i := common; i < len(s.up); i++ {
					parts = append(parts, "..")
				}
				for i := common; i < len(t.steps); i++ {
					parts = append(parts, t.steps[i].name)
				}
				if len(parts) == 0 {
					parts = []string{"."}
				}
				path := strings.Join(parts, "/")
				total++
				if got := s.e.Find(path); got != t.e {
					return &fail{"relative-lookup-wrong", fmt.Sprintf("Find(%q) from %s = the node %s", path, s.e.Path(), t.e.Path()), describe(got)}
				}
				// a bogus step at every downward position
				for i, p := range parts {
					if p == ".." || p == "." {
						continue
					}
					bp := append([]string{}, parts...)
					bp[i] = "nosuch"
					total++
					if got := s.e.Find(strings.Join(bp, "/")); got != nil {
						return &fail{"bogus-step-found-something", fmt.Sprintf("Find(%q) from %s = nil", strings.Join(bp, "/"), s.e.Path()), describe(got)}
					}
				}
			}
		}
	}
	countOnly(total)
	return nil
}

func describe(e *yang.Entry) string {
	if e == nil {
		return "nil"
	}
	return "the node " + e.Path()
}

// viaYangentry: the same set read from files by yangentry.Parse, the lookups made from and judged
// against the trees that call returns (sets with several revisions of one module are left out:
// the call returns one tree per name).
func viaYangentry(files []dump.File, count func(int)) *fail {
	dir, err := os.MkdirTemp("..", "c17-")
	if err != nil {
		panic(err)
	}
	defer os.RemoveAll(dir)
	dir, _ = filepath.Abs(dir)
	var paths []string
	for _, x := range files {
		p := filepath.Join(dir, x.Name)
		if err := os.WriteFile(p, []byte(x.Text), 0o644); err != nil {
			panic(err)
		}
		paths = append(paths, p)
	}
	entries, errs := yangentry.Parse(paths, nil)
	if len(errs) > 0 || len(entries) == 0 {
		return nil
	}
	var ms *yang.Modules
	for _, e := range entries {
		ms = e.Modules()
	}
	for k := range ms.Modules {
		if strings.Contains(k, "@") {
			return nil
		}
	}
	rootOverride = entries
	defer func() { rootOverride = nil }()
	if f := lookups(ms, count); f != nil {
		f.fp += ":trees-from-yangentry.Parse"
		return f
	}
	return nil
}

// removed: a node that a deviation declares not supported is no longer in the tree, so its path - and
// the paths of what stood below it - name nothing, from whichever node and in whichever module's
// spelling they are looked up (also the spelling an augment of that node used before the deviation
// took it away). The removed nodes are the ones a second set, processed with the option that keeps
// such targets, has and this set lacks. Sets that hold two revisions of one module are left out: there
// a spelling may mean the tree of the other revision.
func removed(ms *yang.Modules, files []dump.File, count func(int)) *fail {
	any := false
	for _, x := range files {
		any = any || strings.Contains(x.Text, "not-supported")
	}
	if !any {
		return nil
	}
	byName := map[string]*yang.Module{}
	for _, m := range ms.Modules {
		if o := byName[m.Name]; o != nil && o != m {
			return nil
		}
		byName[m.Name] = m
	}
	keep := yang.NewModules()
	keep.ParseOptions.DeviateOptions.IgnoreDeviateNotSupported = true
	for _, x := range files {
		if err := keep.Parse(x.Text, x.Name); err != nil {
			return nil
		}
	}
	if errs := keep.Process(); len(errs) > 0 {
		return nil
	}
	// the set that keeps the targets is a set like any other: every lookup between its nodes - from
	// and to the retained ones too - finds the node the path names
	if f := lookups(keep, count); f != nil {
		f.fp += ":targets-of-not-supported-retained"
		return f
	}
	key := func(n *node) string {
		k := n.tree
		for _, st := range n.steps {
			k += "/" + st.name
		}
		return k
	}
	have := map[string]bool{}
	nodes := collect(ms)
	for _, n := range nodes {
		have[key(n)] = true
	}
	total := 0
	defer func() { count(total) }()
	for _, t := range collect(keep) {
		if have[key(t)] {
			continue
		}
		if pr := t.e.Parent; pr != nil && pr.RPC != nil && (t.e == pr.RPC.Input || t.e == pr.RPC.Output) {
			// the input and output of an rpc or action exist whether written or not: a lookup
			// makes an empty one, by design; what stood below stays removed
			continue
		}
		for _, s := range nodes {
			pf := prefixesOf(s.e)
			if pf == nil {
				continue
			}
			ok := true
			var parts []string
			for i, st := range t.steps {
				mod := st.mod
				if i == 0 {
					mod = t.tree
				}
				p, have := pf[mod]
				if !have || mod == "" {
					ok = false
					break
				}
				parts = append(parts, p+":"+st.name)
			}
			if !ok {
				continue
			}
			path := "/" + strings.Join(parts, "/")
			total++
			if got := s.e.Find(path); got != nil {
				return &fail{"lookup-finds-a-node-that-a-deviation-removed", fmt.Sprintf("Find(%q) from %s = nil: a deviation declared the node (or one above it) not supported", path, s.e.Path()), describe(got)}
			}
		}
	}
	return nil
}

func check(files []dump.File, count func(int)) (f *fail, clean bool) {
	pan, pt := core.Guard(func() {
		ms := yang.NewModules()
		for _, x := range files {
			if err := ms.Parse(x.Text, x.Name); err != nil {
				return
			}
		}
		if errs := ms.Process(); len(errs) > 0 {
			return
		}
		clean = true
		f = lookups(ms, count)
		if f == nil {
			f = removed(ms, files, count)
		}
		if f == nil && len(files) > 1 {
			f = viaYangentry(files, count)
		}
	})
	if pan {
		return &fail{"panic@" + core.LastPanicSite, "no panic", pt}, clean
	}
	return f, clean
}

const nShards = 32

func shards(tier string) []string {
	var out []string
	for i := 0; i < nShards; i++ {
		out = append(out, fmt.Sprintf("corpus/%d", i))
	}
	return out
}

func run(c *core.Ctx) {
	var shard int
	fmt.Sscanf(c.Shard, "corpus/%d", &shard)
	stride := 5
	if c.Tier == "thorough" {
		stride = 1
	}
	c.Res.Bound = fmt.Sprintf("every %d-th program of the USES, AUG and CFG families and the whole conflict library; on each clean set all (start, target) node pairs over all module trees: absolute spelling with the start's defining module's prefixes, relative spelling through the lowest common ancestor, one bogus step at every position of both", stride)
	n := 0
	corpus.Each(c.Tier, shard, nShards, stride, func(s corpus.Set) {
		if c.Expired() {
			return
		}
		caseNo, run := c.Begin()
		in := Input{s.Family, s.Desc, s.Files}
		if c.Skip(caseNo, run, in) {
			return
		}
		c.Exec()
		c.StateN(1)
		beat = c.Beat
		f, clean := check(s.Files, func(k int) { c.Edge(int64(k)); c.Validates(int64(k)) })
		if !clean && f == nil {
			c.Exclude()
			c.Outcome("not-clean:outside-the-quantifier")
			return
		}
		c.NontrivialN(1)
		n++
		if f != nil {
			c.Outcome("FAIL:" + f.fp)
			c.Fail(caseNo, nil, f.fp, in, f.exp, f.obs)
			return
		}
		c.Outcome("all-lookups-right:" + s.Family)
		if n%300 == 5 {
			b, _ := json.Marshal(in)
			c.Sample(string(b))
		}
	})
}

func replay(tier string, raw json.RawMessage) (bool, string, string) {
	var in Input
	if err := json.Unmarshal(raw, &in); err != nil {
		return false, "", err.Error()
	}
	f, _ := check(in.Files, func(int) {})
	if f == nil {
		return false, "", "every lookup returned the named node"
	}
	return true, f.fp, fmt.Sprintf("expected %s\nobserved %s", f.exp, f.obs)
}

func init() {
	core.Register(&core.Prop{
		ID: "C17", Variant: "plain", Shards: shards, Run: run, Replay: replay,
		Rule:        "on every module set of the corpus that processes without error, the nodes of all module trees are collected by a walk over Dir and RPC.Input/Output (grafted nodes, copies from groupings, implicit cases, rpc/action input and output written and unwritten); for every ordered pair (start, target): Find of the absolute path whose steps carry the prefixes under which the module that defines the start node knows each step's namespace module (pairs needing a prefix that module does not import are outside the quantifier; when several revisions of a module are loaded, the prefix means the module itself, or the revision the import pins or else the one registered under the bare name), Find of the relative path ('..' to the lowest common ancestor, then names) when both lie in one tree, and each of those paths with one step replaced by a name that names no child - must return the target by pointer identity, respectively nil. states = module sets; transitions = lookups performed",
		Assumptions: []string{"only the first step's prefix selects a tree in the library; later prefixes are spelled as the RFC requires but not distinguished by it"},
	})
}
