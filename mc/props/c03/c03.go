// Package c03 decides C03: the AST mirrors the statement tree one-to-one or the build fails.
// Reachability over contexts: starting from module and submodule, every keyword is tried as a child
// of every discovered context chain in a dozen shapes (multiplicity, interleaving, extension
// statements, missing argument, omitted mandatory substatements); the oracle is a reflection walk
// that demands a bijection between source statements and AST nodes, or an error.
package c03

import (
	"encoding/json"
	"fmt"
	"reflect"
	"strings"

	"github.com/openconfig/goyang/pkg/yang"
	"verif/mc/core"
	"verif/mc/gen/scale"
)

// K is the keyword alphabet: the RFC 7950 keywords, the builder's meta names, an unknown word and a
// prefixed (extension) keyword.
var K = strings.Fields(`action anydata anyxml argument augment base belongs-to bit case choice config contact container default description deviate deviation enum error-app-tag error-message extension feature fraction-digits grouping identity if-feature import include input key leaf leaf-list length list mandatory max-elements min-elements modifier module must namespace notification ordered-by organization output path pattern position prefix presence range reference refine require-instance revision revision-date rpc status submodule type typedef unique units uses value when yang-version yin-element Name Statement Parent Ext bogus p:ext p:e:f`)

// mandatory substatements per RFC 7950 (cardinality 1 rows), as (keyword, text) pairs
var need = map[string][][2]string{
	"module":     {{"namespace", `namespace "urn:m";`}, {"prefix", `prefix m;`}},
	"submodule":  {{"belongs-to", `belongs-to m { prefix m; }`}},
	"import":     {{"prefix", `prefix i;`}},
	"belongs-to": {{"prefix", `prefix m;`}},
	"leaf":       {{"type", `type string;`}},
	"leaf-list":  {{"type", `type string;`}},
	"typedef":    {{"type", `type string;`}},
	"deviation":  {{"deviate", `deviate add;`}},
}

func needText(k string, omit int) string { // omit: bitmask of mandatory substatements left out
	var parts []string
	for i, n := range need[k] {
		if omit&(1<<i) == 0 {
			parts = append(parts, n[1])
		}
	}
	return strings.Join(parts, " ")
}

type Input struct {
	Text       string `json:"text"`
	MustError  bool   `json:"must_error"`
	MustAccept bool   `json:"must_accept,omitempty"`
	Why        string `json:"why,omitempty"`
}

var nodeT = reflect.TypeOf((*yang.Node)(nil)).Elem()

type walker struct {
	seen     map[*yang.Statement]int
	problems []string
	visited  map[yang.Node]bool
}

func (w *walker) problem(f string, a ...any) {
	if len(w.problems) < 5 {
		w.problems = append(w.problems, fmt.Sprintf(f, a...))
	}
}

func idxIn(parent *yang.Statement, s *yang.Statement) int {
	for i, c := range parent.SubStatements() {
		if c == s {
			return i
		}
	}
	return -1
}

func (w *walker) collect(n yang.Node, parent yang.Node) {
	if n == nil || reflect.ValueOf(n).IsNil() || w.visited[n] {
		return
	}
	w.visited[n] = true
	st := n.Statement()
	if st == nil {
		w.problem("node %T %q has no statement", n, n.NName())
		return
	}
	w.seen[st]++
	if n.NName() != st.Argument {
		w.problem("name %q != argument %q (%s)", n.NName(), st.Argument, st.Keyword)
	}
	if parent != nil && n.ParentNode() != parent {
		w.problem("parent link of %s %q is not the enclosing node", st.Keyword, st.Argument)
	}
	if parent != nil {
		if ps := parent.Statement(); ps != nil && idxIn(ps, st) < 0 {
			w.problem("%s %q is not a substatement of its enclosing node's statement", st.Keyword, st.Argument)
		}
	}
	lastExt := -1
	for _, x := range n.Exts() {
		w.seen[x]++
		if !strings.Contains(x.Keyword, ":") {
			w.problem("unprefixed statement %q in the extensions list", x.Keyword)
		}
		i := idxIn(st, x)
		if i < 0 {
			w.problem("extension %q is not a substatement of %s", x.Keyword, st.Keyword)
		}
		if i < lastExt {
			w.problem("extensions out of source order under %s", st.Keyword)
		}
		lastExt = i
	}
	v := reflect.ValueOf(n).Elem()
	t := v.Type()
	var byName []yang.Node // children that the lookup by name covers
	defer func() {
		// the lookup by name finds every child it covers (those in fields not marked nomerge; through
		// a uses statement it looks into the grouping, so with several children of one name any of
		// them may come back - but never nothing)
		for _, c := range byName {
			var got yang.Node
			if pan, pt := core.Guard(func() { got = yang.ChildNode(n, c.NName()) }); pan {
				w.problem("ChildNode(%s %q, %q) panics: %s", st.Keyword, st.Argument, c.NName(), pt)
				continue
			}
			if got == nil || reflect.ValueOf(got).IsNil() || got.NName() != c.NName() {
				w.problem("ChildNode(%s %q, %q) does not find the %s statement of that name", st.Keyword, st.Argument, c.NName(), c.Kind())
			}
		}
	}()
	for i := 0; i < t.NumField(); i++ {
		f := t.Field(i)
		tags := strings.Split(f.Tag.Get("yang"), ",")
		tag := tags[0]
		if tag == "" || tag == "Name" || tag == "Statement" || tag == "Parent" || tag == "Ext" {
			continue
		}
		merge := tag != "uses"
		for _, x := range tags[1:] {
			if x == "nomerge" {
				merge = false
			}
		}
		fv := v.Field(i)
		last := -1
		check := func(c yang.Node) {
			if c == nil || reflect.ValueOf(c).IsNil() {
				return
			}
			if merge {
				byName = append(byName, c)
			}
			cs := c.Statement()
			if cs != nil {
				if cs.Keyword != tag {
					w.problem("statement %q filed under field %q", cs.Keyword, tag)
				}
				j := idxIn(st, cs)
				if j < last {
					w.problem("%s siblings out of source order under %s", tag, st.Keyword)
				}
				last = j
			}
			w.collect(c, n)
		}
		switch fv.Kind() {
		case reflect.Ptr:
			if !fv.IsNil() && fv.Type().Implements(nodeT) {
				check(fv.Interface().(yang.Node))
			}
		case reflect.Slice:
			for j := 0; j < fv.Len(); j++ {
				if fv.Index(j).Type().Implements(nodeT) {
					check(fv.Index(j).Interface().(yang.Node))
				}
			}
		}
	}
}

// allStmts lists the statements that must be represented: an extension statement is a unit, its own
// substatements stay raw inside it.
func allStmts(s *yang.Statement, out *[]*yang.Statement) {
	*out = append(*out, s)
	if strings.Contains(s.Keyword, ":") {
		return
	}
	for _, c := range s.SubStatements() {
		allStmts(c, out)
	}
}

type fail struct{ fp, exp, obs string }

// check loads the text twice in this process: the builder keeps per-node-type tables, so the second
// build of a text meets whatever the first left behind; the verdicts must be the same and both
// builds must satisfy the oracle.
func check(in Input) (f *fail, accepted bool) {
	f1, a1 := check1(in)
	if f1 != nil {
		return f1, a1
	}
	f2, a2 := check1(in)
	if f2 != nil {
		f2.fp += "@second-build"
		return f2, a2
	}
	if a1 != a2 {
		return &fail{"second-build-verdict", fmt.Sprintf("accepted=%v as in the first build", a1), fmt.Sprintf("accepted=%v", a2)}, a1
	}
	return nil, a1
}

// check1 loads text; returns whether it was accepted.
func check1(in Input) (f *fail, accepted bool) {
	var err error
	var problems []string
	nmods := 0
	pan, pt := core.Guard(func() {
		ms := yang.NewModules()
		if err = ms.Parse(in.Text, "t.yang"); err != nil {
			return
		}
		seenMod := map[*yang.Module]bool{}
		for _, mm := range []map[string]*yang.Module{ms.Modules, ms.SubModules} {
			for _, m := range mm {
				if seenMod[m] {
					continue
				}
				seenMod[m] = true
				nmods++
				var src []*yang.Statement
				if m.Source == nil {
					problems = append(problems, "module node without source statement")
					continue
				}
				allStmts(m.Source, &src)
				w := &walker{seen: map[*yang.Statement]int{}, visited: map[yang.Node]bool{}}
				w.collect(m, nil)
				problems = append(problems, w.problems...)
				for _, s := range src {
					if w.seen[s] != 1 {
						problems = append(problems, fmt.Sprintf("statement %s %q represented %d times", s.Keyword, s.Argument, w.seen[s]))
					}
				}
				if m.Source.Keyword != "module" && m.Source.Keyword != "submodule" {
					problems = append(problems, "top-level "+m.Source.Keyword+" registered as a module")
				}
				if len(problems) > 0 {
					continue
				}
				// the mirror is still one after the calls a user makes next: the extension lookup
				// on every node for every extension written on it, and a processing run
				for n := range w.visited {
					for _, x := range n.Exts() {
						if i := strings.Index(x.Keyword, ":"); i >= 0 {
							yang.MatchingExtensions(n, m.Name, x.Keyword[i+1:])
						}
					}
				}
				ms.Process()
				w2 := &walker{seen: map[*yang.Statement]int{}, visited: map[yang.Node]bool{}}
				w2.collect(m, nil)
				for _, p := range w2.problems {
					problems = append(problems, "after extension lookups and a processing run: "+p)
				}
				for _, s := range src {
					if w2.seen[s] != 1 {
						problems = append(problems, fmt.Sprintf("after extension lookups and a processing run: statement %s %q represented %d times", s.Keyword, s.Argument, w2.seen[s]))
					}
				}
			}
		}
		// every top-level statement of the text must have become a registered module
		if ss, e := yang.Parse(in.Text, "t.yang"); e == nil && len(ss) != nmods {
			problems = append(problems, fmt.Sprintf("%d top-level statements, %d modules registered", len(ss), nmods))
		}
	})
	if pan {
		return &fail{"panic", "error or AST", pt}, false
	}
	if err != nil {
		if in.MustAccept {
			return &fail{"rejected-must-accept", "accepted: " + in.Why, err.Error()}, false
		}
		return nil, false
	}
	if in.MustError {
		return &fail{"accepted-must-reject", "error: " + in.Why, "accepted"}, true
	}
	if len(problems) > 0 {
		return &fail{"not-a-bijection", "one node per statement", strings.Join(problems, "; ")}, true
	}
	return nil, true
}

func render(chain []string, inner string) string {
	var sb strings.Builder
	for i, k := range chain {
		fmt.Fprintf(&sb, "%s x%d { %s ", k, i, needText(k, 0))
	}
	sb.WriteString(inner)
	for range chain {
		sb.WriteString(" }")
	}
	return sb.String()
}

// renderExt is render with an extension statement before and after the block of every level,
// spelled with the module's own prefix (so that an extension lookup can resolve it).
func renderExt(chain []string, inner string) string {
	var sb strings.Builder
	for i, k := range chain {
		fmt.Fprintf(&sb, "%s x%d { %s m:a%d 1; ", k, i, needText(k, 0), i)
	}
	sb.WriteString(inner)
	for i := range chain {
		fmt.Fprintf(&sb, " m:b%d 2; }", len(chain)-1-i)
	}
	return sb.String()
}

func stmt(k, arg string, omit int) string {
	if len(need[k]) == 0 {
		return fmt.Sprintf("%s %s;", k, arg)
	}
	return fmt.Sprintf("%s %s { %s }", k, arg, needText(k, omit))
}

func meta(k string) bool {
	// p:e:f (two colons) is tried like any keyword: whether it counts as prefixed (extensions list)
	// or as unknown (rejected) the statement does not say; accepted, it must satisfy the bijection
	return k == "Name" || k == "Statement" || k == "Parent" || k == "Ext" || k == "bogus" || k == "p:ext"
}

const nShards = 16

const nPairShards = 8

func maxDepth(tier string) int {
	if tier == "thorough" {
		return 6
	}
	return 5
}

// contexts discovers the reachable context chains (BFS, deduplicated by last keyword).
func contexts(tier string) [][]string {
	queue := [][]string{{"module"}, {"submodule"}}
	seen := map[string]bool{"module": true, "submodule": true}
	var out [][]string
	for len(queue) > 0 {
		c := queue[0]
		queue = queue[1:]
		out = append(out, c)
		if len(c) >= maxDepth(tier) {
			continue
		}
		for _, k := range K {
			if seen[k] || meta(k) || strings.Contains(k, ":") {
				continue // an extension statement is a unit: nothing below it is built
			}
			if f, acc := check(Input{Text: render(c, stmt(k, "y", 0))}); f == nil && acc {
				seen[k] = true
				queue = append(queue, append(append([]string{}, c...), k))
			}
		}
	}
	return out
}

func shards(tier string) []string {
	var out []string
	for i := 0; i < nShards; i++ {
		out = append(out, fmt.Sprintf("ctx/%d", i))
	}
	for i := 0; i < nPairShards; i++ {
		out = append(out, fmt.Sprintf("pairs/%d", i))
	}
	return append(out, "toplevel", "long/0", "long/1", "long/2", "long/3", "long/4", "long/5", "long/6", "long/7")
}

// longBody: n substatements of a container - leaves in the main, a container, a list and leaf-lists
// among them, extension statements of three different keywords interleaved - so that same-keyword
// siblings are many and keywords are not in alphabetical order.
func longBody(n int) string {
	var sb strings.Builder
	for i := 0; i < n; i++ {
		switch {
		case i%17 == 5:
			fmt.Fprintf(&sb, " container c%d { leaf in { type string; } }", i)
		case i%13 == 7:
			fmt.Fprintf(&sb, " leaf-list ll%d { type string; }", i)
		case i%11 == 3:
			fmt.Fprintf(&sb, " %s:e%d x%d;", []string{"p", "q", "a"}[i%3], i%2, i)
		case i%29 == 11:
			fmt.Fprintf(&sb, " list li%d { key k; leaf k { type string; } }", i)
		default:
			fmt.Fprintf(&sb, " leaf l%d { type string; }", i)
		}
	}
	return sb.String()
}

func run(c *core.Ctx) {
	c.Res.Bound = fmt.Sprintf("context chains to depth %d (BFS, one per reachable keyword) x %d child keywords x shapes (x1 x2 x3, interleaved, extension before/after/with block, extensions at every level of the chain, the context keyword nested again below the child with extensions at each level, no argument, every subset of mandatory substatements omitted); every keyword at top level; statements with every number 1..300 (and 511..513, 1023..1025, 4095..4097) of mixed substatements; every text built twice in one process", maxDepth(c.Tier), len(K))
	one := func(in Input) {
		caseNo, run := c.Begin()
		if c.Skip(caseNo, run, in) {
			return
		}
		c.Exec()
		c.Edge(1)
		c.Validate()
		if !c.State(in.Text) {
			return
		}
		f, acc := check(in)
		if acc {
			c.Nontrivial(in.Text)
		}
		switch {
		case f != nil:
			c.Outcome("FAIL:" + f.fp)
			c.Fail(caseNo, nil, f.fp, in, f.exp, f.obs)
		case acc:
			c.Outcome("accepted-bijection")
			if caseNo%300 == 17 {
				b, _ := json.Marshal(in)
				c.Sample(string(b))
			}
		case in.MustError:
			c.Outcome("rejected-as-required")
		default:
			c.Outcome("rejected")
		}
	}
	if strings.HasPrefix(c.Shard, "pairs/") {
		// two substatements of different kinds below every context that takes both, in both orders:
		// what is filed for one kind must not depend on which other kinds the parent holds
		var pk int
		fmt.Sscanf(c.Shard, "pairs/%d", &pk)
		for ci, chain := range contexts("quick") {
			if ci%nPairShards != pk || c.Expired() {
				continue
			}
			var acc []string
			for _, k := range K {
				if meta(k) {
					continue
				}
				if f, ok := check(Input{Text: render(chain, stmt(k, "y", 0))}); f == nil && ok {
					acc = append(acc, k)
				}
			}
			for _, k1 := range acc {
				for _, k2 := range acc {
					if k1 != k2 {
						one(Input{Text: render(chain, stmt(k1, "y1", 0)+" "+stmt(k2, "y2", 0))})
					}
				}
			}
		}
		return
	}
	if strings.HasPrefix(c.Shard, "long/") {
		var lk int
		fmt.Sscanf(c.Shard, "long/%d", &lk)
		sizes := []int{}
		for n := 1; n <= 300; n++ {
			sizes = append(sizes, n)
		}
		sizes = append(sizes, 511, 512, 513, 1023, 1024, 1025, 4095, 4096, 4097)
		for si, n := range sizes {
			if c.Expired() {
				return
			}
			if si%8 != lk {
				continue
			}
			one(Input{Text: `module m { namespace "urn:m"; prefix m; container top {` + longBody(n) + ` } }`})
			one(Input{Text: `module m { namespace "urn:m"; prefix m;` + longBody(n) + ` }`})
			one(Input{Text: `module m { namespace "urn:m"; prefix m; grouping g {` + longBody(n) + ` } rpc r { input {` + longBody(n) + ` } } }`})
			if n <= 300 {
				one(Input{Text: scale.Counts(n).Text})
				one(Input{Text: scale.ManyLeaves(n).Text})
			}
			if n <= 64 {
				// the same keyword in two runs of r1 and n statements, separated by one statement of
				// another kind (two sizes at once), for leaves, enums, musts and imports
				for r1 := 1; r1 <= 3; r1++ {
					leaves := func(from, k int) string {
						var sb strings.Builder
						for i := 0; i < k; i++ {
							fmt.Fprintf(&sb, " leaf l%d { type string; }", from+i)
						}
						return sb.String()
					}
					enums := func(from, k int) string {
						var sb strings.Builder
						for i := 0; i < k; i++ {
							fmt.Fprintf(&sb, " enum e%d;", from+i)
						}
						return sb.String()
					}
					musts := func(from, k int) string {
						var sb strings.Builder
						for i := 0; i < k; i++ {
							fmt.Fprintf(&sb, ` must "%d";`, from+i)
						}
						return sb.String()
					}
					one(Input{Text: `module m { namespace "urn:m"; prefix m; container c {` + leaves(0, r1) + ` container mid; ` + leaves(100, n) + ` p:x y;` + leaves(200, r1) + ` } }`})
					one(Input{Text: `module m { namespace "urn:m"; prefix m; leaf l { type enumeration {` + enums(0, r1) + ` p:note "x";` + enums(100, n) + ` } ` + musts(0, r1) + ` description d;` + musts(100, n) + ` } }`})
				}
			}
			la, _ := scale.LongArgs(n)
			one(Input{Text: la.Text})
			if n <= 300 {
				la, _ = scale.LongArgs(n * 40)
				one(Input{Text: la.Text})
			}
		}
		return
	}
	if c.Shard == "toplevel" {
		valid := `module m { namespace "urn:m"; prefix m; }`
		for _, k := range K {
			must := k != "module" && k != "submodule"
			one(Input{Text: stmt(k, "y", 0), MustError: must, Why: "top-level statement that is not a module or submodule"})
			one(Input{Text: valid + " " + stmt(k, "y", 0), MustError: must, Why: "top-level statement that is not a module or submodule"})
			one(Input{Text: stmt(k, "y", 0) + " " + valid, MustError: must, Why: "top-level statement that is not a module or submodule"})
			one(Input{Text: k + ";", MustError: must, Why: "top-level statement that is not a module or submodule"})
		}
		return
	}
	var shard int
	fmt.Sscanf(c.Shard, "ctx/%d", &shard)
	ctxs := contexts(c.Tier)
	mult := 3
	if c.Tier == "thorough" {
		mult = 4
	}
	for ci, chain := range ctxs {
		if ci%nShards != shard {
			continue
		}
		for _, k := range K {
			if c.Expired() {
				return
			}
			unknown := meta(k) && k != "p:ext"
			why := "keyword unknown in this context"
			base := stmt(k, "y", 0)
			// is the single child accepted here?
			_, acc1 := check(Input{Text: render(chain, base)})
			one(Input{Text: render(chain, base), MustError: unknown, Why: why})
			// multiplicity
			for m := 2; m <= mult; m++ {
				var parts []string
				for j := 0; j < m; j++ {
					parts = append(parts, stmt(k, fmt.Sprintf("y%d", j), 0))
				}
				one(Input{Text: render(chain, strings.Join(parts, " ")), MustError: unknown, Why: why})
			}
			// interleaved with another statement kind and with extension statements
			one(Input{Text: render(chain, stmt(k, "y1", 0)+" description d; "+stmt(k, "y2", 0)), MustError: unknown, Why: why})
			one(Input{Text: render(chain, stmt(k, "y1", 0)+" p:e 1; "+stmt(k, "y2", 0)+" q:f { leaf inner; bogus z; }"), MustError: unknown, Why: why})
			one(Input{Text: render(chain, "p:e 1; "+base), MustError: unknown, Why: why})
			one(Input{Text: render(chain, base+" p:e { description in-ext; }"), MustError: unknown, Why: why})
			// extension statements at the child's own level
			if len(need[k]) == 0 {
				one(Input{Text: render(chain, fmt.Sprintf("%s y { p:e 1; q:f 2; }", k)), MustError: unknown, Why: why})
			} else {
				one(Input{Text: render(chain, fmt.Sprintf("%s y { p:e 1; %s q:f 2; }", k, needText(k, 0))), MustError: unknown, Why: why})
			}
			// the context's own keyword again below the child (container in list in container, choice
			// in case in choice, type in type ...), every level carrying extension statements
			// before and after its block
			if len(chain) > 1 {
				L := chain[len(chain)-1]
				lv := func(k, name, before, inner, after string) string {
					return fmt.Sprintf("%s %s { %s %s %s %s }", k, name, needText(k, 0), before, inner, after)
				}
				in3 := lv(L, "y", "p:e 1;", lv(k, "v", "p:m 5;", lv(L, "z", "q:f 2;", "", "q:h 7;"), "p:n 6;"), "r:g 3;")
				one(Input{Text: render(chain[:len(chain)-1], in3), MustError: unknown, Why: why})
				if k == L {
					in2 := lv(L, "y", "p:e 1;", lv(L, "z", "q:f 2;", "", "q:h 7;"), "r:g 3;")
					one(Input{Text: render(chain[:len(chain)-1], in2)})
					one(Input{Text: render(chain[:len(chain)-1], lv(L, "w", "p:w 0;", "", "")+" "+in2)})
				}
			}
			// the child below a chain whose every level has extension statements around its block
			one(Input{Text: renderExt(chain, base), MustError: unknown, Why: why})
			// without argument
			if len(need[k]) == 0 {
				one(Input{Text: render(chain, k+";"), MustError: unknown, Why: why})
			} else {
				one(Input{Text: render(chain, fmt.Sprintf("%s { %s }", k, needText(k, 0))), MustError: unknown, Why: why})
			}
			// a prefixed keyword is an extension statement whatever its local name is: it must be
			// accepted exactly where any other extension statement is, and filed in the extensions list
			if !meta(k) && !strings.Contains(k, ":") {
				_, accExt := check(Input{Text: render(chain, "p:e z;")})
				in := Input{Text: render(chain, "p:"+k+" z;")}
				_, accK := check(in)
				if accExt && !accK {
					in.MustAccept, in.Why = true, "a prefixed keyword is an extension statement whatever its local name (p:e z; is accepted here)"
					one(in)
				} else {
					one(Input{Text: render(chain, "p:"+k+" z; "+base), MustError: unknown, Why: why})
				}
			}
			// mandatory substatements omitted: must be rejected wherever the complete child is accepted
			if n := len(need[k]); n > 0 {
				for omit := 1; omit < 1<<n; omit++ {
					one(Input{Text: render(chain, stmt(k, "y", omit)), MustError: true, Why: "mandatory substatement of " + k + " absent"})
					// ... also when an extension statement with the same local name stands in its place
					var exts []string
					for i, nd := range need[k] {
						if omit&(1<<i) != 0 {
							exts = append(exts, "x:"+nd[1])
						}
					}
					one(Input{Text: render(chain, fmt.Sprintf("%s y { %s %s }", k, needText(k, omit), strings.Join(exts, " "))), MustError: true, Why: "mandatory substatement of " + k + " absent (an extension statement of the same local name does not count)"})
				}
				if n == 1 && acc1 { // the mandatory substatement given twice: second occurrence of a single-valued substatement
					if need[k][0][0] != "deviate" {
						one(Input{Text: render(chain, fmt.Sprintf("%s y { %s %s }", k, need[k][0][1], need[k][0][1])), MustError: true, Why: "second occurrence of the single-valued substatement " + need[k][0][0]})
					}
				}
			}
		}
		if c.Tier == "thorough" {
			// every ordered pair of different children that are accepted alone: accepted together in
			// both orders (or rejected in both), and filed correctly
			var okKids []string
			for _, k := range K {
				if meta(k) {
					continue
				}
				if _, acc := check(Input{Text: render(chain, stmt(k, "y", 0))}); acc {
					okKids = append(okKids, k)
				}
			}
			for _, k1 := range okKids {
				for _, k2 := range okKids {
					if k1 != k2 {
						one(Input{Text: render(chain, stmt(k1, "y1", 0)+" "+stmt(k2, "y2", 0)+" "+stmt(k1, "y3", 0))})
					}
				}
			}
		}
		// the context's own mandatory substatements omitted / duplicated
		last := chain[len(chain)-1]
		if n := len(need[last]); n > 0 && len(chain) == 1 {
			for omit := 1; omit < 1<<n; omit++ {
				one(Input{Text: fmt.Sprintf("%s x0 { %s }", last, needText(last, omit)), MustError: true, Why: "mandatory substatement absent"})
				var exts []string
				for i, nd := range need[last] {
					if omit&(1<<i) != 0 {
						exts = append(exts, "x:"+nd[1])
					}
				}
				one(Input{Text: fmt.Sprintf("%s x0 { %s %s }", last, needText(last, omit), strings.Join(exts, " ")), MustError: true, Why: "mandatory substatement absent (an extension of the same local name does not count)"})
			}
		}
	}
}

func replay(tier string, raw json.RawMessage) (bool, string, string) {
	var in Input
	if err := json.Unmarshal(raw, &in); err != nil {
		return false, "", err.Error()
	}
	f, _ := check(in)
	if f == nil {
		return false, "", "bijection holds or the build failed as required"
	}
	return true, f.fp, fmt.Sprintf("expected %s observed %s", f.exp, f.obs)
}

func init() {
	core.Register(&core.Prop{
		ID: "C03", Variant: "plain", Shards: shards, Run: run, Replay: replay,
		Rule:        "breadth-first reachability over statement contexts starting at module and submodule; in every reachable context every keyword of the alphabet (RFC 7950 keywords, the builder's meta names, an unknown word, a prefixed extension) is tried as a child once, twice, three times, interleaved with another statement and with extension statements (with and without blocks), without argument, and with every subset of its mandatory substatements omitted or doubled; every keyword is also tried at top level alone and next to a valid module; the context's own keyword is nested again below the child with extension statements at each level, and every text is built twice in the same process (same verdict, both builds checked). Oracle: Modules.Parse returns an error, or a reflection walk over the exported fields finds every source statement exactly once under the field tagged with its keyword (extensions list for prefixed keywords), in source order, with name = argument, parent = enclosing node, statement = the source statement; must-reject classes must give an error. states = distinct texts; non-trivial = accepted texts",
		Assumptions: []string{"an extension statement is a unit: its own substatements are not expected in the AST", "the table of mandatory substatements is taken from RFC 7950 (YANG 1 cardinality-1 rows)"},
	})
}
