package c01

import (
	"fmt"
	"strings"

	"verif/mc/core"
)

// L8: path arguments. Every sequence of up to l8Len pieces of path syntax - slashes, names with and
// without a known or unknown prefix, the steps . and .., the keyword-like steps input and output,
// key predicates whole and torn, a lone colon, a blank, a wildcard - is handed to Entry.Find from the
// module entry and from inner nodes of a clean tree (batches of paths per loaded tree), and - up to
// l8ArgLen pieces - written as the argument of an augment, a deviation, a leafref path, a uses
// refine and a list key / unique statement of a module that is then processed.

var l8alpha = []string{"/", "m:", "c", "x", "..", ".", "[k='a']", "[", "]", ":", "q:", "input", " ", "*", "li", "//"}

const l8base = `module m { yang-version 1.1; namespace "urn:m"; prefix m;
 container c { leaf x { type string; } list li { key k; leaf k { type string; } leaf v { type string; } } container input { leaf output { type string; } } }
 rpc ra { input { leaf z { type string; } } } choice ch { leaf a { type string; } case b { leaf bl { type string; } } }
 grouping g { container gc { leaf gl { type string; } } }
`

var l8bodies = []string{
	`augment "%s" { leaf z { type string; } }`,
	`deviation "%s" { deviate not-supported; }`,
	`deviation "%s" { deviate replace { type int8; } }`,
	`leaf lr { type leafref { path "%s"; } }`,
	`container u { uses g { refine "%s" { description d; } augment "%s" { leaf z { type string; } } } }`,
	`list l2 { key "%s"; unique "%s"; leaf k { type string; } }`,
}

func l8shards() []string {
	var out []string
	for i := range l8alpha {
		out = append(out, fmt.Sprintf("L8/%d", i))
	}
	return out
}

func l8(c *core.Ctx, first int, emit func(in Input)) {
	maxLen, argLen := 5, 3
	if c.Tier == "thorough" {
		maxLen, argLen = 6, 4
	}
	var batch []string
	flush := func() {
		if len(batch) > 0 {
			emit(Input{Files: []File{{Name: "m.yang", Text: l8base + "}"}}, Finds: batch})
			batch = nil
		}
	}
	var rec func(p string, n int)
	rec = func(p string, n int) {
		if c.Expired() {
			return
		}
		batch = append(batch, p)
		if len(batch) == 64 {
			flush()
		}
		if n <= argLen && !strings.Contains(p, `"`) {
			for _, body := range l8bodies {
				emit(Input{Files: []File{{Name: "m.yang", Text: l8base + " " + strings.ReplaceAll(body, "%s", p) + "\n}"}}})
			}
		}
		if n == maxLen {
			return
		}
		for _, a := range l8alpha {
			rec(p+a, n+1)
		}
	}
	rec(l8alpha[first], 1)
	flush()
	if first == 0 {
		// the paths of the nodes the module has, written and unwritten (an rpc's output), as arguments
		for _, p := range []string{"/m:c", "/m:c/m:x", "/m:c/m:li", "/m:c/m:li/m:k", "/m:c/m:input", "/m:c/m:input/m:output", "/m:ra", "/m:ra/m:input",
			"/m:ra/m:input/m:z", "/m:ra/m:output", "/m:ra/m:output/m:z", "/m:ch", "/m:ch/m:a", "/m:ch/m:b", "/m:ch/m:b/m:bl", "/m:ch/m:a/m:a", "/c/x", "/m:c/x", "gc", "gc/gl"} {
			for _, body := range l8bodies {
				emit(Input{Files: []File{{Name: "m.yang", Text: l8base + " " + strings.ReplaceAll(body, "%s", p) + "\n}"}}})
				emit(Input{Files: []File{{Name: "m.yang", Text: l8base + " " + strings.ReplaceAll(body, "%s", p) + " " + strings.ReplaceAll(body, "%s", p) + "\n}"}}})
			}
		}
	}
}
