package c01

import (
	"fmt"

	"verif/mc/core"
)

// L6: type bodies with hostile arguments. Every built-in base (and a derived decimal64 / string /
// enumeration typedef) x every ordered pair of restriction statements whose arguments sit at, just
// inside and just outside the limits the resolver works with (1..18 for fraction-digits, 8/32/64-bit
// integers, wrap-around values such as 64, 256 and 2^64, empty and malformed range expressions),
// written in a leaf, in a typedef used by a leaf, and in a typedef narrowed again by the leaf.

var l6bases = []string{"int8", "int16", "int32", "int64", "uint8", "uint16", "uint32", "uint64", "decimal64", "string", "binary",
	"enumeration", "bits", "union", "leafref", "identityref", "boolean", "empty", "instance-identifier", "td", "ts", "te", "nosuch"}

var l6ints = []string{"0", "1", "18", "19", "63", "64", "100", "255", "256", "-1", "2147483647", "2147483648", "-2147483648", "-2147483649",
	"4294967295", "4294967296", "9223372036854775807", "9223372036854775808", "-9223372036854775808", "18446744073709551615", "18446744073709551616",
	"99999999999999999999999", `""`, "x", "1.5", "+1", "007"}

var l6ranges = []string{`"min..max"`, `"max"`, `"min"`, `"1..5"`, `"5..1"`, `"1..5|3..7"`, `"min..1|2..max"`, `"1.5..2.5"`, `"-1..1"`, `"1.."`, `"..1"`, `"|"`, `""`,
	`"1|1"`, `"0..18446744073709551615"`, `"0..18446744073709551616"`, `"-9223372036854775808..9223372036854775807"`, `"-9223372036854775809..0"`,
	`"1.0000000000000000001..2"`, `"max..min"`, `"min..min"`, `"1 .. 5"`, `"a..b"`, `"-92233720368547758.08..92233720368547758.07"`, `"0.1..0.12345678901234567890"`,
	// bounds written with more fraction digits than the type has, the surplus all zeros; with as many; with one digit
	`"2.50..3.00"`, `"2.5..3.0"`, `"0.100..0.5"`, `"1.50"`, `"2.500..2.5"`, `"1.00..max"`}

func l6stmts() []string {
	var out []string
	for _, v := range l6ints {
		out = append(out, "fraction-digits "+v+";")
	}
	for _, r := range l6ranges {
		out = append(out, "range "+r+";", "length "+r+";")
	}
	for _, v := range l6ints {
		out = append(out, "enum e"+fmt.Sprint(len(out))+" { value "+v+"; }", "bit b"+fmt.Sprint(len(out))+" { position "+v+"; }")
	}
	out = append(out, "enum a;", "bit a;", `enum "";`, `pattern "a.*";`, `pattern "[";`, `pattern "a" { modifier invert-match; }`,
		`path "/m:t";`, `path "";`, `path "../../../../x";`, "base i;", "base nosuch;", "require-instance false;", "require-instance maybe;",
		"type string;", "type union;", "type td { range min..max; }", "")
	return out
}

const l6prelude = `module m { yang-version 1.1; namespace "urn:m"; prefix m; identity i; leaf t { type string; }
 typedef td { type decimal64 { fraction-digits 2; range "1.5..9.5"; } } typedef ts { type string { length "2..8"; } } typedef te { type enumeration { enum a; enum b { value 7; } } }
`

func l6shards() []string {
	var out []string
	for i := range l6bases {
		out = append(out, fmt.Sprintf("L6/%d", i))
	}
	return out
}

func l6(c *core.Ctx, bi int, emit func(in Input)) {
	base := l6bases[bi]
	stmts := l6stmts()
	defaults := []string{"", "default 1;", "default 1.55;", `default "";`, "default a;", "default 99999999999999999999;"}
	for i, s1 := range stmts {
		for j, s2 := range stmts {
			if c.Expired() {
				return
			}
			if s1 == "" && s2 != "" {
				continue
			}
			body := s1 + " " + s2
			def := defaults[(i+j)%len(defaults)]
			emit(Input{Files: []File{{Name: "m.yang", Text: l6prelude + fmt.Sprintf(" leaf l { type %s { %s } %s }\n}", base, body, def)}}})
			emit(Input{Files: []File{{Name: "m.yang", Text: l6prelude + fmt.Sprintf(" typedef u { type %s { %s } %s } leaf l { type u; } leaf-list ll { type u; }\n}", base, body, def)}}})
			emit(Input{Files: []File{{Name: "m.yang", Text: l6prelude + fmt.Sprintf(" typedef u { type %s { %s } } typedef v { type u { %s } %s } leaf l { type v { %s } }\n}", base, s1, s2, def, s1)}}})
		}
	}
}
