// Package c01 decides C01: no input can crash, overflow or hang the loader and resolver.
// Five layers of exhaustive enumeration, each driven through the whole pipeline
// (yang.Parse, Modules.Parse, Process, ToEntry, GetErrors, walk, Find):
//
//	L1/L2  every text of the shared lexical spaces
//	L3     every statement tree of <= 3 statements over the keyword alphabet, at top level and under
//	       module / submodule headers
//	L4     cross-reference programs: 1-3 files whose definitions refer to themselves, to each other,
//	       to undefined names, unknown prefixes and wrong-kind targets, in all load orders
//	L5     the single-edit neighbourhood of a seed corpus
//
// Oracle: every call returns (no panic, no fatal error, no hang).
package c01

import (
	"embed"
	"encoding/hex"
	"encoding/json"
	"fmt"
	"io"
	"sort"
	"strings"
	"unicode/utf8"

	"github.com/openconfig/goyang/pkg/yang"
	"verif/mc/core"
	"verif/mc/dump"
	"verif/mc/explore"
	"verif/mc/gen/lexspace"
	"verif/mc/gen/scale"
	"verif/mc/ref/rfcread"
)

type File struct {
	Name string `json:"name"`
	Text string `json:"text"`
	Hex  string `json:"hex,omitempty"` // the text, when it is not valid UTF-8 (JSON cannot carry it)
}

// mkFile stores text in a form that survives the JSON round trip of a replay file.
func mkFile(name, text string) File {
	if utf8.ValidString(text) {
		return File{Name: name, Text: text}
	}
	return File{Name: name, Hex: hex.EncodeToString([]byte(text))}
}

func (f File) text() string {
	if f.Hex != "" {
		b, _ := hex.DecodeString(f.Hex)
		return string(b)
	}
	return f.Text
}

type Input struct {
	Files []File   `json:"files"`
	Finds []string `json:"finds,omitempty"`
}

func walk(e *yang.Entry, depth int, seen map[*yang.Entry]bool, f func(*yang.Entry)) {
	if e == nil {
		return
	}
	if depth > 5000 {
		panic("entry tree deeper than 5000 levels: cyclic tree?")
	}
	if seen[e] {
		return
	}
	seen[e] = true
	f(e)
	for _, c := range e.Dir {
		walk(c, depth+1, seen, f)
	}
	if e.RPC != nil {
		walk(e.RPC.Input, depth+1, seen, f)
		walk(e.RPC.Output, depth+1, seen, f)
	}
}

// exercise drives the whole pipeline on one sequence of files; panics propagate to the caller's Guard.
func exercise(in Input) string {
	for _, f := range in.Files {
		ss, err := yang.Parse(f.text(), f.Name)
		if err != nil {
			_ = err.Error()
		}
		for _, s := range ss {
			_ = s.Location()
		}
	}
	// texts with deviations, includes or uses statements also under the options that change how
	// those are handled (all three switched on); what comes back is not judged, only that it does
	for _, f := range in.Files {
		if t := f.text(); strings.Contains(t, "deviat") || strings.Contains(t, "include") || strings.Contains(t, "uses") {
			mo := yang.NewModules()
			mo.ParseOptions.DeviateOptions.IgnoreDeviateNotSupported = true
			mo.ParseOptions.StoreUses = true
			mo.ParseOptions.IgnoreSubmoduleCircularDependencies = true
			for _, f := range in.Files {
				mo.Parse(f.text(), f.Name)
			}
			if len(mo.Process()) == 0 {
				for _, m := range mo.Modules {
					walk(yang.ToEntry(m), 0, map[*yang.Entry]bool{}, func(x *yang.Entry) { _ = x.Path(); _ = len(x.Uses) })
				}
			}
			break
		}
	}
	ms := yang.NewModules()
	loaded := 0
	for _, f := range in.Files {
		if err := ms.Parse(f.text(), f.Name); err != nil {
			_ = err.Error()
		} else {
			loaded++
		}
	}
	errs := ms.Process()
	if len(errs) > 0 {
		for _, e := range errs {
			_ = e.Error()
		}
		if loaded == 0 {
			return "rejected-at-load"
		}
		return "process-errors"
	}
	if loaded == 0 {
		return "nothing-loaded"
	}
	finds := append([]string{"/m:x", "/m:c/m:x", "x/../y", "../x", "/q:nosuch/q:x", "nosuch"}, in.Finds...)
	nodes := 0
	for _, mm := range []map[string]*yang.Module{ms.Modules, ms.SubModules} {
		var names []string
		for n := range mm {
			names = append(names, n)
		}
		sort.Strings(names)
		for _, n := range names {
			e := yang.ToEntry(mm[n])
			_ = e.GetErrors()
			walk(e, 0, map[*yang.Entry]bool{}, func(x *yang.Entry) {
				nodes++
				_ = x.Path()
				_ = x.DefaultValues()
				// the accessors that answer from a cache the second time: asked twice
				for twice := 0; twice < 2; twice++ {
					_ = x.Namespace()
					_, _ = x.InstantiatingModule()
					_ = x.ReadOnly()
					_, _ = x.GetWhenXPath()
					_ = x.IsDir() || x.IsLeaf() || x.IsLeafList() || x.IsList() || x.IsContainer() || x.IsChoice() || x.IsCase()
					_ = x.Modules()
				}
				if t := x.Type; t != nil {
					_ = t.Range.String() + t.Length.String()
					_ = t.Equal(t)
					if t.Enum != nil {
						_ = t.Enum.Names()
					}
					if t.Bit != nil {
						_ = t.Bit.Values()
					}
				}
				if nodes < 40 {
					for _, p := range finds {
						x.Find(p)
					}
				}
			})
			for _, p := range finds {
				e.Find(p)
			}
			e.Print(io.Discard)
			if m := mm[n]; m.Namespace != nil {
				_, _ = ms.FindModuleByNamespace(m.Namespace.Name)
				_, _ = ms.FindModuleByNamespace(m.Namespace.Name)
			}
			_, _ = ms.FindModuleByNamespace("urn:nosuch")
			_, _ = ms.FindModuleByNamespace("urn:nosuch")
		}
	}
	return "clean"
}

func check(in Input) (failed bool, text, outcome string) {
	pan, pt := core.Guard(func() { outcome = exercise(in) })
	if pan {
		return true, pt, "panic"
	}
	return false, "", outcome
}

// ---------------------------------------------------------------------------------------------

var K = strings.Fields(`action anydata anyxml argument augment base belongs-to bit case choice config contact container default description deviate deviation enum error-app-tag error-message extension feature fraction-digits grouping identity if-feature import include input key leaf leaf-list length list mandatory max-elements min-elements modifier module must namespace notification ordered-by organization output path pattern position prefix presence range reference refine require-instance revision revision-date rpc status submodule type typedef unique units uses value when yang-version yin-element Name Statement Parent Ext bogus p:ext`)

var need = map[string]string{"module": `namespace "urn:x"; prefix x;`, "submodule": `belongs-to m { prefix m; }`, "import": `prefix i;`, "belongs-to": `prefix m;`, "leaf": `type string;`, "leaf-list": `type string;`, "typedef": `type string;`, "deviation": `deviate add;`}

var headers = []struct{ name, open, close string }{
	{"module", `module m { namespace "urn:m"; prefix m; `, ` }`},
	{"submodule", `submodule s { belongs-to m { prefix m; } `, ` }`},
	{"top", ``, ``},
}

var argPool = []string{"x", "", `""`, "/m:x", "5", "m:x"}

func stmt(k, arg, inner string) string {
	a := ""
	if arg != "" {
		a = " " + arg
	}
	if inner == "" && need[k] == "" {
		return k + a + ";"
	}
	return fmt.Sprintf("%s%s { %s %s }", k, a, need[k], inner)
}

// l3 enumerates the statement trees of one shard: (header, first keyword index).
func l3(c *core.Ctx, hi, k1 int, deep bool, emit func(in Input)) {
	h := headers[hi]
	wrap := func(body string) Input {
		return Input{Files: []File{{Name: "f.yang", Text: h.open + body + h.close}}}
	}
	a := K[k1]
	for _, x1 := range argPool {
		emit(wrap(stmt(a, x1, "")))
		for _, b := range K {
			for _, x2 := range argPool {
				emit(wrap(stmt(a, x1, "") + " " + stmt(b, x2, "")))
				emit(wrap(stmt(a, x1, stmt(b, x2, ""))))
			}
		}
	}
	if !deep {
		return
	}
	for _, b := range K {
		for _, d := range K {
			if c.Expired() {
				return
			}
			emit(wrap(stmt(a, "x", "") + " " + stmt(b, "x", "") + " " + stmt(d, "x", "")))
			emit(wrap(stmt(a, "x", stmt(b, "x", "")) + " " + stmt(d, "x", "")))
			emit(wrap(stmt(a, "x", "") + " " + stmt(b, "x", stmt(d, "x", ""))))
			emit(wrap(stmt(a, "x", stmt(b, "x", "")+" "+stmt(d, "x", ""))))
			emit(wrap(stmt(a, "x", stmt(b, "x", stmt(d, "x", "")))))
			emit(wrap(stmt(a, "y", stmt(b, "x", stmt(d, "/m:y/m:x", "")))))
		}
	}
}

// ---------------------------------------------------------------------------------------------
// L4: cross references

var refs = []string{"string", "x", "y", "m:y", "n:y", "q:y", "m:x"}

func pool() []string {
	var p []string
	for _, r := range refs {
		p = append(p, "typedef x { type "+r+"; }", "typedef y { type "+r+"; }", "typedef x { type union { type string; type "+r+"; } }",
			"grouping x { uses "+r+"; }", "grouping y { leaf gl { type "+r+"; } }", "grouping y { container gc { uses "+r+"; } }",
			"identity x { base "+r+"; }", "identity y { base "+r+"; }", "identity y { base x; base "+r+"; }",
			"leaf l { type "+r+"; }", "leaf r { type identityref { base "+r+"; } }", "container c { uses "+r+"; }",
			"deviation /m:l { deviate replace { type "+r+"; } }", "leaf lr { type leafref { path \"../"+r+"\"; } }")
	}
	for _, t := range []string{"/m:c", "/m:l", "/n:c", "/q:c", "c", "/m:c/m:gl", "/m:ra/m:input", "/m:ra/m:output/m:z", "/n:l", "/m:ch/m:a", "/m:li", "x", "/m:c/m:z"} {
		p = append(p, "augment "+t+" { leaf z { type string; } }", "augment "+t+" { uses y; }", "augment "+t+" { container z { leaf x { type y; } } }",
			"deviation "+t+" { deviate not-supported; }", "deviation "+t+" { deviate add { default d; } }", "deviation "+t+" { deviate delete { max-elements 3; } }", "deviation "+t+" { deviate bogus; }")
	}
	p = append(p, "rpc ra;", "rpc ra { input { leaf z { type y; } } }", "leaf lr { type leafref { path \"/m:l\"; } }", "container c { leaf x { type string; } }",
		"choice ch { leaf a { type string; } }", "list li { key k; leaf k { type string; } }", "container c { action act { input { uses y; } } }", "notification no { uses x; }")
	return p
}

var l4headers = map[string]string{"m": `module m { namespace "urn:m"; prefix m; `, "n": `module n { namespace "urn:n"; prefix n; `, "s": `submodule s { belongs-to m { prefix m; } `, "so": `submodule s { belongs-to other { prefix o; } `,
	"m2": `module m { namespace "urn:m"; prefix m; revision 2020-01-01; `}
var linksA = []string{"", "include s;", "import n { prefix n; }", "import m { prefix m; }", "include m;", "import s { prefix s; }", "include s; import n { prefix n; }", "import n { prefix n; revision-date 2020-01-01; }", "include s { revision-date 2020-01-01; }"}
var linksB = map[string][]string{"n": {"", "import m { prefix m; }"}, "s": {"", "import n { prefix n; }", "include s;", "include t;"}, "so": {""}, "m2": {""}}
var l4kinds = []string{"n", "s", "so", "m2"}

func l4shards() int { return len(linksA) * 8 }

func l4(c *core.Ctx, shard int, thorough bool, emit func(in Input)) {
	pa := pool()
	la := linksA[shard/8]
	part := shard % 8
	stride1, stride2 := 11, 7
	if thorough {
		stride1, stride2 = 5, 3
	}
	for i, d1 := range pa {
		if i%8 != part {
			continue
		}
		if c.Expired() {
			return
		}
		a1 := l4headers["m"] + la + " " + d1 + " }"
		emit(Input{Files: []File{{Name: "m.yang", Text: a1}}})
		for j := i % stride1; j < len(pa); j += stride1 {
			emit(Input{Files: []File{{Name: "m.yang", Text: l4headers["m"] + la + " " + d1 + " " + pa[j] + " }"}}})
		}
		for _, bk := range l4kinds {
			for _, lb := range linksB[bk] {
				for k := (i * 3) % stride2; k < len(pa); k += stride2 {
					b := l4headers[bk] + lb + " " + pa[k] + " }"
					fa, fb := File{Name: "m.yang", Text: a1}, File{Name: bk + ".yang", Text: b}
					emit(Input{Files: []File{fa, fb}})
					emit(Input{Files: []File{fb, fa}})
					if thorough && k%4 == 0 {
						emit(Input{Files: []File{fa, fb, fa}})
						third := File{Name: "t.yang", Text: `submodule t { belongs-to m { prefix m; } include s; ` + pa[(k+i)%len(pa)] + ` }`}
						for _, p := range explore.Perms(3) {
							fs := []File{fa, fb, third}
							emit(Input{Files: []File{fs[p[0]], fs[p[1]], fs[p[2]]}})
						}
					}
				}
			}
		}
	}
}

// ---------------------------------------------------------------------------------------------
// L5: edit neighbourhood of the seed corpus

//go:embed seeds/*.yang
var seedFS embed.FS

type T struct {
	kw, arg string
	has     bool
	subs    []*T
}

func conv(s *rfcread.RStmt) *T {
	t := &T{kw: s.Keyword, arg: s.Arg, has: s.HasArg}
	for _, c := range s.Subs {
		t.subs = append(t.subs, conv(c))
	}
	return t
}
func (t *T) render(sb *strings.Builder) {
	sb.WriteString(t.kw)
	if t.has {
		fmt.Fprintf(sb, " %q", t.arg)
	}
	if len(t.subs) == 0 {
		sb.WriteString(";\n")
		return
	}
	sb.WriteString(" {\n")
	for _, c := range t.subs {
		c.render(sb)
	}
	sb.WriteString("}\n")
}
func (t *T) clone() *T {
	n := &T{kw: t.kw, arg: t.arg, has: t.has}
	for _, c := range t.subs {
		n.subs = append(n.subs, c.clone())
	}
	return n
}
func collect(t, p *T, out *[][2]*T) {
	*out = append(*out, [2]*T{t, p})
	for _, c := range t.subs {
		collect(c, t, out)
	}
}

// seed groups: files loaded together
var seedGroups = [][]string{
	{"base.yang", "sub.yang", "other.yang", "aug.yang", "subdir1.yang"},
	{"deviate.yang"}, {"deviate-delete.yang"}, {"deviate-replace.yang"}, {"deviate-notsupported.yang"},
	{"fam-a.yang", "fam-as.yang", "fam-b.yang"},
}

var famSeeds = map[string]string{
	"fam-a.yang": `module a { namespace "urn:a"; prefix a; import b { prefix b; } include as;
  identity ia; identity ib { base ia; } identity ic { base b:ib; base ia; }
  typedef t1 { type int8 { range "1..10"; } default 3; units u; } typedef t2 { type t1 { range "2..5"; } }
  grouping g { leaf gl { type t2; } list gli { key k; leaf k { type string; } } choice gch { leaf s1 { type string; } case c2 { leaf s2 { type b:bt; } } } action act { input { leaf ai { type string; } } } }
  container top { config false; uses g; uses b:bg; leaf r { type identityref { base ia; } } leaf lr { type leafref { path "../gl"; } } leaf e { type enumeration { enum x { value -5; } enum y; } } }
  rpc op { input { uses b:bg; } }
  notification ev { leaf nl { type union { type t1; type string { pattern "a.*"; } } } }
  augment "/a:top" { leaf al { type string; } }
  augment "/b:bc" { container ac { uses g; } }
  deviation "/b:bc/b:bl" { deviate replace { default 7; type int16; } deviate add { units z; } }
}`,
	"fam-as.yang": `submodule as { belongs-to a { prefix a; } import b { prefix b; } typedef st { type b:bt; } container sc { leaf sl { type st; } uses b:bg; } augment "/a:sc" { leaf sa { type string; } } }`,
	"fam-b.yang":  `module b { namespace "urn:b"; prefix b; revision 2020-01-01; identity ib; typedef bt { type decimal64 { fraction-digits 2; range "1.5..2.5 | 3"; } } grouping bg { leaf bgl { type bt; } } container bc { leaf bl { type int8; default 1; } leaf-list bll { type string; min-elements 1; max-elements 4; } } }`,
}

func loadSeeds() map[string]*T {
	out := map[string]*T{}
	for _, g := range seedGroups {
		for _, f := range g {
			var text string
			if s, ok := famSeeds[f]; ok {
				text = s
			} else {
				b, err := seedFS.ReadFile("seeds/" + f)
				if err != nil {
					panic(err)
				}
				text = string(b)
			}
			r := rfcread.Parse(text)
			if r.Err != "" || len(r.Stmts) != 1 {
				panic("seed " + f + " does not parse: " + r.Err)
			}
			out[f] = conv(r.Stmts[0])
		}
	}
	return out
}

var l5args = []string{"x", "", "/base:base-container-1", "base:base-group", "1..5", "true", "/a:top/a:gl", "a:g", "not-supported"}

func l5shards() []string {
	var out []string
	for gi, g := range seedGroups {
		for fi := range g {
			for part := 0; part < 4; part++ {
				out = append(out, fmt.Sprintf("L5/%d/%d/%d", gi, fi, part))
			}
		}
	}
	return out
}

func l5(c *core.Ctx, gi, fi, part int, emit func(in Input)) {
	seeds := loadSeeds()
	g := seedGroups[gi]
	var nodes [][2]*T
	collect(seeds[g[fi]], nil, &nodes)
	for ni := range nodes {
		if nodes[ni][1] == nil || ni%4 != part {
			continue
		}
		if c.Expired() {
			return
		}
		mut := func(edit func(n, p *T)) {
			var files []File
			for i, f := range g {
				t := seeds[f]
				if i == fi {
					t = t.clone()
					var ns [][2]*T
					collect(t, nil, &ns)
					edit(ns[ni][0], ns[ni][1])
				}
				var sb strings.Builder
				t.render(&sb)
				files = append(files, File{Name: f, Text: sb.String()})
			}
			emit(Input{Files: files})
		}
		mut(func(n, p *T) {
			for i, x := range p.subs {
				if x == n {
					p.subs = append(p.subs[:i:i], p.subs[i+1:]...)
					break
				}
			}
		})
		mut(func(n, p *T) { p.subs = append(p.subs, n.clone()) })
		mut(func(n, p *T) { n.has = false })
		for _, k := range K {
			k := k
			mut(func(n, p *T) { n.kw = k })
		}
		for _, a := range l5args {
			a := a
			mut(func(n, p *T) { n.arg = a; n.has = true })
		}
		mut(func(n, p *T) { p.subs = append(p.subs, n.subs...); n.subs = nil })
		mut(func(n, p *T) { n.subs = append(n.subs, n.clone()) }) // the statement nested in itself
	}
}

// ---------------------------------------------------------------------------------------------

func l7(n int) [][]dump.File {
	tc, _ := scale.TypedefChain(n, 0, false)
	tcc, _ := scale.TypedefChain(n, 0, true)
	tn, _ := scale.TypedefChain(3, n, false)
	out := [][]dump.File{{scale.Deep(n)}, {tc}, {tcc}, {tn}, {scale.IdentityChain(n, false)}, {scale.IdentityChain(n, true)}, {scale.IdentityFan(n)},
		{scale.GroupingChain(n, false)}, {scale.GroupingChain(n, true)}, scale.Includes(n, false), scale.Includes(n, true), scale.ManyGroupings(n),
		{{Name: "t.yang", Text: scale.Nested(n, false)}}, {{Name: "t.yang", Text: "module m { namespace \"urn:m\"; prefix m; " + strings.Repeat("container c {", n) + strings.Repeat("}", n) + " }"}}}
	if n <= 257 {
		la, _ := scale.LongArgs(n)
		out = append(out, scale.Wide(n), scale.Imports(n), scale.ManyUses(n), scale.ManyAugments(n), scale.ManyDeviations(n), scale.ManyModuleIdentities(n),
			[]dump.File{scale.Counts(n)}, []dump.File{scale.ManyLeaves(n)}, []dump.File{la}, []dump.File{scale.UsesInOneNode(n)})
	}
	if n <= 64 {
		out = append(out, scale.AugmentLadder(n), scale.EqualNames(n), scale.ImportLadder(n, true), scale.ImportLadder(n, false))
	}
	for _, k := range []int{1, 9, 40} {
		out = append(out, []dump.File{scale.GroupingChainErrors(n, k)})
	}
	if la, _ := scale.LongArgs(8 * n); n > 257 {
		out = append(out, []dump.File{la})
	}
	return out
}

func shards(tier string) []string {
	var out []string
	for _, s := range lexspace.Shards(tier) {
		if tier == "quick" && (strings.HasPrefix(s, "L2s-tab") || strings.HasPrefix(s, "L2s-pattern")) {
			continue
		}
		out = append(out, "lex/"+s)
	}
	for hi := range headers {
		for k := range K {
			out = append(out, fmt.Sprintf("L3/%d/%d", hi, k))
		}
	}
	for i := 0; i < l4shards(); i++ {
		out = append(out, fmt.Sprintf("L4/%d", i))
	}
	out = append(out, l6shards()...)
	out = append(out, l8shards()...)
	for i := 0; i < 8; i++ {
		out = append(out, fmt.Sprintf("L7/%d", i))
	}
	return append(out, l5shards()...)
}

func run(c *core.Ctx) {
	c.Res.Bound = "L1/L2: the shared lexical spaces; L3: statement trees of <= 3 statements over 81 keywords (6 argument forms for <= 2 statements) at top level and under module/submodule headers; L4: 1-2 (thorough 3) files from a pool of self-, cross-, dangling and wrong-kind references x include/import links, both load orders; L6: 23 type bases x every ordered pair of 148 restriction statements with limit, wrap-around and malformed arguments (fraction-digits, range, length, enum value, bit position, pattern, path, base, require-instance, nested type) in a leaf, in a typedef and in a typedef narrowed twice; L7: 25 scale shapes (deep, wide, long chains open and cyclic, many imports / includes / groupings / uses / augments / deviations / leaves / identities over many modules, large counts of patterns, union members, bases, defaults, keys, musts, revisions, long arguments) at every size to 64 and around the powers of two to 512; L8: every sequence of <= 5 (6) of 16 pieces of path syntax (slashes, prefixed and bare names, . and .., keyword-like steps, whole and torn key predicates, a lone colon, blank, wildcard) through Entry.Find from the module entry and inner nodes, and of <= 3 (4) pieces as the argument of augment, deviation, leafref path, refine, uses-augment, key and unique; L5: every single-statement edit (delete, duplicate, drop argument, each of 81 keywords, 9 arguments, hoist, self-nest) of 14 seed files"
	n := 0
	emit := func(in Input) {
		caseNo, ok := c.Begin()
		if !ok && caseNo < c.Resume {
			return
		}
		c.Exec()
		c.Edge(int64(len(in.Files)))
		c.StateN(1)
		n++
		if !ok {
			c.Outcome("FAIL:" + c.Fatal(caseNo))
			c.Fail(caseNo, nil, c.Fatal(caseNo), in, "every call returns", "the worker process died on this case")
			return
		}
		c.Validate()
		failed, text, outcome := check(in)
		if failed {
			c.Outcome("FAIL:panic")
			c.Fail(caseNo, nil, "panic@"+core.LastPanicSite, in, "errors are returned", text)
			return
		}
		c.Outcome(outcome)
		if outcome == "clean" || outcome == "process-errors" {
			c.NontrivialN(1)
			if n%5000 == 13 {
				b, _ := json.Marshal(in)
				c.Sample(string(b))
			}
		}
	}
	parts := strings.Split(c.Shard, "/")
	switch parts[0] {
	case "lex":
		sp, idx := lexspace.Find(c.Tier, strings.TrimPrefix(c.Shard, "lex/"))
		lexspace.Enumerate(sp, idx, func(text string, syms int) bool {
			if c.Expired() {
				return false
			}
			emit(Input{Files: []File{mkFile("f", text)}})
			return true
		})
	case "L3":
		var hi, k int
		fmt.Sscanf(c.Shard, "L3/%d/%d", &hi, &k)
		l3(c, hi, k, hi == 0 || c.Tier == "thorough", emit)
	case "L4":
		var i int
		fmt.Sscanf(c.Shard, "L4/%d", &i)
		l4(c, i, c.Tier == "thorough", emit)
	case "L7":
		// L7: the scale shapes (deep nesting, wide containers, long typedef / identity / grouping
		// chains, open and closed into cycles, many imports, includes and groupings) at every size to
		// 64 and around the powers of two to 512
		var k int
		fmt.Sscanf(c.Shard, "L7/%d", &k)
		i := 0
		for _, n := range scale.Sizes(64, 512) {
			for _, fs := range l7(n) {
				if i++; i%8 != k {
					continue
				}
				if c.Expired() {
					return
				}
				in := Input{}
				for _, f := range fs {
					in.Files = append(in.Files, File{Name: f.Name, Text: f.Text})
				}
				emit(in)
			}
		}
	case "L6":
		var bi int
		fmt.Sscanf(c.Shard, "L6/%d", &bi)
		l6(c, bi, emit)
	case "L8":
		var first int
		fmt.Sscanf(c.Shard, "L8/%d", &first)
		l8(c, first, emit)
	case "L5":
		var gi, fi, part int
		fmt.Sscanf(c.Shard, "L5/%d/%d/%d", &gi, &fi, &part)
		l5(c, gi, fi, part, emit)
	}
}

func replay(tier string, raw json.RawMessage) (bool, string, string) {
	var in Input
	if err := json.Unmarshal(raw, &in); err != nil {
		return false, "", err.Error()
	}
	failed, text, _ := check(in)
	if failed {
		return true, "panic@" + core.LastPanicSite, text
	}
	return false, "", "every call returned"
}

func init() {
	core.Register(&core.Prop{
		ID: "C01", Variant: "plain", Shards: shards, Run: run, Replay: replay,
		Rule:        "every input of eight exhaustively enumerated layers (lexical spaces; path arguments; type bodies whose restriction arguments sit at, inside and outside the limits the resolver computes with; statement trees over the whole keyword alphabet; cross-reference programs with self-, mutual, dangling, unknown-prefix and wrong-kind references across modules and submodules in all load orders; the single-edit neighbourhood of a seed corpus) is run through yang.Parse, Modules.Parse, Process (texts with deviations, includes or uses also with the three parse options switched on), and - when processing is clean - ToEntry, GetErrors, a full guarded walk and Find with paths that exist and paths that do not, from the module entry and from inner nodes; the oracle is that every call returns: a Go panic is caught in-process, a fatal error or a hang kills the crash-isolated worker and is attributed to the case it had announced; states = distinct inputs; non-trivial = inputs that reach processing",
		Assumptions: []string{"trees are read only after a Process that returned no errors", "a case that runs longer than 40 s is a hang (cases take microseconds to milliseconds)"},
	})
}
