package c16

import (
	"encoding/json"
	"fmt"
	"regexp"
	"strings"

	"github.com/openconfig/goyang/pkg/yang"
	"verif/mc/core"
	"verif/mc/ref/rfcread"
)

// A template is a set of files written as compact YANG; faults are injected into File.
type template struct {
	name  string
	files map[string]string
	order []string
	file  string // the file faults are injected into
}

var templates = []template{
	{name: "single", file: "m.yang", order: []string{"m.yang"}, files: map[string]string{"m.yang": `module m { namespace "urn:m"; prefix m;
 typedef td { type string { length "1..5"; } }
 grouping g { leaf gl { type string; } }
 container c { description "two
      lines é"; leaf l1 { type int8 { range "1..5"; } } leaf l2 { type td; } uses g;
   list li { key k; leaf k { type 'string'; } leaf e { type enumeration { enum a; enum b { value 3; } } } leaf-list ll { type uint8; } }
   choice ch { case ca { leaf x1 { type string; } } leaf x2 { type m:td; } } }
 rpc r { input { leaf i { type string; } uses g; } output { leaf o { type int8 { range "1..5"; } } } }
 notification n { leaf nl { type td; } }
 augment "/m:c" { leaf al { type string { length "2"; } } }
}`}},
	{name: "submodule", file: "as.yang", order: []string{"a.yang", "as.yang", "b.yang"}, files: map[string]string{
		"a.yang":  `module a { namespace "urn:a"; prefix a; import b { prefix b; } include as; container top { uses b:bg; leaf q { type b:bt; } } }`,
		"as.yang": `submodule as { belongs-to a { prefix a; } import b { prefix b; } typedef st { type b:bt { range "1..3"; } } container sc { leaf sl { type st; } uses b:bg; leaf e { type enumeration { enum x { value 1; } } } } }`,
		"b.yang":  `module b { namespace "urn:b"; prefix b; typedef bt { type int16 { range "0..10"; } } grouping bg { leaf bl { type string { length "1..5"; } } } }`,
	}},
	{name: "importer", file: "a.yang", order: []string{"b.yang", "a.yang"}, files: map[string]string{
		"a.yang": `module a { namespace "urn:a"; prefix a; import b { prefix b; } container top { uses b:bg; leaf q { type b:bt { range "2..4"; } } } augment "/b:bc" { leaf z { type b:bt; } } deviation "/b:bc/b:bd" { deviate replace { type string { length "1..2"; } } } }`,
		"b.yang": `module b { namespace "urn:b"; prefix b; typedef bt { type int16 { range "0..10"; } } grouping bg { leaf bl { type string { length "1..5"; } } } container bc { leaf bd { type int8; } } }`,
	}},
}

// raw token text of a reference token
func rawTok(t rfcread.RTok) string {
	switch t.Kind {
	case 0:
		return t.Text
	case 1:
		if t.Double {
			return "\"" + t.Raw + "\""
		}
		return "'" + t.Text + "'"
	case 2:
		return ";"
	case 3:
		return "{"
	}
	return "}"
}

type tstmt struct {
	kw, arg    string
	hasArg     bool
	start, end int // token range [start,end)
	argTok     int // index of the argument token, -1 if none
	subs       []*tstmt
	parent     *tstmt
	pre        int // pre-order index
}

func parseToks(toks []string) []*tstmt {
	p := 0
	var parse func(parent *tstmt) *tstmt
	parse = func(parent *tstmt) *tstmt {
		s := &tstmt{kw: toks[p], start: p, argTok: -1, parent: parent}
		p++
		if toks[p] != ";" && toks[p] != "{" {
			s.hasArg, s.arg, s.argTok = true, toks[p], p
			p++
		}
		if toks[p] == ";" {
			p++
			s.end = p
			return s
		}
		p++ // {
		for toks[p] != "}" {
			s.subs = append(s.subs, parse(s))
		}
		p++
		s.end = p
		return s
	}
	var out []*tstmt
	for p < len(toks) {
		out = append(out, parse(nil))
	}
	return out
}

func flatten(ss []*tstmt, out *[]*tstmt) {
	for _, s := range ss {
		s.pre = len(*out)
		*out = append(*out, s)
		flatten(s.subs, out)
	}
}

const nLayouts = 8

// layout renders tokens with gaps chosen by scheme.
func layout(toks []string, scheme int) string {
	var sb strings.Builder
	depth := 0
	cyc := []string{" ", "\n", "\t", "\r\n", " /*é*/ ", " //x é\n\t", "\n\n   ", " /* a\n b */\t"}
	for i, t := range toks {
		if t == "}" {
			depth--
		}
		stmtStart := i == 0 || toks[i-1] == ";" || toks[i-1] == "{" || toks[i-1] == "}"
		gap := " "
		if i == 0 {
			gap = ""
		}
		switch scheme {
		case 0:
		case 1:
			if stmtStart && i > 0 {
				gap = "\n" + strings.Repeat("  ", depth)
			}
		case 2:
			if stmtStart && i > 0 {
				gap = "\n" + strings.Repeat("\t", depth)
			} else if i > 0 {
				gap = "\t"
			}
		case 3:
			if stmtStart && i > 0 {
				gap = "\r\n" + strings.Repeat(" ", depth)
			}
		case 4:
			if stmtStart {
				if i%2 == 0 {
					gap += "/* é ü */ "
				} else {
					gap += "// c é\n"
				}
			}
		case 5:
			if i > 0 {
				gap = "\t/*é*/\t"
			}
		case 6:
			if stmtStart {
				gap += "/* a\n b é */"
			}
			if t == ";" {
				gap = ""
			}
		case 7:
			if i > 0 {
				gap = cyc[i%len(cyc)]
			} else {
				gap = " \t"
			}
		}
		sb.WriteString(gap)
		sb.WriteString(t)
		if t == "{" {
			depth++
		}
	}
	sb.WriteString("\n")
	return sb.String()
}

type semFault struct {
	kind     string
	toks     []string
	wantPre  int // pre-order index (in the mutated token list) of the statement to be named
	wantDesc string
}

func splice(toks []string, from, to int, ins ...string) []string {
	out := append([]string{}, toks[:from]...)
	out = append(out, ins...)
	return append(out, toks[to:]...)
}

// semFaults lists every single semantic fault applicable to the token list.
func semFaults(toks []string) []semFault {
	var all []*tstmt
	flatten(parseToks(toks), &all)
	var out []semFault
	for _, s := range all {
		// (a) unknown substatement inserted right before s inside its parent
		if s.parent != nil && !strings.Contains(s.parent.kw, ":") {
			out = append(out, semFault{"unknown-substatement", splice(toks, s.start, s.start, "bogus", "zz", ";"), s.pre, "bogus zz"})
		}
		// (a') a substatement that belongs to the other kind of top-level statement
		if s.parent != nil && s.parent.kw == "module" {
			out = append(out, semFault{"foreign-field", splice(toks, s.start, s.start, "belongs-to", "zz", "{", "prefix", "zz", ";", "}"), s.pre, "belongs-to zz"})
		}
		if s.parent != nil && s.parent.kw == "submodule" {
			out = append(out, semFault{"foreign-field", splice(toks, s.start, s.start, "namespace", `"urn:zz"`, ";"), s.pre, "namespace"})
		}
		// (b) missing mandatory substatement: drop s, the parent must be named
		if s.parent != nil {
			p := s.parent
			mand := (s.kw == "type" && (p.kw == "leaf" || p.kw == "leaf-list" || p.kw == "typedef")) ||
				((s.kw == "namespace" || s.kw == "prefix") && p.kw == "module") ||
				(s.kw == "belongs-to" && p.kw == "submodule") ||
				(s.kw == "prefix" && (p.kw == "import" || p.kw == "belongs-to")) ||
				(s.kw == "deviate" && p.kw == "deviation")
			if mand {
				nt := splice(toks, s.start, s.end)
				if len(p.subs) == 1 {
					// the parent's block becomes empty: "{ }" is still well-formed
				}
				out = append(out, semFault{"missing-mandatory", nt, p.pre, p.kw + " " + p.arg})
			}
		}
		// (c..f) bad names and values: replace the argument token
		if s.argTok < 0 {
			continue
		}
		repl := func(kind, arg string, want *tstmt) {
			nt := append([]string{}, toks...)
			nt[s.argTok] = arg
			out = append(out, semFault{kind, nt, want.pre, want.kw})
		}
		switch s.kw {
		case "type":
			if s.arg != "enumeration" && s.parent != nil {
				repl("unknown-type", "nosuch", s)
				repl("unknown-type-prefixed", "nopfx:nosuch", s)
			}
		case "uses":
			repl("unknown-grouping", "nogroup", s)
		case "range":
			repl("bad-range", `"5..1"`, s)
			repl("bad-range", `"1..5000000"`, s)
		case "length":
			repl("bad-length", `"5..1"`, s)
			repl("bad-length", `"a"`, s)
		case "value":
			repl("bad-enum-value", "99999999999", s.parent)
		}
	}
	return out
}

var posRe = regexp.MustCompile(`([A-Za-z0-9_.-]+\.yang):(\d+):(\d+)`)

// SemCase is the replayable form.
type SemCase struct {
	Files   map[string]string `json:"files"`
	Order   []string          `json:"order"`
	File    string            `json:"file"`
	WantPre int               `json:"want_pre"`
	Fault   string            `json:"fault"`
}

func checkSemCase(sc SemCase) *fail {
	text := sc.Files[sc.File]
	rr := rfcread.Parse(text)
	if rr.Err != "" {
		return &fail{"harness:mutated-text-ill-formed", "", rr.Err}
	}
	var flat []*rfcread.RStmt
	var fl func(ss []*rfcread.RStmt)
	fl = func(ss []*rfcread.RStmt) {
		for _, s := range ss {
			flat = append(flat, s)
			fl(s.Subs)
		}
	}
	fl(rr.Stmts)
	starts := map[string]int{}
	for i, s := range flat {
		starts[fmt.Sprintf("%d:%d", s.Line, s.Col)] = i
	}
	if sc.WantPre >= len(flat) {
		return &fail{"harness:bad-index", "", ""}
	}
	want := flat[sc.WantPre]
	var errStrs []string
	if pan, pt := core.Guard(func() {
		ms := yang.NewModules()
		for _, fn := range sc.Order {
			if err := ms.Parse(sc.Files[fn], fn); err != nil {
				errStrs = append(errStrs, err.Error())
				return
			}
		}
		for _, e := range ms.Process() {
			errStrs = append(errStrs, e.Error())
		}
	}); pan {
		return &fail{"panic", "no panic", pt}
	}
	wantPos := fmt.Sprintf("%s:%d:%d", sc.File, want.Line, want.Col)
	if len(errStrs) == 0 {
		return &fail{sc.Fault + ":no-error", "an error at " + wantPos, "no error"}
	}
	named := false
	for _, es := range errStrs {
		for _, m := range posRe.FindAllStringSubmatch(es, -1) {
			if m[1] != sc.File {
				continue // positions in other (unmutated) files are checked by their own cases
			}
			i, ok := starts[m[2]+":"+m[3]]
			if !ok {
				return &fail{sc.Fault + ":position-not-a-statement-start", "start of a statement", es}
			}
			if i == sc.WantPre {
				named = true
			}
		}
	}
	if !named {
		return &fail{sc.Fault + ":statement-not-named", wantPos + " (" + want.Keyword + " " + want.Arg + ")", strings.Join(errStrs, " | ")}
	}
	return nil
}

func checkSem(in Input) *fail {
	var sc SemCase
	if err := json.Unmarshal([]byte(in.Text), &sc); err != nil {
		return &fail{"harness:bad-case", "", err.Error()}
	}
	return checkSemCase(sc)
}

func semShards(tier string) []string {
	var out []string
	for ti := range templates {
		for l := 0; l < nLayouts; l++ {
			out = append(out, fmt.Sprintf("sem/%d/%d", ti, l))
		}
	}
	return out
}

func runSem(c *core.Ctx) {
	var ti, l int
	fmt.Sscanf(c.Shard, "sem/%d/%d", &ti, &l)
	t := templates[ti]
	rt, e, _ := rfcread.Tokens(t.files[t.file])
	if e != "" {
		panic("template does not tokenise: " + e)
	}
	var toks []string
	for _, x := range rt {
		toks = append(toks, rawTok(x))
	}
	mk := func(tk []string, pre int, fault string) SemCase {
		files := map[string]string{}
		for k, v := range t.files {
			files[k] = v
		}
		files[t.file] = layout(tk, l)
		return SemCase{Files: files, Order: t.order, File: t.file, WantPre: pre, Fault: fault}
	}
	// conformance of the template itself: it must load and process cleanly in this layout
	{
		caseNo, run := c.Begin()
		sc := mk(toks, 0, "none")
		if c.Skip(caseNo, run, Input{Kind: "sem", Text: "template " + t.name}) {
			return
		}
		var errs []string
		core.Guard(func() {
			ms := yang.NewModules()
			for _, fn := range sc.Order {
				if err := ms.Parse(sc.Files[fn], fn); err != nil {
					errs = append(errs, err.Error())
				}
			}
			for _, e := range ms.Process() {
				errs = append(errs, e.Error())
			}
		})
		c.Exec()
		c.Edge(1)
		c.StateN(1)
		if len(errs) > 0 {
			b, _ := json.Marshal(sc)
			c.Fail(caseNo, nil, "unmutated-template-has-errors", Input{Kind: "sem", Text: string(b)}, "clean", strings.Join(errs, " | "))
			return
		}
	}
	for i, f := range semFaults(toks) {
		if c.Expired() {
			return
		}
		caseNo, run := c.Begin()
		sc := mk(f.toks, f.wantPre, f.kind)
		if bb, e := json.Marshal(sc); e == nil && c.Skip(caseNo, run, Input{Kind: "sem", Text: string(bb), Fault: f.kind}) {
			continue
		}
		c.Exec()
		c.Edge(1)
		c.StateN(1)
		c.Validate()
		c.NontrivialN(1)
		b, _ := json.Marshal(sc)
		if fl := checkSemCase(sc); fl != nil {
			c.Outcome("FAIL:" + fl.fp)
			var cl []string
			if f.kind == "foreign-field" {
				cl = append(cl, "module-or-submodule-only-substatement-in-the-other-kind")
			}
			c.Fail(caseNo, cl, fl.fp, Input{Kind: "sem", Text: string(b), Fault: f.kind, WantKeyword: f.wantDesc}, fl.exp, fl.obs)
		} else {
			c.Outcome("sem-position-right:" + f.kind)
			if i == 7 {
				c.Sample(string(b))
			}
		}
	}
}
