package c16

import (
	"fmt"
	"os"
	"path/filepath"
	"strings"

	"github.com/openconfig/goyang/pkg/yang"
	"verif/mc/core"
)

// files: the file name in a position is the name of the file the text was read from - also when
// the library found the file itself: under a dated name for a request by bare name, in a
// subdirectory below a dir/... path entry, through an import met by a processing run, through a
// symbolic link. Every statement of the module, and the error about a bad type inside it, must name
// the path that was opened.

type fileCase struct {
	Layout  string `json:"layout"`  // where the file lies
	Request string `json:"request"` // how the library is asked for it
}

var fileLayouts = []string{"plain", "dated", "two-dates", "subdirectory", "dated-in-subdirectory", "symlink", "current-directory", "current-directory-dated"}
var fileRequests = []string{"read-by-name", "import-met-by-process", "getmodule", "read-by-path"}

func checkFilesCase(fc fileCase) *fail {
	var f *fail
	pan, pt := core.Guard(func() {
		root, err := os.MkdirTemp("..", "c16-")
		if err != nil {
			panic(err)
		}
		root, _ = filepath.Abs(root)
		defer os.RemoveAll(root)
		d1 := filepath.Join(root, "d1")
		os.MkdirAll(filepath.Join(d1, "sub"), 0o755)
		os.MkdirAll(filepath.Join(root, "store"), 0o755)
		text := "module fm {\n  namespace \"urn:fm\";\n  prefix fm;\n  container c {\n    leaf good { type string; }\n\tleaf bad { type nosuch; }\n  }\n}\n"
		var actual string
		path := d1
		switch fc.Layout {
		case "plain":
			actual = filepath.Join(d1, "fm.yang")
		case "dated":
			actual = filepath.Join(d1, "fm@2021-03-04.yang")
		case "two-dates":
			os.WriteFile(filepath.Join(d1, "fm@2019-01-01.yang"), []byte("module fm { namespace \"urn:old\"; prefix fm; }\n"), 0o644)
			actual = filepath.Join(d1, "fm@2021-03-04.yang")
		case "subdirectory":
			actual = filepath.Join(d1, "sub", "fm.yang")
			path = filepath.Join(d1, "...")
		case "dated-in-subdirectory":
			actual = filepath.Join(d1, "sub", "fm@2021-03-04.yang")
			path = filepath.Join(d1, "...")
		case "symlink":
			actual = filepath.Join(d1, "fm.yang")
		case "current-directory", "current-directory-dated":
			// the file lies in the directory the process stands in (the search path holds another,
			// empty directory): it is opened under its bare name, which is what positions say
			actual = "fm.yang"
			if fc.Layout == "current-directory-dated" {
				actual = "fm@2021-03-04.yang"
			}
			path = filepath.Join(root, "store")
			wd, err := os.Getwd()
			if err != nil {
				panic(err)
			}
			if err := os.Chdir(d1); err != nil {
				panic(err)
			}
			defer os.Chdir(wd)
		}
		if fc.Layout == "symlink" {
			target := filepath.Join(root, "store", "f1")
			os.WriteFile(target, []byte(text), 0o644)
			os.Symlink(target, actual)
		} else {
			os.WriteFile(actual, []byte(text), 0o644)
		}
		ms := yang.NewModules()
		ms.AddPath(path)
		var errs []error
		switch fc.Request {
		case "read-by-name":
			if err := ms.Read("fm"); err != nil {
				f = &fail{"files:not-found", "loads " + actual, err.Error()}
				return
			}
			errs = ms.Process()
		case "read-by-path":
			if err := ms.Read(actual); err != nil {
				f = &fail{"files:not-found", "loads " + actual, err.Error()}
				return
			}
			errs = ms.Process()
		case "import-met-by-process":
			if err := ms.Parse("module user { namespace \"urn:user\"; prefix user; import fm { prefix fm; } }", "user.yang"); err != nil {
				panic(err)
			}
			errs = ms.Process()
		case "getmodule":
			_, errs = ms.GetModule("fm")
		}
		m := ms.Modules["fm"]
		if m == nil {
			f = &fail{"files:not-loaded", "module fm from " + actual, fmt.Sprint(errs)}
			return
		}
		var walk func(s *yang.Statement) string
		walk = func(s *yang.Statement) string {
			if loc := s.Location(); !strings.HasPrefix(loc, actual+":") {
				return fmt.Sprintf("statement %s %s reports %s", s.Keyword, s.Argument, loc)
			}
			for _, c := range s.SubStatements() {
				if p := walk(c); p != "" {
					return p
				}
			}
			return ""
		}
		if p := walk(m.Statement()); p != "" {
			f = &fail{"files:statement-names-another-file", "positions in " + actual, p}
			return
		}
		found := false
		for _, e := range errs {
			if strings.Contains(e.Error(), "nosuch") {
				found = true
				if !strings.HasPrefix(e.Error(), actual+":6:13:") {
					f = &fail{"files:error-names-another-file", actual + ":6:13: (the type statement)", e.Error()}
					return
				}
			}
		}
		if !found {
			f = &fail{"files:bad-type-not-reported", "an error about type nosuch", fmt.Sprint(errs)}
		}
	})
	if pan {
		return &fail{"panic@" + core.LastPanicSite, "no panic", pt}
	}
	return f
}

func runFilesShard(c *core.Ctx) {
	for _, l := range fileLayouts {
		for _, r := range fileRequests {
			if c.Expired() {
				return
			}
			fc := fileCase{l, r}
			in := Input{Kind: "files", Files: &fc}
			caseNo, run := c.Begin()
			if c.Skip(caseNo, run, in) {
				continue
			}
			c.Exec()
			c.Edge(1)
			c.StateN(1)
			c.Validate()
			c.NontrivialN(1)
			if f := checkFilesCase(fc); f != nil {
				c.Outcome("FAIL:" + f.fp)
				c.Fail(caseNo, nil, f.fp, in, f.exp, f.obs)
			} else {
				c.Outcome("file-names-true")
			}
		}
	}
}
