// Package c16 decides C16: reported source positions are the true positions.
//
//	pos/…    every accepted text of the lexical spaces: Statement.Location() of every statement
//	fault/…  every accepted template over a fault alphabet with one lexical/syntactic fault injected at
//	         every position: the first error line starts with the position of the offending token
//	sem/…    modules in hostile layouts with one semantic fault at every eligible statement
package c16

import (
	"encoding/json"
	"fmt"
	"regexp"
	"strings"

	"github.com/openconfig/goyang/pkg/yang"
	"verif/mc/core"
	"verif/mc/gen/lexspace"
	"verif/mc/gen/scale"
	"verif/mc/ref/rfcread"
)

type Input struct {
	Kind string `json:"kind"` // pos | fault | sem
	Text string `json:"text"`
	// fault / sem: what was injected and where the error must point
	Fault string `json:"fault,omitempty"`
	Want  string `json:"want,omitempty"` // "line:col"
	// fault: where the second error must point (a string with an invalid escape that also stands where
	// no string may stand: first the backslash, then the opening quote)
	Want2 string `json:"want2,omitempty"`
	// After: a text parsed in the same process immediately before Text (pair space)
	After *string `json:"after,omitempty"`
	// Files: a module the library finds itself on the search path (files.go)
	Files *fileCase `json:"files,omitempty"`
	// sem: the statement the error must name
	WantKeyword string `json:"want_keyword,omitempty"`
	WantArg     string `json:"want_arg,omitempty"`
}

type fail struct{ fp, exp, obs string }

func cmpPos(a []*rfcread.RStmt, b []*yang.Statement) string {
	if len(a) != len(b) {
		return fmt.Sprintf("%d statements vs %d", len(a), len(b))
	}
	for i := range a {
		want := fmt.Sprintf("f:%d:%d", a[i].Line, a[i].Col)
		if got := b[i].Location(); got != want {
			return fmt.Sprintf("statement %q: want %s got %s", a[i].Keyword, want, got)
		}
		if d := cmpPos(a[i].Subs, b[i].SubStatements()); d != "" {
			return d
		}
	}
	return ""
}

func checkPos(text string) (f *fail, excluded string, nstmts int) {
	return checkPosRef(rfcread.Parse(text), text)
}

func checkPosRef(r rfcread.RRes, text string) (f *fail, excluded string, nstmts int) {
	// where a tab in a continuation line straddles the column of the opening quote, what the string
	// says depends on how the tab is counted (outside C02's claim) - where the statements stand does not
	if r.Excluded != "" && r.Excluded != "tab-straddles-strip-column" && r.Excluded != "tab-reading-ambiguous" {
		return nil, r.Excluded, 0
	}
	if r.Err != "" || len(r.Stmts) == 0 {
		return nil, "", 0
	}
	var ss []*yang.Statement
	var err error
	if pan, pt := core.Guard(func() { ss, err = yang.Parse(text, "f") }); pan {
		return &fail{"panic", "no panic", pt}, "", 0
	}
	if err != nil {
		return nil, "", 0 // accept/reject agreement is C02's business
	}
	if d := cmpPos(r.Stmts, ss); d != "" {
		return &fail{"statement-position", "", d}, "", len(r.Stmts)
	}
	return nil, "", len(r.Stmts)
}

// ---------------------------------------------------------------------------------------------
// fault injection

var faultAlpha = []string{"k", " ", "\n", "\t", "\"x\"", "'y'", ";", "{", "}", "//c\n", "/*c\n*/", "é", "\"p\n q\"", "\r\n"}

func faultMax(tier string) int {
	if tier == "thorough" {
		return 6
	}
	return 5
}

type injected struct {
	fault, text, want string
	want2             string
}

var errStart = regexp.MustCompile(`(?m)^f:(\d+:\d+): `)

func isSepRune(r rune) bool {
	return r == ' ' || r == '\t' || r == '\r' || r == '\n'
}

// inject returns all single-fault variants of an accepted template.
func inject(s string) []injected {
	toks, _, _ := rfcread.Tokens(s)
	rs := []rune(s)
	off := func(line, col int) int {
		l, c := 1, 1
		for i, r := range rs {
			if l == line && c == col {
				return i
			}
			if r == '\n' {
				l++
				c = 1
			} else {
				c++
			}
		}
		return len(rs)
	}
	var out []injected
	add := func(fault, text string, line, col int) {
		out = append(out, injected{fault, text, fmt.Sprintf("%d:%d", line, col), ""})
	}
	// two errors about one token: an invalid escape inside it (the backslash), then the string itself
	// standing where none may stand (its opening quote)
	add2 := func(fault, text string, line, col, line2, col2 int) {
		out = append(out, injected{fault, text, fmt.Sprintf("%d:%d", line, col), fmt.Sprintf("%d:%d", line2, col2)})
	}
	depth := 0
	for ti, t := range toks {
		o := off(t.Line, t.Col)
		// separation needed before an injected opener that would otherwise glue to an unquoted token
		glue := o > 0 && !isSepRune(rs[o-1]) && !strings.ContainsRune(";{}\"'", rs[o-1])
		if ti > 0 && toks[ti-1].Kind != 0 {
			glue = false
		}
		// 1. stray } at depth 0 where a statement starts
		if depth == 0 && (ti == 0 || toks[ti-1].Kind == 2 || toks[ti-1].Kind == 4) {
			add("stray-brace", string(rs[:o])+"}"+string(rs[o:]), t.Line, t.Col)
		}
		// 2. ';' removed after "keyword argument": the next token is the offender
		if t.Kind == 2 && ti+1 < len(toks) && ti >= 2 {
			nt := toks[ti+1]
			prevIsArg := (toks[ti-1].Kind == 0 || toks[ti-1].Kind == 1) && toks[ti-2].Kind == 0 && (ti-2 == 0 || toks[ti-3].Kind >= 2)
			if prevIsArg && nt.Kind != 3 && nt.Kind != 2 && !(nt.Kind == 0 && nt.Text == "+") {
				add("missing-semicolon", string(rs[:o])+" "+string(rs[o+1:]), nt.Line, nt.Col)
			}
		}
		// 3. a quoted string where a keyword must stand (also one that spans lines: the position is
		// that of its opening quote)
		if t.Kind == 0 && (ti == 0 || toks[ti-1].Kind >= 2) {
			rest := string(rs[o+len([]rune(t.Text)):])
			add("quoted-keyword", string(rs[:o])+"\""+t.Text+"\""+rest, t.Line, t.Col)
			add("quoted-keyword-multiline", string(rs[:o])+"\""+t.Text+"\n é\""+rest, t.Line, t.Col)
			add("quoted-keyword-multiline", string(rs[:o])+"'"+t.Text+"\n\n'"+rest, t.Line, t.Col)
			// ... written in pieces joined by +, one piece per line: still the first opening quote
			add("quoted-keyword-concatenated", string(rs[:o])+"\""+t.Text+"\" +\n  'x' + \"y\""+rest, t.Line, t.Col)
			add("quoted-keyword-concatenated", string(rs[:o])+"'"+t.Text+"'+\"z\""+rest, t.Line, t.Col)
			tl := len([]rune(t.Text))
			add2("quoted-keyword-with-bad-escape", string(rs[:o])+"\""+t.Text+"\\q\""+rest, t.Line, t.Col+1+tl, t.Line, t.Col)
			add2("quoted-keyword-with-bad-escape", string(rs[:o])+"\""+t.Text+"\n \\qé\""+rest, t.Line+1, 2, t.Line, t.Col)
			add2("quoted-keyword-with-bad-escape", string(rs[:o])+"'x' + \"\\é\n\""+rest, t.Line, t.Col+7, t.Line, t.Col)
		}
		// 3b. a (multi-line) quoted string where ';' or '{' is expected: after "keyword argument"
		if t.Kind == 2 && ti >= 2 && (toks[ti-1].Kind == 0 || toks[ti-1].Kind == 1) && toks[ti-2].Kind == 0 && (ti-2 == 0 || toks[ti-3].Kind >= 2) {
			// the inserted string stands right where the ';' stood, separated by a blank
			add("string-instead-of-terminator", string(rs[:o])+" \"z\n z\""+string(rs[o:]), t.Line, t.Col+1)
			add("string-instead-of-terminator", string(rs[:o])+" 'z\n\tz' "+string(rs[o:]), t.Line, t.Col+1)
			add("concatenated-string-instead-of-terminator", string(rs[:o])+" \"z\" +\n 'y'\n+ \"x\" "+string(rs[o:]), t.Line, t.Col+1)
			// (not behind the argument of a pattern statement: the reader looks ahead for a + while it
			// still reads escapes the pattern way, so the escape is not an error of its own there)
			if toks[ti-2].Text != "pattern" {
				add2("string-with-bad-escape-instead-of-terminator", string(rs[:o])+" \"z\\q\" "+string(rs[o:]), t.Line, t.Col+3, t.Line, t.Col+1)
				add2("string-with-bad-escape-instead-of-terminator", string(rs[:o])+" \"z\n  \\qz\" "+string(rs[o:]), t.Line+1, 3, t.Line, t.Col+1)
			}
		}
		if t.Kind == 1 && t.Double && !(ti > 0 && toks[ti-1].Kind == 0 && toks[ti-1].Text == "pattern") {
			// 4. invalid escape right after the opening quote (not in the argument of a pattern
			// statement, where unknown escapes are kept)
			for _, e := range []string{"\\q", "\\é", "\\\n", "\\ "} {
				add("bad-escape", string(rs[:o+1])+e+string(rs[o+1:]), t.Line, t.Col+1)
			}
			// 5. unterminated string
			add("unterminated-dq", string(rs[:o+1])+"zz", t.Line, t.Col)
		}
		if t.Kind == 1 && !t.Double {
			add("unterminated-sq", string(rs[:o+1])+"zz", t.Line, t.Col)
		}
		// 6. unterminated comment in place of this token and everything after it
		if glue {
			add("unterminated-comment", string(rs[:o])+" /* zz", t.Line, t.Col+1)
		} else {
			add("unterminated-comment", string(rs[:o])+"/* zz", t.Line, t.Col)
		}
		if t.Kind == 3 {
			depth++
		}
		if t.Kind == 4 {
			depth--
		}
	}
	return out
}

func checkFault(in injected) *fail {
	var err error
	if pan, pt := core.Guard(func() { _, err = yang.Parse(in.text, "f") }); pan {
		return &fail{"panic", "no panic", pt}
	}
	if err == nil {
		return &fail{in.fault + ":accepted", "error at f:" + in.want, "accepted"}
	}
	first := strings.SplitN(err.Error(), "\n", 2)[0]
	if !strings.HasPrefix(first, "f:"+in.want+":") {
		return &fail{in.fault + ":position", "f:" + in.want + ":", first}
	}
	if in.want2 != "" {
		// the second error (whatever its text) is about the string token itself
		starts := errStart.FindAllStringSubmatch(err.Error(), -1)
		if len(starts) < 2 {
			return &fail{in.fault + ":second-error-missing", "a second error at f:" + in.want2, err.Error()}
		}
		if starts[1][1] != in.want2 {
			return &fail{in.fault + ":position-of-second-error", "f:" + in.want2 + ":", err.Error()}
		}
	}
	return nil
}

func shards(tier string) []string {
	var out []string
	for _, s := range lexspace.Shards(tier) {
		out = append(out, "pos/"+s)
	}
	for i := range faultAlpha {
		for j := range faultAlpha {
			out = append(out, fmt.Sprintf("fault/%d/%d", i, j))
		}
	}
	out = append(out, semShards(tier)...)
	for k := 0; k < 4; k++ {
		out = append(out, fmt.Sprintf("long/%d", k))
	}
	for k := 0; k < 16; k++ {
		out = append(out, fmt.Sprintf("after/%d", k))
	}
	return append(out, "cli", "files")
}

// runAfter: the pair space of C02 for positions. After every first text, the statements of every
// second text stand where they stand when it is read on its own, and the faults injected into a few
// templates are reported where they are.
func runAfter(c *core.Ctx) {
	var shard int
	fmt.Sscanf(c.Shard, "after/%d", &shard)
	first, second := lexspace.PairPool(c.Tier)
	refs := make([]rfcread.RRes, len(second))
	for i, t := range second {
		refs[i] = rfcread.Parse(t)
	}
	var faults []injected
	for _, tpl := range []string{"k a;", "  k \"x\";", "k a { l b; }", "\tk 'y' {\n\tl \"p\n q\";\n}", "é é; k \"é\" + 'é';"} {
		for _, in := range inject(tpl) {
			if rr := rfcread.Parse(in.text); rr.Excluded == "" {
				faults = append(faults, in)
			}
		}
	}
	for i, t1 := range first {
		if i%16 != shard {
			continue
		}
		if c.Expired() {
			return
		}
		t1 := t1
		for j, t2 := range second {
			if refs[j].Excluded != "" || refs[j].Err != "" || len(refs[j].Stmts) == 0 {
				continue
			}
			in := Input{Kind: "pos", Text: t2, After: &t1}
			caseNo, run := c.Begin()
			if c.Skip(caseNo, run, in) {
				continue
			}
			c.Exec()
			c.Edge(2)
			c.StateN(1)
			c.Validate()
			c.NontrivialN(1)
			core.Guard(func() { yang.Parse(t1, "f") })
			if f, _, _ := checkPosRef(refs[j], t2); f != nil {
				c.Outcome("FAIL:after:" + f.fp)
				c.Fail(caseNo, nil, "after:"+f.fp, in, f.exp, f.obs)
			} else {
				c.Outcome("second-of-pair:positions-equal")
			}
		}
		for _, inj := range faults {
			in := Input{Kind: "fault", Text: inj.text, Fault: inj.fault, Want: inj.want, Want2: inj.want2, After: &t1}
			caseNo, run := c.Begin()
			if c.Skip(caseNo, run, in) {
				continue
			}
			c.Exec()
			c.Edge(2)
			c.StateN(1)
			c.Validate()
			c.NontrivialN(1)
			core.Guard(func() { yang.Parse(t1, "f") })
			if f := checkFault(inj); f != nil {
				c.Outcome("FAIL:after:" + f.fp)
				c.Fail(caseNo, nil, "after:"+f.fp, in, f.exp, f.obs)
			} else {
				c.Outcome("second-of-pair:fault-position-right")
			}
		}
	}
}

// longTexts: one-line texts in which a token, a quoted string, a concatenation or a comment runs for
// n characters (plain letters and blanks, with a two-byte and a three-byte character at the start, in
// the middle or at the end of the run, or none) and further statements follow on the same line.
func longTexts(n int) []string {
	var out []string
	for _, mb := range []int{-1, 1, n / 2, n - 1} {
		rs := make([]rune, n)
		for i := range rs {
			rs[i] = rune("abc defg"[i%8])
		}
		rs[0] = 'z'
		if mb >= 0 && mb < n {
			rs[mb] = 'é'
			if mb+2 < n {
				rs[mb+2] = '€'
			}
		}
		run := string(rs)
		if mb == -1 {
			la, _ := scale.LongArgs(n)
			out = append(out, la.Text)
			if n%16 == 0 {
				out = append(out, scale.Counts(n/4).Text)
			}
		}
		tok := strings.ReplaceAll(run, " ", "_")
		out = append(out,
			`k "`+run+`"; q r; s "t" { u v; }`,
			`k '`+run+`' + "`+run+`" ; q r;`,
			tok+` a; q r; `+tok+` { u v; }`,
			`k /* `+run+` */ "x"; q r; // `+run,
			`k "`+run+"\n   "+run+`"; q r;`,
			"\tk \"a"+run+"\"\t; q r { s t; }",
		)
	}
	return out
}

func run(c *core.Ctx) {
	c.Res.Bound = "pos: the C02 lexical spaces; fault: templates of <= 5 (thorough 6) pieces of 14 x every single-fault injection; long: one-line texts whose token, string, concatenation or comment runs for 1..160 characters with multi-byte characters at the start, middle, end or nowhere, positions of the following statements and of every injected fault; sem: module templates x layouts x every eligible statement x 7 fault kinds"
	switch {
	case strings.HasPrefix(c.Shard, "after/"):
		runAfter(c)
	case strings.HasPrefix(c.Shard, "pos/"):
		sp, idx := lexspace.Find(c.Tier, strings.TrimPrefix(c.Shard, "pos/"))
		n := 0
		lexspace.Enumerate(sp, idx, func(text string, syms int) bool {
			if c.Expired() {
				return false
			}
			caseNo, run := c.Begin()
			if c.Skip(caseNo, run, Input{Kind: "pos", Text: text}) {
				return true
			}
			c.Exec()
			c.Edge(1)
			c.StateN(1)
			f, excl, ns := checkPos(text)
			if excl != "" {
				c.Exclude()
				c.Outcome("excluded")
				return true
			}
			if ns == 0 && f == nil {
				c.Outcome("no-statements")
				return true
			}
			c.Validate()
			c.NontrivialN(1)
			n++
			if f != nil {
				c.Outcome("FAIL:" + f.fp)
				c.Fail(caseNo, nil, f.fp, Input{Kind: "pos", Text: text}, f.exp, f.obs)
				return true
			}
			c.Outcome("positions-equal")
			if n%20000 == 99 {
				b, _ := json.Marshal(Input{Kind: "pos", Text: text})
				c.Sample(string(b))
			}
			return true
		})
	case strings.HasPrefix(c.Shard, "long/"):
		var k int
		fmt.Sscanf(c.Shard, "long/%d", &k)
		for n := 1; n <= 160; n++ {
			if n%4 != k {
				continue
			}
			for _, text := range longTexts(n) {
				if c.Expired() {
					return
				}
				caseNo, run := c.Begin()
				if c.Skip(caseNo, run, Input{Kind: "pos", Text: text}) {
					continue
				}
				c.Exec()
				c.Edge(1)
				c.StateN(1)
				f, excl, _ := checkPos(text)
				if excl != "" {
					c.Exclude()
					c.Outcome("excluded")
					continue
				}
				c.Validate()
				c.NontrivialN(1)
				if f != nil {
					c.Outcome("FAIL:" + f.fp)
					c.Fail(caseNo, nil, "long:"+f.fp, Input{Kind: "pos", Text: text}, f.exp, f.obs)
					continue
				}
				c.Outcome("positions-equal")
				for _, inj := range inject(text) {
					caseNo, run := c.Begin()
					in := Input{Kind: "fault", Text: inj.text, Fault: inj.fault, Want: inj.want, Want2: inj.want2}
					if c.Skip(caseNo, run, in) {
						continue
					}
					c.Exec()
					c.Edge(1)
					c.StateN(1)
					c.Validate()
					if f := checkFault(inj); f != nil {
						c.Outcome("FAIL:" + f.fp)
						c.Fail(caseNo, nil, "long:"+f.fp, in, f.exp, f.obs)
					} else {
						c.Outcome("fault-position-exact:" + inj.fault)
					}
				}
			}
		}
	case strings.HasPrefix(c.Shard, "fault/"):
		var i, j int
		fmt.Sscanf(c.Shard, "fault/%d/%d", &i, &j)
		max := faultMax(c.Tier)
		n := 0
		var rec func(s string, d int)
		rec = func(s string, d int) {
			if c.Expired() {
				return
			}
			if r := rfcread.Parse(s); r.Err == "" && r.Excluded == "" && len(r.Stmts) > 0 {
				caseNo, run := c.Begin()
				if c.Skip(caseNo, run, Input{Kind: "fault", Text: s, Fault: "template"}) {
					run = false
				}
				c.StateN(1)
				for _, in := range inject(s) {
					if !run {
						break
					}
					c.Exec()
					c.Edge(1)
					// the mutated text itself must stay inside the claim
					if rr := rfcread.Parse(in.text); rr.Excluded != "" {
						c.Exclude()
						continue
					}
					c.Validate()
					c.NontrivialN(1)
					n++
					if f := checkFault(in); f != nil {
						c.Outcome("FAIL:" + f.fp)
						c.Fail(caseNo, nil, f.fp, Input{Kind: "fault", Text: in.text, Fault: in.fault, Want: in.want, Want2: in.want2}, f.exp, f.obs)
					} else {
						c.Outcome("fault-position-right:" + in.fault)
						if n%3000 == 77 {
							b, _ := json.Marshal(Input{Kind: "fault", Text: in.text, Fault: in.fault, Want: in.want, Want2: in.want2})
							c.Sample(string(b))
						}
					}
				}
			}
			if d == max {
				return
			}
			for _, a := range faultAlpha {
				rec(s+a, d+1)
			}
		}
		if i == 0 && j == 0 {
			for _, a := range faultAlpha { // templates of a single piece
				if r := rfcread.Parse(a); r.Err == "" && len(r.Stmts) > 0 {
					rec(a, max)
				}
			}
		}
		rec(faultAlpha[i]+faultAlpha[j], 2)
	case strings.HasPrefix(c.Shard, "sem/"):
		runSem(c)
	case c.Shard == "cli":
		runCLI(c)
	case c.Shard == "files":
		runFilesShard(c)
	}
}

func replay(tier string, raw json.RawMessage) (bool, string, string) {
	var in Input
	if err := json.Unmarshal(raw, &in); err != nil {
		return false, "", err.Error()
	}
	var f *fail
	if in.After != nil {
		core.Guard(func() { yang.Parse(*in.After, "f") })
	}
	switch in.Kind {
	case "pos":
		f, _, _ = checkPos(in.Text)
	case "fault":
		f = checkFault(injected{in.Fault, in.Text, in.Want, in.Want2})
	case "sem":
		f = checkSem(in)
	case "cli":
		f = checkCLI(in.Text)
	case "files":
		f = checkFilesCase(*in.Files)
	}
	if f == nil {
		return false, "", "positions agree"
	}
	if in.After != nil {
		f.fp = "after:" + f.fp
	}
	return true, f.fp, fmt.Sprintf("expected %s observed %s", f.exp, f.obs)
}

func init() {
	core.Register(&core.Prop{
		ID: "C16", Variant: "plain", Shards: shards, Run: run, Replay: replay,
		Rule:        "pos: every text of the C02 lexical spaces that the reference reader accepts with at least one statement - Location() of every statement must be file:line:col of the first character of its keyword as computed by the reference reader (1-based, columns in characters); fault: every accepted template over a 14-piece alphabet (tabs, CR LF, multi-byte runes, comments, multi-line strings) with one fault injected at every applicable token (stray }, removed ;, quoted keyword, four invalid escapes, unterminated \", ', /*) - the first error line must start with the position of the offending token / backslash / opener (a string with an invalid escape standing where no string may stand: first the backslash, then the opening quote); after: every text of the first pool of the pair space (short texts, texts that end abruptly at some column) is parsed, then every accepted text of the second pool and the faults injected into five templates, whose positions must be those they have on their own; sem: module templates re-laid-out in hostile layouts with one semantic fault (unknown substatement, missing mandatory substatement, unknown type, unknown grouping, bad range, bad length, bad enum value) at every eligible statement - every file:line:col in any error must be the start of a statement and the statement the property names must be named; files: a module the library finds itself (under a dated name, in a subdirectory below a dir/... entry, through a symbolic link; asked for by name, by path, through an import met by a processing run, through GetModule) - every statement and the error about a bad type name the path that was opened; cli: the goyang command fed 6 texts behind 10 leading layouts on standard input - the positions in its error messages and in its --types_debug listing are those the library reports for the identical text; states = distinct templates/texts; non-trivial = compared cases",
		Assumptions: []string{"the reference reader's positions are the true positions", "for cascading lexical faults only the first reported error line is compared", "missing-closing-brace and unexpected-EOF reports are outside the claim"},
	})
}
