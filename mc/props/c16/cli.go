package c16

import (
	"bytes"
	"fmt"
	"os"
	"os/exec"
	"regexp"
	"sort"
	"strings"

	"github.com/openconfig/goyang/pkg/yang"
	"verif/mc/core"
)

// cli: the goyang command fed on standard input. Every position it prints - in error messages, and
// for every leaf with --format types --types_debug - must be the position the library reports for
// the identical text loaded under the name <STDIN>: every text of a small set (a syntax error, an
// unknown statement, unknown types and a bad range in two places, a clean module) behind every
// leading layout (nothing, blank lines, CR LF, blanks, a tab, a comment, blank lines and blanks).

var cliLeads = []string{"", "\n", "\n\n\n", "\r\n", "  ", "\t", "// c\n", "/* c\n */ ", " \n  \n\t", "\n  "}

var cliTexts = []string{
	"module a {\n  namespace \"urn:a\";\n  prefix a;\n  leaf x { type nosuch; }\n leaf y { type int8 { range \"5..1\"; } }\n}\n",
	"module a { namespace \"urn:a\"; prefix a; leaf x { type string; } leaf é { type a:nosuch; } }",
	"module a {\n  namespace \"urn:a\";\n  prefix a;\n  bogus z;\n}\n",
	"module a {\n  namespace \"urn:a\"\n  prefix a;\n}\n",
	"module a {\n  namespace \"urn:a\";\n  prefix a;\n  leaf x { type string; }\n\tcontainer c { leaf y { type int8; } }\n}\n",
	"module a { namespace \"urn:a\"; prefix a; leaf x { type string { pattern \"\\q\"; } } }",
}

var posRE = regexp.MustCompile(`<STDIN>:\d+:\d+`)

func positions(s string) string {
	ps := posRE.FindAllString(s, -1)
	sort.Strings(ps)
	return strings.Join(ps, " ")
}

func checkCLI(text string) *fail {
	cli := os.Getenv("VERIF_CLI")
	if cli == "" {
		panic("VERIF_CLI not set")
	}
	// what the library says about the text
	var want []string
	ms := yang.NewModules()
	clean := false
	if err := ms.Parse(text, "<STDIN>"); err != nil {
		want = append(want, err.Error())
	} else if errs := ms.Process(); len(errs) > 0 {
		for _, e := range errs {
			want = append(want, e.Error())
		}
	} else {
		clean = true
	}
	run := func(args ...string) (string, string) {
		cmd := exec.Command(cli, args...)
		cmd.Stdin = strings.NewReader(text)
		var out, errb bytes.Buffer
		cmd.Stdout, cmd.Stderr = &out, &errb
		cmd.Run()
		return out.String(), errb.String()
	}
	_, stderr := run()
	if got, exp := positions(stderr), positions(strings.Join(want, "\n")); got != exp {
		return &fail{"command-on-standard-input-reports-other-positions", exp, got + "\n" + stderr}
	}
	if clean {
		// the debug listing of the types names the position of every leaf
		stdout, _ := run("--format", "types", "--types_debug")
		var leaves []string
		var walk func(e *yang.Entry)
		walk = func(e *yang.Entry) {
			if e.Kind == yang.LeafEntry && e.Node != nil && e.Node.Statement() != nil {
				leaves = append(leaves, e.Node.Statement().Location())
			}
			var ks []string
			for k := range e.Dir {
				ks = append(ks, k)
			}
			sort.Strings(ks)
			for _, k := range ks {
				walk(e.Dir[k])
			}
		}
		walk(yang.ToEntry(ms.Modules["a"]))
		sort.Strings(leaves)
		if got, exp := positions(stdout), strings.Join(leaves, " "); got != exp {
			return &fail{"command-on-standard-input-reports-other-positions:types-debug", exp, got + "\n" + stdout}
		}
	}
	return nil
}

func runCLI(c *core.Ctx) {
	for _, lead := range cliLeads {
		for _, t := range cliTexts {
			if c.Expired() {
				return
			}
			in := Input{Kind: "cli", Text: lead + t}
			caseNo, run := c.Begin()
			if c.Skip(caseNo, run, in) {
				continue
			}
			c.Exec()
			c.Validate()
			c.Edge(1)
			c.StateN(1)
			c.NontrivialN(1)
			if f := checkCLI(in.Text); f != nil {
				c.Outcome("FAIL:" + f.fp)
				c.Fail(caseNo, nil, f.fp, in, f.exp, f.obs)
			} else {
				c.Outcome("command-positions-true")
			}
		}
	}
	_ = fmt.Sprint
}
