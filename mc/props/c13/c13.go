// Package c13 decides C13: names bind to the right module revision; the file chooser picks the
// right candidate; submodules merge into their owner.
//
//	rev/…    every load sequence (<= 3, thorough 4, repeats allowed) of header variants of one module
//	         name with different revision lists, observed through the registry keys and through
//	         dated / undated imports and includes; all orders of one multiset must agree
//	file/…   every layout of candidate and near-miss file names over the current directory and two
//	         search-path directories (real files), for three requests
//	split/…  every partition of a module body into main + two submodules with every pattern of
//	         cross-includes that keeps references resolvable: the split module must dump like the
//	         unsplit one
package c13

import (
	"encoding/json"
	"fmt"
	"os"
	"path/filepath"
	"sort"
	"strings"

	"github.com/openconfig/goyang/pkg/yang"
	"verif/mc/core"
	"verif/mc/dump"
	"verif/mc/props/scalekit"
)

type fail struct {
	fp, exp, obs string
	classes      []string
}

// ---------------------------------------------------------------------------------------------
// (a) revision registry

type hdr struct {
	id   string
	revs []string
}

func (h hdr) latest() string {
	l := ""
	for _, r := range h.revs {
		if r > l {
			l = r
		}
	}
	return l
}

func (h hdr) text(sub bool) string {
	var sb strings.Builder
	if sub {
		sb.WriteString(`submodule a { belongs-to o { prefix o; }`)
	} else {
		sb.WriteString(`module a { namespace "urn:a"; prefix a; import dep { prefix dep; }`)
	}
	for _, r := range h.revs {
		fmt.Fprintf(&sb, " revision %s;", r)
	}
	fmt.Fprintf(&sb, ` description "%s"; }`, h.id)
	return sb.String()
}

// the three revision dates r1 < r2 < r3, in several relations to each other: years apart; one year,
// months apart (month and day digits swapped between two of them); one month, days apart; across
// the turn of a year; differing in the last digit only
var dateSets = [][3]string{
	{"2020-01-01", "2021-06-30", "2022-01-01"},
	{"2020-02-10", "2020-10-02", "2020-10-03"},
	{"2021-06-04", "2021-06-19", "2021-06-20"},
	{"2019-12-31", "2020-01-01", "2020-01-02"},
	{"2020-09-09", "2020-09-10", "2020-10-09"},
}

var (
	r1, r2, r3  string
	hdrs        []hdr
	importDates []string
	curDates    = -1
)

func setDates(k int) {
	if k == curDates {
		return
	}
	curDates = k
	r1, r2, r3 = dateSets[k][0], dateSets[k][1], dateSets[k][2]
	hdrs = []hdr{{"none", nil}, {"r1", []string{r1}}, {"r2", []string{r2}}, {"r2r1", []string{r2, r1}}, {"r1r2", []string{r1, r2}}, {"r3r2", []string{r3, r2}}, {"r1b", []string{r1}}}
	importDates = []string{"", r1, r2, r3, "2019-01-01"}
}

func init() { setDates(0) }

type RevInput struct {
	Sub bool  `json:"submodule"` // the headers are submodules bound through include instead of modules bound through import
	Seq []int `json:"seq"`       // indexes into the header pool
	// Dates: which triple of revision dates r1 < r2 < r3 stands behind the pool (dateSets)
	Dates int `json:"dates,omitempty"`
}

// revObserve loads the sequence and returns accept/reject per load, the registry and the bindings.
func revObserve(in RevInput) (acc []bool, keys map[string]string, bind map[string]string) {
	setDates(in.Dates)
	load := func(ms *yang.Modules) []bool {
		var a []bool
		for n, i := range in.Seq {
			err := ms.Parse(hdrs[i].text(in.Sub), fmt.Sprintf("%s-%d.yang", hdrs[i].id, n))
			a = append(a, err == nil)
		}
		return a
	}
	ms := yang.NewModules()
	acc = load(ms)
	keys = map[string]string{}
	reg := ms.Modules
	if in.Sub {
		reg = ms.SubModules
	}
	for k, m := range reg {
		d := "?"
		if m.Description != nil {
			d = m.Description.Name
		}
		keys[k] = d
	}
	bind = map[string]string{}
	for _, rd := range importDates {
		m2 := yang.NewModules()
		load(m2)
		m2.Parse(`module dep { namespace "urn:dep"; prefix dep; }`, "dep.yang")
		var user string
		date := ""
		if rd != "" {
			date = " revision-date " + rd + ";"
		}
		if in.Sub {
			user = `module o { namespace "urn:o"; prefix o; include a {` + date + ` } }`
		} else {
			user = `module o { namespace "urn:o"; prefix o; import a { prefix a;` + date + ` } }`
		}
		if err := m2.Parse(user, "o.yang"); err != nil {
			bind[rd] = "LOAD-ERR"
			continue
		}
		errs := m2.Process()
		got := "ERR"
		if len(errs) == 0 && !in.Sub {
			// every loaded revision has its own imports bound, not only the latest one
			for k, m := range m2.Modules {
				for _, im := range m.Import {
					if im.Module == nil {
						bind[rd] = "UNBOUND-IMPORT-IN-" + k
					}
				}
			}
			if strings.HasPrefix(bind[rd], "UNBOUND") {
				continue
			}
		}
		if len(errs) == 0 {
			var tm *yang.Module
			if in.Sub {
				tm = m2.Modules["o"].Include[0].Module
			} else {
				tm = m2.Modules["o"].Import[0].Module
			}
			if tm != nil && tm.Description != nil {
				got = tm.Description.Name
			} else {
				got = "nil"
			}
		}
		bind[rd] = got
	}
	return
}

func fmtMap(m map[string]string) string {
	var ks []string
	for k := range m {
		ks = append(ks, k)
	}
	sort.Strings(ks)
	var sb strings.Builder
	for _, k := range ks {
		fmt.Fprintf(&sb, "%q->%s ", k, m[k])
	}
	return sb.String()
}

func checkRev(in RevInput) *fail {
	setDates(in.Dates)
	var f *fail
	pan, pt := core.Guard(func() {
		// reference: a load is rejected iff the same latest revision of the name is already loaded
		accepted := map[string]string{} // latest revision -> id
		var want []bool
		unrevAfterRev := false
		for _, i := range in.Seq {
			l := hdrs[i].latest()
			if _, dup := accepted[l]; dup {
				want = append(want, false)
				continue
			}
			if l == "" && len(accepted) > 0 {
				unrevAfterRev = true
			}
			accepted[l] = hdrs[i].id
			want = append(want, true)
		}
		best := ""
		for l := range accepted {
			if l >= best {
				best = l
			}
		}
		var cl []string
		if unrevAfterRev {
			cl = append(cl, "unrevisioned-after-revisioned")
		}
		acc, keys, bind := revObserve(in)
		if fmt.Sprint(acc) != fmt.Sprint(want) {
			f = &fail{"load-verdict", fmt.Sprint(want), fmt.Sprint(acc), cl}
			return
		}
		if keys["a"] != accepted[best] {
			f = &fail{"bare-name-not-latest", accepted[best], fmtMap(keys), cl}
			return
		}
		for l, id := range accepted {
			if l != "" && keys["a@"+l] != id {
				f = &fail{"dated-key-wrong", "a@" + l + " -> " + id, fmtMap(keys), cl}
				return
			}
		}
		for _, rd := range importDates {
			if strings.HasPrefix(bind[rd], "UNBOUND") {
				f = &fail{"import-of-a-loaded-revision-left-unbound", "every loaded revision has its imports bound after Process", bind[rd], cl}
				return
			}
			wantB := ""
			switch {
			case rd == "":
				wantB = accepted[best]
			default:
				wantB = accepted[rd] // "" when that revision is not loaded: the statement is silent then
			}
			if wantB != "" && bind[rd] != wantB {
				f = &fail{"binding-wrong", fmt.Sprintf("revision-date %q -> %s", rd, wantB), fmtMap(bind), cl}
				return
			}
		}
	})
	if pan {
		return &fail{"panic@" + core.LastPanicSite, "no panic", pt, nil}
	}
	return f
}

// ---------------------------------------------------------------------------------------------
// (b) file chooser

var fileNames = []string{"a.yang", "a@2020-01-01.yang", "a@2021-06-30.yang", "ab.yang", "ab@2022-01-01.yang", "a@bad.yang", "a@2022-1-1.yang", "a@2020-01-01.yang.bak", "xa.yang", "a@2023-01-01.yang.yang", "a@20230101.yang"}

type FileInput struct {
	Dirs    [][]string `json:"dirs"`    // file names present in ".", path dir 1, path dir 2
	Request string     `json:"request"` // name handed to Modules.Read
	// Stem: the module name that stands where the file names say "a" ("" = a): the same layouts with
	// module names that contain a dot, a dash, an underscore, or are written in upper case.
	Stem string `json:"stem,omitempty"`
	// Links: the files in the search-path directories are symbolic links to files kept elsewhere
	Links bool `json:"links,omitempty"`
	// Sub: files in a subdirectory (named SubName) of the first search-path directory. A plain path
	// entry must not look into it; an entry written dir/... searches dir and everything below it.
	Sub     []string `json:"sub,omitempty"`
	SubName string   `json:"sub_name,omitempty"`
}

var fileStems = []string{"", "a.b", "a-b", "a_", "A", "a.yang.b"}

// nearMiss spells a module name that a careless comparison takes for stem: 1 - every '.', '-' and
// '_' replaced by another of the three (a name without any gets a '_' appended), 2 - the case of
// every letter swapped.
func nearMiss(stem string, k int) string {
	if stem == "" {
		stem = "a"
	}
	if k == 2 {
		return strings.Map(func(r rune) rune {
			switch {
			case r >= 'a' && r <= 'z':
				return r - 32
			case r >= 'A' && r <= 'Z':
				return r + 32
			}
			return r
		}, stem)
	}
	out := strings.Map(func(r rune) rune {
		switch r {
		case '.':
			return '_'
		case '-':
			return '.'
		case '_':
			return '-'
		}
		return r
	}, stem)
	if out == stem {
		out += "_"
	}
	return out
}

// actual maps a canonical name (file name or request) to the one used on disk.
func (in FileInput) actual(fn string) string {
	switch {
	case strings.HasPrefix(fn, "NM1"):
		return nearMiss(in.Stem, 1) + fn[3:]
	case strings.HasPrefix(fn, "NM2"):
		return nearMiss(in.Stem, 2) + fn[3:]
	case in.Stem == "":
		return fn
	case strings.HasPrefix(fn, "xa"):
		return "x" + in.Stem + fn[2:]
	}
	return in.Stem + fn[1:]
}

func (in FileInput) actualDirs() [][]string {
	out := make([][]string, len(in.Dirs))
	for i, d := range in.Dirs {
		for _, fn := range d {
			out[i] = append(out[i], in.actual(fn))
		}
	}
	return out
}

func fileContent(dir int, name, stem string) string {
	if stem == "" {
		stem = "a"
	}
	mod := stem
	if strings.HasPrefix(name, stem+"b") {
		mod = stem + "b"
	}
	if !strings.HasPrefix(name, stem) {
		mod = "other" // a near-miss file declares a module of another name
	}
	return fmt.Sprintf(`module %s { namespace "urn:%s"; prefix %s; description "d%d/%s"; }`, mod, mod, mod, dir, name)
}

func dated(fn, mod string) (string, bool) {
	if !strings.HasPrefix(fn, mod+"@") || !strings.HasSuffix(fn, ".yang") {
		return "", false
	}
	d := strings.TrimSuffix(strings.TrimPrefix(fn, mod+"@"), ".yang")
	if len(d) != 10 || d[4] != '-' || d[7] != '-' {
		return "", false
	}
	for i, c := range d {
		if i != 4 && i != 7 && (c < '0' || c > '9') {
			return "", false
		}
	}
	return d, true
}

// choose is the reference: first directory holding a candidate; name.yang else the latest date.
func choose(dirs [][]string, request string) string {
	for di, files := range dirs {
		exact, best, bestDate := "", "", ""
		for _, fn := range files {
			if fn == request+".yang" {
				exact = fn
			}
			if d, ok := dated(fn, request); ok && d > bestDate {
				best, bestDate = fn, d
			}
		}
		if exact != "" {
			return fmt.Sprintf("d%d/%s", di, exact)
		}
		if best != "" {
			return fmt.Sprintf("d%d/%s", di, best)
		}
	}
	return ""
}

// bestOf is the reference for one directory: name.yang, else the latest date, else nothing.
func bestOf(di int, files []string, request string) string {
	return choose(append(make([][]string, di), files), request)
}

type fileEnv struct {
	root   string
	dirs   []string
	linked map[string]bool // path -> it is a symbolic link
	stored int
}

func newFileEnv() *fileEnv {
	root, err := os.MkdirTemp("..", "c13-")
	if err != nil {
		panic(err)
	}
	root, _ = filepath.Abs(root)
	e := &fileEnv{root: root, linked: map[string]bool{}}
	os.MkdirAll(filepath.Join(root, "store"), 0o755)
	for i := 0; i < 3; i++ {
		d := filepath.Join(root, fmt.Sprintf("d%d", i))
		os.MkdirAll(d, 0o755)
		e.dirs = append(e.dirs, d)
	}
	return e
}

func (e *fileEnv) set(in FileInput) {
	for di, d := range e.dirs {
		want := map[string]bool{}
		if di < len(in.Dirs) {
			for _, fn := range in.Dirs[di] {
				want[in.actual(fn)] = true
			}
		}
		ents, _ := os.ReadDir(d)
		for _, en := range ents {
			p := filepath.Join(d, en.Name())
			if en.IsDir() {
				os.RemoveAll(p)
				continue
			}
			if !want[en.Name()] || e.linked[p] != in.Links {
				os.Remove(p)
				delete(e.linked, p)
				continue
			}
			delete(want, en.Name())
		}
		for fn := range want {
			p := filepath.Join(d, fn)
			if !in.Links {
				os.WriteFile(p, []byte(fileContent(di, fn, in.Stem)), 0o644)
				continue
			}
			e.stored++
			target := filepath.Join(e.root, "store", fmt.Sprintf("f%d", e.stored))
			os.WriteFile(target, []byte(fileContent(di, fn, in.Stem)), 0o644)
			if err := os.Symlink(target, p); err != nil {
				panic(err)
			}
			e.linked[p] = true
		}
	}
	if in.SubName != "" {
		sn := in.SubName
		if strings.HasPrefix(sn, "a@") {
			sn = in.actual(sn) // a directory named like a dated file of the module
		}
		sd := filepath.Join(e.dirs[1], sn)
		os.MkdirAll(sd, 0o755)
		for _, fn := range in.Sub {
			os.WriteFile(filepath.Join(sd, in.actual(fn)), []byte(fileContent(3, in.actual(fn), in.Stem)), 0o644)
		}
	}
}

func (e *fileEnv) close() { os.RemoveAll(e.root) }

func checkFile(e *fileEnv, in FileInput) *fail {
	e.set(in)
	var f *fail
	pan, pt := core.Guard(func() {
		cwd, _ := os.Getwd()
		defer os.Chdir(cwd)
		if err := os.Chdir(e.dirs[0]); err != nil {
			panic(err)
		}
		want := choose(in.actualDirs(), in.actual(in.Request))
		// what the subdirectory of the first path directory offers (only a dir/... entry may see it)
		var subBest, d1Best string
		if in.SubName != "" {
			var sub []string
			for _, fn := range in.Sub {
				sub = append(sub, in.actual(fn))
			}
			subBest = bestOf(3, sub, in.actual(in.Request))
			d1Best = bestOf(1, in.actualDirs()[1], in.actual(in.Request))
		}
		// the search path given directory by directory, as the command builds it from a root (the
		// directories below it that hold YANG files, in walking order), and as dir/... entries
		for route := 0; route < 3 && f == nil; route++ {
			if route == 1 && in.SubName != "" {
				continue // the walking order decides where the subdirectory stands: not predicted
			}
			ms := yang.NewModules()
			if route == 0 {
				ms.AddPath(e.dirs[1], e.dirs[2])
			} else if route == 2 && in.SubName == "" {
				ms.AddPath(filepath.Join(e.root, "..."))
			} else if route == 2 {
				ms.AddPath(filepath.Join(e.dirs[1], "..."), filepath.Join(e.dirs[2], "..."))
			} else {
				ps, perr := yang.PathsWithModules(e.root)
				if perr != nil {
					f = &fail{"path-scan-error", "directories", perr.Error(), nil}
					return
				}
				ms.AddPath(ps...)
			}
			err := ms.Read(in.actual(in.Request))
			got := ""
			if err == nil {
				for _, m := range ms.Modules {
					if m.Description != nil {
						got = m.Description.Name
					}
				}
			}
			sfx := []string{"", ":path-from-PathsWithModules", ":path-entry-with-dots"}[route]
			if route == 2 && in.SubName != "" && (subBest != "" || d1Best != "") {
				// the first entry's directory and the one below it both count as "the first
				// search-path directory"; which of the two is asked first is not stated. The file
				// must be the best candidate of one of them.
				if err != nil {
					f = &fail{"read-missed-the-candidate" + sfx, d1Best + " or " + subBest, err.Error(), nil}
				} else if got == "" || (got != d1Best && got != subBest) {
					f = &fail{"read-chose-wrong-file" + sfx, d1Best + " or " + subBest, got, nil}
				}
				continue
			}
			switch {
			case want == "" && err == nil:
				f = &fail{"read-found-a-non-candidate" + sfx, "error: no candidate file", got, nil}
			case want != "" && err != nil:
				f = &fail{"read-missed-the-candidate" + sfx, want, err.Error(), nil}
			case want != got:
				f = &fail{"read-chose-wrong-file" + sfx, want, got, nil}
			}
		}
	})
	if pan {
		return &fail{"panic@" + core.LastPanicSite, "no panic", pt, nil}
	}
	return f
}

// ---------------------------------------------------------------------------------------------
// (c) split

type item struct {
	text    string
	defines string // definition it provides ("" if none)
	needs   []string
}

var items = []item{
	{`typedef t1 { type int8 { range "1..10"; } default 5; units u; }`, "t1", nil},
	{`container c1 { leaf l1 { type t1; } }`, "", []string{"t1"}},
	{`grouping g1 { leaf gl { type t1; } list gli { key k; leaf k { type string; } } }`, "g1", []string{"t1"}},
	{`container c2 { config false; uses g1; }`, "", []string{"g1"}},
	{`identity i1;`, "i1", nil},
	{`identity i2 { base i1; }`, "i2", []string{"i1"}},
	{`leaf r { type identityref { base i1; } }`, "", []string{"i1"}},
	{`augment "/m:c1" { leaf al { type string; } }`, "", nil},
	{`rpc op { input { leaf oi { type t1; } } }`, "", []string{"t1"}},
}

type SplitInput struct {
	Place []int   `json:"place"` // block of each item: 0 main, 1 submodule s1, 2 submodule s2
	Cross [2]bool `json:"cross"` // s1 includes s2, s2 includes s1
	// TwoRevs: two revisions of m are loaded, both with this body and these includes; each must be
	// the whole module
	TwoRevs bool `json:"two_revisions,omitempty"`
	// Nested: the main module includes only s1, which includes s2 (needs Cross[0])
	Nested bool `json:"nested_include_only,omitempty"`
}

func splitFiles(in SplitInput) []dump.File {
	body := [3]string{}
	for i, it := range items {
		body[in.Place[i]] += " " + it.text
	}
	main := `module m { namespace "urn:m"; prefix m; include s1; include s2;` + body[0] + ` }`
	if in.Nested {
		main = `module m { namespace "urn:m"; prefix m; include s1;` + body[0] + ` }`
	}
	inc := [3]string{}
	if in.Cross[0] {
		inc[1] = " include s2;"
	}
	if in.Cross[1] {
		inc[2] = " include s1;"
	}
	s1 := `submodule s1 { belongs-to m { prefix m; }` + inc[1] + body[1] + ` }`
	s2 := `submodule s2 { belongs-to m { prefix m; }` + inc[2] + body[2] + ` }`
	if in.TwoRevs {
		h := `module m { namespace "urn:m"; prefix m; include s1; include s2;`
		return []dump.File{{Name: "m@2020-01-01.yang", Text: h + " revision 2020-01-01;" + body[0] + ` }`}, {Name: "s1.yang", Text: s1}, {Name: "s2.yang", Text: s2},
			{Name: "m@2021-06-30.yang", Text: h + " revision 2021-06-30;" + body[0] + ` }`}}
	}
	return []dump.File{{Name: "m.yang", Text: main}, {Name: "s1.yang", Text: s1}, {Name: "s2.yang", Text: s2}}
}

// resolvable: every definition an item needs is in its own block, or in a submodule its block includes
// (the main module includes both).
func resolvable(in SplitInput) bool {
	where := map[string]int{}
	for i, it := range items {
		if it.defines != "" {
			where[it.defines] = in.Place[i]
		}
	}
	for i, it := range items {
		b := in.Place[i]
		for _, n := range it.needs {
			w := where[n]
			switch {
			case in.Nested && b == 0 && w == 2:
				// the main module does not include s2 itself: whether it sees what s2 defines is
				// not claimed (RFC 6020 makes a nested include serve the including submodule)
				return false
			case w == b, b == 0 && w != 0:
			case b == 1 && w == 2 && in.Cross[0]:
			case b == 2 && w == 1 && in.Cross[1]:
			default:
				return false
			}
		}
	}
	return true
}

// mainTree dumps only what belongs to module m (entry tree and identities), positions off.
func mainTree(ms *yang.Modules) string { return mainTreeOf(ms, "m") }

func mainTreeOf(ms *yang.Modules, key string) string {
	var sb strings.Builder
	m := ms.Modules[key]
	if m == nil {
		return "<no module " + key + ">"
	}
	e := yang.ToEntry(m)
	dump.Entry(&sb, e, "", dump.Options{NoExtra: true}, map[*yang.Entry]bool{})
	// identities: those written in the module and in its submodules (where the library lists them is
	// not compared, only what they are derived into)
	var ids []string
	all := append([]*yang.Identity{}, e.Identities...)
	seenSub := map[*yang.Module]bool{}
	var subs func(x *yang.Module)
	subs = func(x *yang.Module) {
		for _, in := range x.Include {
			if in.Module != nil && !seenSub[in.Module] {
				seenSub[in.Module] = true
				all = append(all, yang.ToEntry(in.Module).Identities...)
				subs(in.Module)
			}
		}
	}
	subs(m)
	for _, id := range all {
		s := id.Name + " values=["
		for _, v := range id.Values {
			s += v.Name + " "
		}
		ids = append(ids, s+"]")
	}
	sort.Strings(ids)
	sb.WriteString(strings.Join(ids, "\n"))
	// identities are labelled with the (sub)module that writes them; compare by owning module
	return strings.NewReplacer("s1:", "m:", "s2:", "m:").Replace(sb.String())
}

var unsplit, unsplitRebuilt string

// rebuiltNames: the data nodes of module m when its tree is built anew after the entry cache was
// dropped (without a processing run, so without the late augments - in the split module and in
// the unsplit one alike).
func rebuiltNames(ms *yang.Modules) string {
	ms.ClearEntryCache()
	e := yang.ToEntry(ms.Modules["m"])
	var ks []string
	for k, c := range e.Dir {
		n := 0
		if c != nil {
			n = len(c.Dir)
		}
		ks = append(ks, fmt.Sprintf("%s/%d", k, n))
	}
	sort.Strings(ks)
	return strings.Join(ks, " ")
}

func checkSplit(in SplitInput) *fail {
	var f *fail
	pan, pt := core.Guard(func() {
		if unsplit == "" {
			body := ""
			for _, it := range items {
				body += " " + it.text
			}
			r := dump.Run([]dump.File{{Name: "m.yang", Text: `module m { namespace "urn:m"; prefix m;` + body + ` }`}}, dump.Options{})
			if len(r.ProcErrs) > 0 {
				panic("unsplit module has errors: " + dump.Errors(r.ProcErrs))
			}
			unsplit = mainTree(r.MS)
			unsplitRebuilt = rebuiltNames(r.MS)
		}
		files := splitFiles(in)
		if in.TwoRevs {
			cl := []string{"two-revisions-include-one-submodule"}
			for _, order := range [][]int{{0, 1, 2, 3}, {3, 2, 1, 0}, {1, 3, 2, 0}} {
				var fs []dump.File
				for _, k := range order {
					fs = append(fs, files[k])
				}
				r := dump.Run(fs, dump.Options{})
				for _, e := range r.LoadErrs {
					if e != "" {
						f = &fail{"split-load-error", "loads", e, cl}
						return
					}
				}
				if len(r.ProcErrs) > 0 {
					f = &fail{"split-process-errors", "no errors", dump.Errors(r.ProcErrs), cl}
					return
				}
				for _, key := range []string{"m@2021-06-30", "m@2020-01-01"} {
					if got := mainTreeOf(r.MS, key); got != unsplit {
						f = &fail{"a-revision-lacks-what-its-submodules-define", key + ":\n" + unsplit, got, cl}
						return
					}
				}
			}
			return
		}
		for _, order := range [][]int{{0, 1, 2}, {2, 1, 0}, {1, 0, 2}} {
			r := dump.Run([]dump.File{files[order[0]], files[order[1]], files[order[2]]}, dump.Options{}, func(ms *yang.Modules) {
				ms.ParseOptions.IgnoreSubmoduleCircularDependencies = in.Cross[0] && in.Cross[1]
			})
			for _, e := range r.LoadErrs {
				if e != "" {
					f = &fail{"split-load-error", "loads", e, nil}
					return
				}
			}
			if len(r.ProcErrs) > 0 {
				f = &fail{"split-process-errors", "no errors", dump.Errors(r.ProcErrs), nil}
				return
			}
			if got := mainTree(r.MS); got != unsplit {
				f = &fail{"split-differs-from-unsplit", unsplit, got, nil}
				return
			}
			if got := rebuiltNames(r.MS); got != unsplitRebuilt {
				f = &fail{"tree-rebuilt-after-ClearEntryCache-lacks-submodule-nodes", unsplitRebuilt, got, nil}
				return
			}
		}
	})
	if pan {
		return &fail{"panic@" + core.LastPanicSite, "no panic", pt, nil}
	}
	return f
}

// ---------------------------------------------------------------------------------------------

type Input struct {
	Rev   *RevInput      `json:"rev,omitempty"`
	File  *FileInput     `json:"file,omitempty"`
	Split *SplitInput    `json:"split,omitempty"`
	Scale *scalekit.Case `json:"scale,omitempty"`
}

func shards(tier string) []string {
	out := []string{"rev/mod", "rev/sub"}
	for d := 1; d < len(dateSets); d++ {
		out = append(out, fmt.Sprintf("rev/mod/d%d", d), fmt.Sprintf("rev/sub/d%d", d))
	}
	for i := 0; i < 16; i++ {
		out = append(out, fmt.Sprintf("file/%d", i))
	}
	for i := 0; i < 9; i++ {
		out = append(out, fmt.Sprintf("split/%d", i))
	}
	return append(out, scalekit.ShardNames()...)
}

func subsets(names []string, mask int) []string {
	var out []string
	for i, n := range names {
		if mask&(1<<i) != 0 {
			out = append(out, n)
		}
	}
	return out
}

func run(c *core.Ctx) {
	c.Res.Bound = "rev: load sequences of <= 3 (thorough 4) of 7 header variants with repeats, modules and submodules, 5 import/include spellings, under 5 triples of revision dates (years, months, days apart; across the turn of a year; digits swapped); file: all subsets of 6 (thorough 8..11) file names in each of 2 path directories x 3 requests; split: 9 items in every partition into main + 2 submodules x 4 cross-include patterns that keep references resolvable x 3 load orders"
	report := func(caseNo int64, in Input, f *fail) {
		c.Outcome("FAIL:" + f.fp)
		c.Fail(caseNo, f.classes, f.fp, in, f.exp, f.obs)
	}
	switch {
	case strings.HasPrefix(c.Shard, "rev/"):
		sub := strings.HasPrefix(c.Shard, "rev/sub")
		dates := 0
		if i := strings.Index(c.Shard, "/d"); i > 0 {
			fmt.Sscanf(c.Shard[i:], "/d%d", &dates)
		}
		setDates(dates)
		max := 3
		if c.Tier == "thorough" {
			max = 4
		}
		byMultiset := map[string]map[string]string{}
		var rec func(seq []int)
		rec = func(seq []int) {
			if len(seq) > 0 {
				in := RevInput{Sub: sub, Seq: append([]int{}, seq...), Dates: dates}
				caseNo, run := c.Begin()
				if c.Skip(caseNo, run, Input{Rev: &in}) {
					return
				}
				c.Exec()
				c.Validate()
				c.Edge(int64(len(seq)) * int64(1+len(importDates)))
				c.StateN(1)
				if len(seq) > 1 {
					c.NontrivialN(1)
				}
				if f := checkRev(in); f != nil {
					report(caseNo, Input{Rev: &in}, f)
				} else {
					c.Outcome("registry-as-required")
					if len(seq) == max && seq[0] == 3 && seq[1] == 1 {
						b, _ := json.Marshal(Input{Rev: &in})
						c.Sample(string(b))
					}
				}
				// order independence across one multiset
				var outcome string
				core.Guard(func() {
					acc, keys, bind := revObserve(in)
					n := 0
					for _, a := range acc {
						if a {
							n++
						}
					}
					// ids accepted as a set
					var ids []string
					for i, a := range acc {
						if a {
							ids = append(ids, hdrs[seq[i]].id)
						}
					}
					sort.Strings(ids)
					_ = n
					outcome = canonIDs(fmt.Sprint(len(ids), " keys=", fmtKeys(keys), " bind=", fmtMap(bind)))
				})
				ms := append([]int{}, seq...)
				sort.Ints(ms)
				key := fmt.Sprint(ms)
				if byMultiset[key] == nil {
					byMultiset[key] = map[string]string{}
				}
				if _, ok := byMultiset[key][outcome]; !ok {
					byMultiset[key][outcome] = fmt.Sprint(seq)
				}
			}
			if len(seq) == max {
				return
			}
			for i := range hdrs {
				rec(append(seq, i))
			}
		}
		rec(nil)
		var keys []string
		for k := range byMultiset {
			keys = append(keys, k)
		}
		sort.Strings(keys)
		for _, k := range keys {
			o := byMultiset[k]
			if len(o) > 1 {
				var d []string
				for oc, w := range o {
					d = append(d, w+" => "+oc)
				}
				sort.Strings(d)
				var seq []int
				fmt.Sscan(strings.Trim(strings.Fields(d[0])[0], "[]"), &seq)
				caseNo, _ := c.Begin()
				var ms []int
				for _, s := range strings.Fields(strings.Trim(k, "[]")) {
					var v int
					fmt.Sscan(s, &v)
					ms = append(ms, v)
				}
				in := RevInput{Sub: sub, Seq: ms, Dates: dates}
				cl := orderClasses(ms)
				report(caseNo, Input{Rev: &in}, &fail{"order-dependent-registry", "one outcome for all orders of the multiset", strings.Join(d, "\n"), cl})
			}
		}
	case strings.HasPrefix(c.Shard, "file/"):
		var shard int
		fmt.Sscanf(c.Shard, "file/%d", &shard)
		names := fileNames[:6]
		cwdNames := []string{"a.yang", "a@2021-06-30.yang", "ab.yang"}
		if c.Tier == "thorough" {
			names = fileNames[:8]
		}
		e := newFileEnv()
		defer e.close()
		n := 1 << len(names)
		cnt := 0
		for m1 := 0; m1 < n; m1++ {
			if m1%16 != shard {
				continue
			}
			// Gray-code order over the second directory keeps file churn at one file per step
			for g := 0; g < n; g++ {
				m2 := g ^ (g >> 1)
				for m0 := 0; m0 < 1; m0++ { // the current directory stays empty: that it is searched first is documented by the library but not part of the statement
					if c.Expired() {
						return
					}
					dirs := [][]string{subsets(cwdNames, m0), subsets(names, m1), subsets(names, m2)}
					for ri, req := range []string{"a", "ab", "a@2020-01-01"} {
						// every layout with the plain names; the other module-name classes take turns
						stems := []string{"", fileStems[1+(m1+g+ri)%(len(fileStems)-1)]}
						if c.Tier == "thorough" {
							stems = fileStems
						}
						for _, stem := range stems {
							in := FileInput{Dirs: dirs, Request: req, Stem: stem, Links: (m1/16+g+ri)%3 == 0}
							caseNo, run := c.Begin()
							if c.Skip(caseNo, run, Input{File: &in}) {
								continue
							}
							c.Exec()
							c.Validate()
							c.Edge(1)
							c.StateN(1)
							if len(dirs[1])+len(dirs[2]) > 1 {
								c.NontrivialN(1)
							}
							cnt++
							if f := checkFile(e, in); f != nil {
								report(caseNo, Input{File: &in}, f)
							} else {
								c.Outcome("chooser-as-required")
								if cnt%9000 == 500 {
									b, _ := json.Marshal(Input{File: &in})
									c.Sample(string(b))
								}
							}
						}
					}
				}
			}
		}
		// files of modules whose names a careless comparison takes for the requested one (another
		// separator where it has '.', '-' or '_'; the other case), dated later than every candidate
		if shard < len(fileStems) {
			nmNames := []string{"a@2020-01-01.yang", "a.yang", "NM1@2024-01-01.yang", "NM2@2024-01-01.yang", "NM1.yang", "NM2.yang"}
			nm2 := []string{"a@2021-06-30.yang", "NM1@2024-01-01.yang", "NM2.yang"}
			for _, stem := range fileStems[shard : shard+1] {
				for m1 := 0; m1 < 1<<len(nmNames); m1++ {
					for m2 := 0; m2 < 1<<len(nm2); m2++ {
						if c.Expired() {
							return
						}
						in := FileInput{Dirs: [][]string{nil, subsets(nmNames, m1), subsets(nm2, m2)}, Request: "a", Stem: stem, Links: (m1+m2)%5 == 0}
						caseNo, run := c.Begin()
						if c.Skip(caseNo, run, Input{File: &in}) {
							continue
						}
						c.Exec()
						c.Validate()
						c.Edge(1)
						c.StateN(1)
						c.NontrivialN(1)
						if f := checkFile(e, in); f != nil {
							report(caseNo, Input{File: &in}, f)
						} else {
							c.Outcome("chooser-as-required:near-miss-names")
						}
					}
				}
			}
		}
		// dated files whose dates stand in every relation to each other (days, months, a year apart,
		// across the turn of a year, digits swapped): the latest wins
		if shard == len(fileStems) {
			dn := []string{"a@2021-06-04.yang", "a@2021-06-19.yang", "a@2021-06-20.yang", "a@2020-12-31.yang", "a@2021-01-01.yang", "a@2020-10-02.yang", "a@2020-02-10.yang", "a@2020-09-10.yang", "a@2020-10-09.yang"}
			for m1 := 1; m1 < 1<<len(dn); m1++ {
				if c.Expired() {
					return
				}
				for _, stem := range []string{"", "a.b"} {
					in := FileInput{Dirs: [][]string{nil, subsets(dn, m1), {"a@2022-01-01.yang"}}, Request: "a", Stem: stem, Links: m1%7 == 0}
					caseNo, run := c.Begin()
					if c.Skip(caseNo, run, Input{File: &in}) {
						continue
					}
					c.Exec()
					c.Validate()
					c.Edge(1)
					c.StateN(1)
					c.NontrivialN(1)
					if f := checkFile(e, in); f != nil {
						report(caseNo, Input{File: &in}, f)
					} else {
						c.Outcome("chooser-as-required:related-dates")
					}
				}
			}
		}
		// a subdirectory below the first path directory, named so that it sorts before or after the
		// files: plain entries must not see it, dir/... entries search it as part of the first
		subNames := []string{"a.yang", "a@2020-01-01.yang", "a@2021-06-30.yang", "ab.yang", "a@bad.yang"}
		for m1 := 0; m1 < n; m1++ {
			if m1%16 != shard {
				continue
			}
			for ms := 0; ms < 1<<len(subNames); ms++ {
				for m2 := 0; m2 < 4; m2++ {
					if c.Expired() {
						return
					}
					for ri, req := range []string{"a", "ab", "a@2020-01-01"} {
						stem := fileStems[(m1+ms+ri)%len(fileStems)]
						in := FileInput{Dirs: [][]string{nil, subsets(names, m1), subsets(names[:2], m2)}, Request: req, Stem: stem,
							Sub: subsets(subNames, ms), SubName: []string{"0", "zz", "a@2022-01-01.yang"}[(m1/16+ms+m2)%3]}
						caseNo, run := c.Begin()
						if c.Skip(caseNo, run, Input{File: &in}) {
							continue
						}
						c.Exec()
						c.Validate()
						c.Edge(1)
						c.StateN(1)
						c.NontrivialN(1)
						if f := checkFile(e, in); f != nil {
							report(caseNo, Input{File: &in}, f)
						} else {
							c.Outcome("chooser-as-required:subdirectory")
						}
					}
				}
			}
		}
		if c.Tier == "thorough" && shard == 0 {
			// the near-miss names beyond the first eight, one directory
			for m := 0; m < 1<<len(fileNames); m++ {
				dirs := [][]string{nil, subsets(fileNames, m), nil}
				in := FileInput{Dirs: dirs, Request: "a"}
				caseNo, run := c.Begin()
				if c.Skip(caseNo, run, Input{File: &in}) {
					continue
				}
				c.Exec()
				c.Validate()
				c.Edge(1)
				c.StateN(1)
				if f := checkFile(e, in); f != nil {
					report(caseNo, Input{File: &in}, f)
				} else {
					c.Outcome("chooser-as-required")
				}
			}
		}
	case strings.HasPrefix(c.Shard, "scale/"):
		scalekit.Run(c, c.Shard, scaleCases(c.Tier), checkScale, func(cs scalekit.Case) any { return Input{Scale: &cs} })
	case strings.HasPrefix(c.Shard, "split/"):
		var shard int
		fmt.Sscanf(c.Shard, "split/%d", &shard)
		total := 1
		for range items {
			total *= 3
		}
		cnt := 0
		for code := 0; code < total; code++ {
			if code%9 != shard {
				continue
			}
			place := make([]int, len(items))
			x := code
			for i := range place {
				place[i] = x % 3
				x /= 3
			}
			for cr := 0; cr < 4; cr++ { // s1 includes s2, s2 includes s1, neither; both only under the option that tolerates circular includes
				if c.Expired() {
					return
				}
				in := SplitInput{Place: place, Cross: [2]bool{cr&1 != 0, cr&2 != 0}}
				caseNo, run := c.Begin()
				if c.Skip(caseNo, run, Input{Split: &in}) {
					continue
				}
				c.Exec()
				c.Edge(3)
				c.StateN(1)
				if !resolvable(in) {
					c.Exclude()
					c.Outcome("excluded:reference-not-visible-from-its-submodule")
					continue
				}
				c.Validate()
				c.NontrivialN(1)
				cnt++
				if f := checkSplit(in); f != nil {
					report(caseNo, Input{Split: &in}, f)
				} else {
					c.Outcome("split-equals-unsplit")
					if cnt%700 == 99 {
						b, _ := json.Marshal(Input{Split: &in})
						c.Sample(string(b))
					}
				}
				if in.Cross[0] && in.Cross[1] {
					continue // the variants below are for the default options
				}
				if in.Cross[0] && !in.Cross[1] {
					// the same partition with s2 reached only through s1's include
					in3 := in
					in3.Nested = true
					caseNo, run := c.Begin()
					if !resolvable(in3) {
						c.Exclude()
						c.Outcome("excluded:reference-not-visible-from-its-submodule")
					} else if !c.Skip(caseNo, run, Input{Split: &in3}) {
						c.Exec()
						c.Edge(3)
						c.StateN(1)
						c.Validate()
						c.NontrivialN(1)
						if f := checkSplit(in3); f != nil {
							report(caseNo, Input{Split: &in3}, f)
						} else {
							c.Outcome("split-equals-unsplit-with-nested-include")
						}
					}
				}
				if cnt%16 == 3 || c.Tier == "thorough" {
					// the same partition as two revisions of m that both include the submodules
					in2 := in
					in2.TwoRevs = true
					caseNo, run := c.Begin()
					if c.Skip(caseNo, run, Input{Split: &in2}) {
						continue
					}
					c.Exec()
					c.Edge(3)
					c.StateN(1)
					c.Validate()
					c.NontrivialN(1)
					if f := checkSplit(in2); f != nil {
						report(caseNo, Input{Split: &in2}, f)
					} else {
						c.Outcome("split-equals-unsplit-in-both-revisions")
					}
				}
			}
		}
	}
}

func fmtKeys(m map[string]string) string { return fmtMap(m) }

// canonIDs replaces text ids by the revision they carry: two different texts with the same latest
// revision are the same (name, revision) as far as the property is concerned.
func canonIDs(s string) string {
	for _, h := range hdrs {
		s = strings.ReplaceAll(s, "->"+h.id+" ", "->rev:"+h.latest()+" ")
	}
	return s
}

func orderClasses(multiset []int) []string {
	hasUnrev, hasRev := false, false
	for _, i := range multiset {
		if len(hdrs[i].revs) == 0 {
			hasUnrev = true
		} else {
			hasRev = true
		}
	}
	if hasUnrev && hasRev {
		return []string{"unrevisioned-after-revisioned"}
	}
	return nil
}

func replay(tier string, raw json.RawMessage) (bool, string, string) {
	var in Input
	if err := json.Unmarshal(raw, &in); err != nil {
		return false, "", err.Error()
	}
	if in.Scale != nil {
		v := checkScale(*in.Scale)
		return v.Fp != "", "scale:" + v.Fp, fmt.Sprintf("expected %s\nobserved %s", v.Exp, v.Obs)
	}
	var f *fail
	switch {
	case in.Rev != nil:
		f = checkRev(*in.Rev)
		if f == nil {
			// order dependence: run all permutations of the multiset
			outcomes := map[string]bool{}
			permute(in.Rev.Seq, func(p []int) {
				acc, keys, bind := revObserve(RevInput{Sub: in.Rev.Sub, Seq: p})
				n := 0
				for _, a := range acc {
					if a {
						n++
					}
				}
				outcomes[canonIDs(fmt.Sprint(n, " keys=", fmtMap(keys), " bind=", fmtMap(bind)))] = true
			})
			if len(outcomes) > 1 {
				f = &fail{"order-dependent-registry", "one outcome", fmt.Sprint(len(outcomes), " outcomes"), nil}
			}
		}
	case in.File != nil:
		e := newFileEnv()
		defer e.close()
		f = checkFile(e, *in.File)
	case in.Split != nil:
		f = checkSplit(*in.Split)
	}
	if f == nil {
		return false, "", "as required"
	}
	return true, f.fp, fmt.Sprintf("expected %s\nobserved %s", f.exp, f.obs)
}

func permute(a []int, f func([]int)) {
	var rec func(k int)
	b := append([]int{}, a...)
	rec = func(k int) {
		if k == len(b) {
			f(append([]int{}, b...))
			return
		}
		for i := k; i < len(b); i++ {
			b[k], b[i] = b[i], b[k]
			rec(k + 1)
			b[k], b[i] = b[i], b[k]
		}
	}
	rec(0)
}

func init() {
	core.Register(&core.Prop{
		ID: "C13", Variant: "plain", Shards: shards, Run: run, Replay: replay,
		Rule:        "rev: every sequence (with repeats) of header variants of one module name whose revision lists are {}, {r1}, {r2}, {r2,r1}, {r1,r2}, {r3,r2}, and a second text with {r1}, as modules (import) and as submodules (include): a load is rejected iff the same latest revision of the name is already loaded, the bare key and a date-less import/include bind the latest loaded revision, a dated one binds exactly that revision when loaded, and all orders of one multiset reach the same registry and bindings; file: every layout of candidate and near-miss names (a.yang, a@date.yang, ab.yang, ab@date.yang, a@bad.yang, a@2022-1-1.yang, ...) over two search-path directories (the current directory is empty), as real files whose content identifies them: Modules.Read must open the file the reference chooser picks (first directory with a candidate; name.yang, else latest date; never a near miss) or fail when there is none; split: 9 body items (typedef, users of it, grouping, uses, identities, identityref, augment of an own node, rpc) in every partition into main module + 2 submodules with every cross-include pattern under which references stay visible (mutual includes under the option IgnoreSubmoduleCircularDependencies), 3 load orders: the main module's tree and identities must dump exactly like the unsplit module; partitions in which s1 includes s2 also with the main module including only s1; every 16th partition (thorough: every one) also as two revisions of the main module that both include the submodules - each revision must be the whole module. states = distinct sequences/layouts/partitions",
		Assumptions: []string{"when a dated import names a revision that is not loaded the statement is silent and nothing is compared", "partitions in which a submodule would need a definition of its owner or of a submodule it does not include are excluded (visibility inside submodules is not what C13 claims)", "no symlinks, permission errors or concurrent modification of the directories"},
	})
}
