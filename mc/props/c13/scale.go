package c13

import (
	"fmt"
	"github.com/openconfig/goyang/pkg/yangentry"
	"os"
	"path/filepath"
	"strings"
	"verif/mc/explore"

	"github.com/openconfig/goyang/pkg/yang"
	"verif/mc/dump"
	"verif/mc/gen/scale"
	"verif/mc/props/scalekit"
)

// scale: (long-path) a search path of P directories, module x with a candidate in directory I and a
// newer dated one in directory J > I, module y only in J; one Modules value reads y and then x (and
// in a variant x, y, then a module importing x): x must come from directory I whatever was looked up
// before. (include-tree) every ordered include tree of up to six (seven) submodules: the module's
// tree holds the container of every submodule.

func scaleCases(tier string) []scalekit.Case {
	maxP, maxK := 12, 7
	if tier == "thorough" {
		maxP, maxK = 24, 8
	}
	var out []scalekit.Case
	for p := 2; p <= maxP; p++ {
		for i := 0; i < p; i++ {
			for j := i + 1; j < p; j++ {
				out = append(out, scalekit.Case{Shape: "long-path", N: p, V: i*100 + j})
			}
		}
	}
	for _, n := range scale.Sizes(40, 129) {
		out = append(out, scalekit.Case{Shape: "many-revisions", N: n})
	}
	for _, n := range scale.Sizes(80, 513) {
		out = append(out, scalekit.Case{Shape: "big-directory", N: n})
	}
	// what a prefix denotes when its import selects a revision: definitions in the module body or in
	// a submodule of its own revision, importers that pin the old one, the new one, or nothing
	for v := 0; v < 2*len(revDefOrders(tier)); v++ {
		out = append(out, scalekit.Case{Shape: "revision-definitions", N: 1, V: v})
	}
	// the bare name through yangentry.Parse: n revisions of one module in files, each with a revision
	// history of one to three statements written newest first or oldest first (variant: which, and
	// the order of the files)
	for n := 2; n <= 4; n++ {
		for v := 0; v < 12; v++ {
			out = append(out, scalekit.Case{Shape: "bare-name-through-yangentry", N: n, V: v})
		}
	}
	for k := 2; k <= maxK; k++ {
		i := 0
		scale.IncludeTrees(k, func(kids [][]int) {
			out = append(out, scalekit.Case{Shape: "include-tree", N: k, V: i})
			i++
		})
	}
	return out
}

// big-directory: one search-path directory with n entries, among them lib@2019-03-07.yang,
// lib@2021-11-23.yang, libx.yang, lib@bad.yang and (n even) lib.yang: dated and undated requests and
// imports must pick the files the chooser prescribes, as in a small directory.
func checkBigDirectory(cs scalekit.Case) scalekit.Verdict {
	root, err := os.MkdirTemp("..", "c13-big-")
	if err != nil {
		panic(err)
	}
	root, _ = filepath.Abs(root)
	defer os.RemoveAll(root)
	dir := filepath.Join(root, "d")
	os.MkdirAll(dir, 0o755)
	mod := func(name, where, extra string) []byte {
		return []byte(fmt.Sprintf(`module %s { namespace "urn:%s"; prefix %s; %s description "%s"; }`, name, name, name, extra, where))
	}
	names := []string{"lib@2019-03-07.yang", "lib@2021-11-23.yang", "libx.yang", "lib@bad.yang"}
	if cs.N%2 == 0 {
		names = append(names, "lib.yang")
	}
	for _, fn := range names {
		extra := ""
		if d, ok := dated(fn, "lib"); ok {
			extra = "revision " + d + ";"
		}
		m := "lib"
		if fn == "libx.yang" {
			m = "libx"
		}
		os.WriteFile(filepath.Join(dir, fn), mod(m, fn, extra), 0o644)
	}
	os.WriteFile(filepath.Join(dir, "user.yang"), mod("user", "user.yang", "import lib { prefix l; revision-date 2019-03-07; }"), 0o644)
	os.WriteFile(filepath.Join(dir, "user2.yang"), mod("user2", "user2.yang", "import lib { prefix l; }"), 0o644)
	for i := len(names) + 2; i < cs.N; i++ {
		os.WriteFile(filepath.Join(dir, fmt.Sprintf("z%04d.yang", i)), mod(fmt.Sprintf("z%04d", i), "filler", ""), 0o644)
	}
	all := [][]string{append([]string{}, names...)}
	for _, c := range []struct {
		req, viaImport string
	}{{"lib@2019-03-07", ""}, {"lib@2021-11-23", ""}, {"lib", ""}, {"", "user"}, {"", "user2"}, {"libx", ""}} {
		ms := scalekit.NewModules()
		ms.AddPath(dir)
		req := c.req
		want := ""
		if c.viaImport != "" {
			if err := ms.Read(c.viaImport); err != nil {
				return scalekit.Bad("read-missed-the-candidate", c.viaImport, err.Error())
			}
			if errs := ms.Process(); len(errs) > 0 {
				return scalekit.Bad("spurious-errors", "no errors", dump.Errors(errs))
			}
			if c.viaImport == "user" {
				want = "lib@2019-03-07.yang"
			} else {
				want = strings.TrimPrefix(choose(all, "lib"), "d0/")
			}
			imp := ms.Modules[c.viaImport].Import[0].Module
			got := "<unbound>"
			if imp != nil && imp.Description != nil {
				got = imp.Description.Name
			}
			if got != want {
				return scalekit.Bad("import-bound-to-another-file", want, fmt.Sprintf("%s (directory of %d entries)", got, cs.N))
			}
			continue
		}
		if err := ms.Read(req); err != nil {
			return scalekit.Bad("read-missed-the-candidate", req, fmt.Sprintf("%v (directory of %d entries)", err, cs.N))
		}
		switch req {
		case "lib":
			want = strings.TrimPrefix(choose(all, "lib"), "d0/")
		case "libx":
			want = "libx.yang"
		default:
			want = req + ".yang"
		}
		got := ""
		for _, m := range ms.Modules {
			if m.Description != nil {
				got = m.Description.Name
			}
		}
		if got != want {
			return scalekit.Bad("read-chose-wrong-file", want, fmt.Sprintf("%s (directory of %d entries)", got, cs.N))
		}
	}
	return scalekit.OK()
}

func revDefOrders(tier string) [][]int {
	var out [][]int
	for i, p := range explore.Perms(7) {
		if tier == "thorough" && i%37 == 0 || i%211 == 0 {
			out = append(out, p)
		}
	}
	return out
}

func checkRevisionDefinitions(cs scalekit.Case) scalekit.Verdict {
	inSub := cs.V%2 == 1
	ord := revDefOrders("thorough")[(cs.V/2)%len(revDefOrders("thorough"))]
	defs := func(typ, leaf string) string {
		return fmt.Sprintf(` typedef t { type %s; } grouping g { leaf %s { type t; } } identity i;`, typ, leaf)
	}
	var files []dump.File
	for _, r := range [][3]string{{"2020-01-01", "uint32", "gold"}, {"2021-06-06", "uint64", "gnew"}} {
		if inSub {
			files = append(files, dump.File{Name: "a@" + r[0] + ".yang", Text: fmt.Sprintf(`module a { namespace "urn:a"; prefix a; include as { revision-date %s; } revision %s; leaf own { type t; } }`, r[0], r[0])},
				dump.File{Name: "as@" + r[0] + ".yang", Text: fmt.Sprintf(`submodule as { belongs-to a { prefix a; } revision %s;%s }`, r[0], defs(r[1], r[2]))})
		} else {
			files = append(files, dump.File{Name: "a@" + r[0] + ".yang", Text: fmt.Sprintf(`module a { namespace "urn:a"; prefix a; revision %s;%s leaf own { type t; } }`, r[0], defs(r[1], r[2]))},
				dump.File{Name: "pad" + r[0] + ".yang", Text: fmt.Sprintf(`module pad%s { namespace "urn:pad%s"; prefix pad; }`, r[0][:4], r[0][:4])})
		}
	}
	user := func(name, pin string) dump.File {
		return dump.File{Name: name + ".yang", Text: fmt.Sprintf(`module %s { namespace "urn:%s"; prefix %s; import a { prefix p;%s } leaf l { type p:t; } typedef mine { type p:t; } leaf l2 { type mine; } container c { uses p:g; } identity d { base p:i; } leaf r { type identityref { base p:i; } } }`, name, name, name, pin)}
	}
	files = append(files, user("uo", " revision-date 2020-01-01;"), user("un", " revision-date 2021-06-06;"), user("uu", ""))
	ms := scalekit.NewModules()
	for _, i := range ord {
		if err := ms.Parse(scalekit.Text(files[i].Text), files[i].Name); err != nil {
			return scalekit.Bad("load-rejected-must-accept", "loads", files[i].Name+": "+err.Error())
		}
	}
	if errs := ms.Process(); len(errs) > 0 {
		return scalekit.Bad("spurious-errors", "no errors", dump.Errors(errs))
	}
	for _, u := range [][3]string{{"uo", "uint32", "gold"}, {"un", "uint64", "gnew"}, {"uu", "uint64", "gnew"}} {
		e := yang.ToEntry(ms.Modules[u[0]])
		for _, l := range []string{"l", "l2"} {
			if got := yang.TypeKindToName[e.Dir[l].Type.Kind]; got != u[1] {
				return scalekit.Bad("prefix-denotes-another-revision", fmt.Sprintf("%s/%s: %s (definitions in a submodule: %v)", u[0], l, u[1], inSub), got)
			}
		}
		c := e.Dir["c"]
		if c.Dir[u[2]] == nil || len(c.Dir) != 1 || yang.TypeKindToName[c.Dir[u[2]].Type.Kind] != u[1] {
			return scalekit.Bad("prefix-denotes-another-revision", fmt.Sprintf("%s/c: the grouping of that revision, leaf %s of type %s", u[0], u[2], u[1]), fmt.Sprint(len(c.Dir)))
		}
		// the identity the base names is the one written in that revision
		rev := "2021-06-06"
		if u[0] == "uo" {
			rev = "2020-01-01"
		}
		base := e.Dir["r"].Type.IdentityBase
		if base == nil || yang.RootNode(base) == nil || (yang.RootNode(base).Current() != rev) {
			got := "nil"
			if base != nil && yang.RootNode(base) != nil {
				got = yang.RootNode(base).Current()
			}
			return scalekit.Bad("prefix-denotes-another-revision", u[0]+"/r: identity i of revision "+rev, got)
		}
		found := false
		for _, v := range base.Values {
			if v.Name == "d" && yang.RootNode(v).Name == u[0] {
				found = true
			}
		}
		if !found {
			return scalekit.Bad("identity-of-the-revision-misses-its-derivation", u[0]+":d among the values of i@"+rev, fmt.Sprint(len(base.Values)))
		}
	}
	for _, r := range [][2]string{{"a@2020-01-01", "uint32"}, {"a@2021-06-06", "uint64"}, {"a", "uint64"}} {
		if got := yang.TypeKindToName[yang.ToEntry(ms.Modules[r[0]]).Dir["own"].Type.Kind]; got != r[1] {
			return scalekit.Bad("revision-sees-the-definitions-of-another", r[0]+"/own: "+r[1], got)
		}
	}
	return scalekit.OK()
}

// bare-name-through-yangentry: the map yangentry.Parse returns files, under the module's name, the tree
// of the revision that is latest by its newest revision statement, wherever in the history that
// statement stands and in whichever order the files are given.
func checkYangentryBareName(cs scalekit.Case) scalekit.Verdict {
	dir, err := os.MkdirTemp("", "c13ye")
	if err != nil {
		panic(err)
	}
	defer os.RemoveAll(dir)
	oldestFirst := cs.V%2 == 1
	var paths []string
	for i := 0; i < cs.N; i++ {
		// module i: its newest statement is 202<i>-06-01; older ones reach back before every other module's
		dates := []string{fmt.Sprintf("202%d-06-01", i)}
		for k := 0; k < i%3; k++ {
			dates = append(dates, fmt.Sprintf("201%d-0%d-01", k, i+1))
		}
		if oldestFirst {
			for a, b := 0, len(dates)-1; a < b; a, b = a+1, b-1 {
				dates[a], dates[b] = dates[b], dates[a]
			}
		}
		var sb strings.Builder
		sb.WriteString(`module acme { namespace "urn:acme"; prefix acme;`)
		for _, d := range dates {
			fmt.Fprintf(&sb, " revision %s;", d)
		}
		fmt.Fprintf(&sb, " leaf marker%d { type string; } }", i)
		fn := filepath.Join(dir, fmt.Sprintf("acme@202%d-06-01.yang", i))
		if err := os.WriteFile(fn, []byte(sb.String()), 0o644); err != nil {
			panic(err)
		}
		paths = append(paths, fn)
	}
	// the order of the files: rotated by v/2
	rot := (cs.V / 2) % cs.N
	paths = append(paths[rot:], paths[:rot]...)
	if (cs.V/2)/cs.N%2 == 1 {
		for a, b := 0, len(paths)-1; a < b; a, b = a+1, b-1 {
			paths[a], paths[b] = paths[b], paths[a]
		}
	}
	entries, errs := yangentry.Parse(paths, nil)
	if len(errs) > 0 {
		return scalekit.Bad("spurious-errors", "no errors", dump.Errors(errs))
	}
	e := entries["acme"]
	want := fmt.Sprintf("marker%d", cs.N-1)
	if e == nil || e.Dir[want] == nil || len(e.Dir) != 1 {
		got := "nil"
		if e != nil {
			got = fmt.Sprint(len(e.Dir), " children")
			for k := range e.Dir {
				got += " " + k
			}
		}
		return scalekit.Bad("bare-name-is-not-the-latest-revision", "entries[acme] is the tree of acme@"+fmt.Sprintf("202%d-06-01", cs.N-1)+" (leaf "+want+")", got)
	}
	return scalekit.OK()
}

func checkScale(cs scalekit.Case) scalekit.Verdict {
	if cs.Shape == "bare-name-through-yangentry" {
		return checkYangentryBareName(cs)
	}
	if cs.Shape == "revision-definitions" {
		return checkRevisionDefinitions(cs)
	}
	if cs.Shape == "big-directory" {
		return checkBigDirectory(cs)
	}
	if cs.Shape == "many-revisions" {
		// a module with n revision statements, the latest one in the middle of the list, next to
		// a module with one older and one with one newer revision
		older := dump.File{Name: "older.yang", Text: `module m { namespace "urn:m"; prefix m; revision 1999-01-01; leaf old { type string; } }`}
		newer := dump.File{Name: "newer.yang", Text: `module m { namespace "urn:m"; prefix m; revision 2999-01-01; leaf new { type string; } }`}
		latest := fmt.Sprintf("m@%04d-01-01", 2000+cs.N)
		for _, files := range [][]dump.File{{scale.Counts(cs.N), older}, {older, scale.Counts(cs.N)}, {newer, scale.Counts(cs.N), older}} {
			ms := scalekit.NewModules()
			for _, f := range files {
				if err := ms.Parse(scalekit.Text(f.Text), f.Name); err != nil {
					return scalekit.Bad("load-rejected-must-accept", "three different revisions load", err.Error())
				}
			}
			if ms.Modules[latest] == nil {
				var ks []string
				for k := range ms.Modules {
					ks = append(ks, k)
				}
				return scalekit.Bad("registered-under-another-revision", latest, strings.Join(ks, " "))
			}
			want := ms.Modules[latest]
			if len(files) == 3 {
				want = ms.Modules["m@2999-01-01"]
			}
			if ms.Modules["m"] != want {
				return scalekit.Bad("bare-name-denotes-an-older-revision", "the latest loaded revision", ms.Modules["m"].Current())
			}
		}
		return scalekit.OK()
	}
	if cs.Shape == "include-tree" {
		var files []dump.File
		i := 0
		scale.IncludeTrees(cs.N, func(kids [][]int) {
			if i == cs.V {
				files = scale.IncludeTreeFiles(kids, false)
			}
			i++
		})
		for _, rev := range []bool{false, true} {
			ms, errs, lerr := scalekit.Load(files, rev)
			if lerr != nil || len(errs) > 0 {
				return scalekit.Bad("split-process-errors", "loads and processes", fmt.Sprint(lerr, dump.Errors(errs)))
			}
			e := yang.ToEntry(ms.Modules["m"])
			for k := 1; k < cs.N; k++ {
				c := e.Dir[fmt.Sprintf("c%d", k)]
				if c == nil || c.Dir["l"] == nil || c.Dir["l"].Type == nil || c.Dir["l"].Type.Kind != yang.Yint8 {
					return scalekit.Bad("a-submodule-does-not-contribute", fmt.Sprintf("container c%d with leaf l of type int8 in module m", k), "missing")
				}
			}
		}
		return scalekit.OK()
	}
	p, i, j := cs.N, cs.V/100, cs.V%100
	root, err := os.MkdirTemp("..", "c13-long-")
	if err != nil {
		panic(err)
	}
	root, _ = filepath.Abs(root)
	defer os.RemoveAll(root)
	var dirs []string
	for d := 0; d < p; d++ {
		dir := filepath.Join(root, fmt.Sprintf("p%02d", d))
		os.MkdirAll(dir, 0o755)
		dirs = append(dirs, dir)
		os.WriteFile(filepath.Join(dir, fmt.Sprintf("filler%d.yang", d)), []byte(fmt.Sprintf(`module filler%d { namespace "urn:f%d"; prefix f; }`, d, d)), 0o644)
	}
	mod := func(name, where, extra string) []byte {
		return []byte(fmt.Sprintf(`module %s { namespace "urn:%s"; prefix %s; %s description "%s"; }`, name, name, name, extra, where))
	}
	os.WriteFile(filepath.Join(dirs[i], "x.yang"), mod("x", fmt.Sprintf("p%02d/x.yang", i), ""), 0o644)
	os.WriteFile(filepath.Join(dirs[j], "x@2023-05-05.yang"), mod("x", fmt.Sprintf("p%02d/x@2023-05-05.yang", j), "revision 2023-05-05;"), 0o644)
	os.WriteFile(filepath.Join(dirs[j], "y.yang"), mod("y", fmt.Sprintf("p%02d/y.yang", j), ""), 0o644)
	os.WriteFile(filepath.Join(dirs[j], "u.yang"), mod("u", "u", "import x { prefix x; }"), 0o644)
	want := fmt.Sprintf("p%02d/x.yang", i)
	for _, seq := range [][]string{{"y", "x"}, {"filler0", "y", "u"}, {"u"}, {"y", "filler0", "x"}} {
		ms := scalekit.NewModules()
		ms.AddPath(dirs...)
		for _, name := range seq {
			if err := ms.Read(name); err != nil {
				return scalekit.Bad("read-missed-the-candidate", name, err.Error())
			}
		}
		if seq[len(seq)-1] == "u" {
			if errs := ms.Process(); len(errs) > 0 {
				return scalekit.Bad("spurious-errors", "no errors", dump.Errors(errs))
			}
		}
		x := ms.Modules["x"]
		if x == nil || x.Description == nil || x.Description.Name != want {
			got := "<not loaded>"
			if x != nil && x.Description != nil {
				got = x.Description.Name
			}
			return scalekit.Bad("read-chose-wrong-file", want+" (first directory of the path holding a candidate)", got+" after reading "+strings.Join(seq, ", "))
		}
	}
	return scalekit.OK()
}
