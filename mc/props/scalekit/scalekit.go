// Package scalekit runs the size sweeps ("scale" shards) that several properties share: one canonical
// program per (shape, size), every size up to a bound and around the powers of two beyond it.
package scalekit

import (
	"fmt"

	"github.com/openconfig/goyang/pkg/yang"
	"verif/mc/core"
	"verif/mc/dump"
)

// Case names one program of a sweep.
type Case struct {
	Shape string `json:"shape"`
	N     int    `json:"n"`
	V     int    `json:"variant,omitempty"`
}

// Verdict of a check: Fp == "" means the case holds.
type Verdict struct{ Fp, Exp, Obs string }

func OK() Verdict { return Verdict{} }
func Bad(fp, exp, obs string) Verdict {
	return Verdict{fp, exp, obs}
}

const Shards = 8

// ShardNames returns the shard names "scale/0".."scale/7".
func ShardNames() []string {
	var out []string
	for i := 0; i < Shards; i++ {
		out = append(out, fmt.Sprintf("scale/%d", i))
	}
	return out
}

// Run executes the cases of one shard. wrap builds the property's replayable input.
func Run(c *core.Ctx, shard string, cases []Case, chk func(Case) Verdict, wrap func(Case) any) {
	var k int
	fmt.Sscanf(shard, "scale/%d", &k)
	for i, cs := range cases {
		if i%Shards != k {
			continue
		}
		if c.Expired() {
			return
		}
		caseNo, run := c.Begin()
		if c.Skip(caseNo, run, wrap(cs)) {
			continue
		}
		c.Exec()
		c.Validate()
		c.Edge(int64(cs.N))
		c.StateN(1)
		c.NontrivialN(1)
		var v Verdict
		if pan, pt := core.Guard(func() { v = chk(cs) }); pan {
			v = Verdict{"panic@" + core.LastPanicSite, "no panic", pt}
		}
		if v.Fp != "" {
			c.Outcome("FAIL:" + v.Fp)
			c.Fail(caseNo, nil, "scale:"+v.Fp, wrap(cs), v.Exp, v.Obs)
		} else {
			c.Outcome("scale-" + cs.Shape + "-holds")
		}
	}
}

// Load parses the files in the given order (reverse: last first) and processes.
func Load(files []dump.File, reverse bool) (*yang.Modules, []error, error) {
	ms := yang.NewModules()
	for i := range files {
		f := files[i]
		if reverse {
			f = files[len(files)-1-i]
		}
		if err := ms.Parse(f.Text, f.Name); err != nil {
			return ms, nil, err
		}
	}
	return ms, ms.Process(), nil
}

// Down walks names below e.
func Down(e *yang.Entry, names ...string) *yang.Entry {
	for _, n := range names {
		if e == nil {
			return nil
		}
		e = e.Dir[n]
	}
	return e
}
