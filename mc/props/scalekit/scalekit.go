// Package scalekit runs the size sweeps ("scale" shards) that several properties share: one canonical
// program per (shape, size), every size up to a bound and around the powers of two beyond it.
package scalekit

import (
	"fmt"
	"regexp"
	"strings"

	"github.com/openconfig/goyang/pkg/yang"
	"verif/mc/core"
	"verif/mc/dump"
)

// Case names one program of a sweep.
type Case struct {
	Shape string `json:"shape"`
	N     int    `json:"n"`
	V     int    `json:"variant,omitempty"`
	// X: the same program at the crossing with a second dimension (see Crossings): its prefixes
	// respelt in an awkward but legal class, and / or parse options that do not change what is built
	X int `json:"crossed_with,omitempty"`
}

// Crossings names the second dimensions a size sweep is crossed with.
var Crossings = []string{"", "dotted prefixes", "upper-case prefixes with an underscore", "prefixes of 64 bytes and more", "options StoreUses and IgnoreSubmoduleCircularDependencies", "dotted prefixes under those options"}

// X is the crossing of the case being checked (set by Run; harnesses read it through Text and NewModules).
var X int

var prefixDecl = regexp.MustCompile(`\bprefix ([A-Za-z_][A-Za-z0-9_.-]*);`)

func respell(p string) string {
	switch X {
	case 1, 5:
		return p + ".x." + p
	case 2:
		return strings.ToUpper(p) + "_"
	case 3:
		return p + strings.Repeat("-"+p, 64/(len(p)+1)+1)
	}
	return p
}

// Text returns a module text as the current crossing spells it: every prefix the text declares (its
// own, those of its imports, that of belongs-to) is respelt, in the declaration and wherever it is used.
func Text(text string) string {
	if X == 0 || X == 4 {
		return text
	}
	seen := map[string]bool{}
	for _, m := range prefixDecl.FindAllStringSubmatch(text, -1) {
		seen[m[1]] = true
	}
	for p := range seen {
		np := respell(p)
		text = strings.ReplaceAll(text, "prefix "+p+";", "prefix "+np+";")
		use := regexp.MustCompile(`(^|[^A-Za-z0-9_.-])` + regexp.QuoteMeta(p) + `:`)
		// (twice: adjacent uses share the separating character)
		text = use.ReplaceAllString(text, "${1}"+np+":")
		text = use.ReplaceAllString(text, "${1}"+np+":")
	}
	return text
}

// NewModules returns a module set with the options of the current crossing.
func NewModules() *yang.Modules {
	ms := yang.NewModules()
	if X == 4 || X == 5 {
		ms.ParseOptions.StoreUses = true
		ms.ParseOptions.IgnoreSubmoduleCircularDependencies = true
	}
	return ms
}

// Verdict of a check: Fp == "" means the case holds.
type Verdict struct{ Fp, Exp, Obs string }

func OK() Verdict { return Verdict{} }
func Bad(fp, exp, obs string) Verdict {
	return Verdict{fp, exp, obs}
}

const Shards = 8

// NoCross: shapes whose oracle spells prefixes itself (they are not crossed).
var NoCross = map[string]bool{}

// ShardNames returns the shard names "scale/0".."scale/7".
func ShardNames() []string {
	var out []string
	for i := 0; i < Shards; i++ {
		out = append(out, fmt.Sprintf("scale/%d", i))
	}
	return out
}

// Run executes the cases of one shard. wrap builds the property's replayable input.
func Run(c *core.Ctx, shard string, cases []Case, chk func(Case) Verdict, wrap func(Case) any) {
	var k int
	fmt.Sscanf(shard, "scale/%d", &k)
	// every case plainly, and once more at a crossing (quick: one crossing per case, taking turns;
	// thorough: all of them)
	var all []Case
	for i, cs := range cases {
		all = append(all, cs)
		if NoCross[cs.Shape] {
			continue
		}
		for x := 1; x < len(Crossings); x++ {
			if c.Tier == "thorough" || x == 1+i%(len(Crossings)-1) {
				cx := cs
				cx.X = x
				all = append(all, cx)
			}
		}
	}
	cases = all
	defer func() { X = 0 }()
	for i, cs := range cases {
		if i%Shards != k {
			continue
		}
		if c.Expired() {
			return
		}
		X = cs.X
		caseNo, run := c.Begin()
		if c.Skip(caseNo, run, wrap(cs)) {
			continue
		}
		c.Exec()
		c.Validate()
		c.Edge(int64(cs.N))
		c.StateN(1)
		c.NontrivialN(1)
		var v Verdict
		if pan, pt := core.Guard(func() { v = chk(cs) }); pan {
			v = Verdict{"panic@" + core.LastPanicSite, "no panic", pt}
		}
		if v.Fp != "" {
			c.Outcome("FAIL:" + v.Fp)
			c.Fail(caseNo, nil, "scale:"+v.Fp, wrap(cs), v.Exp, v.Obs)
		} else if cs.X > 0 {
			c.Outcome("scale-" + cs.Shape + "-holds:crossed")
		} else {
			c.Outcome("scale-" + cs.Shape + "-holds")
		}
	}
}

// Load parses the files in the given order (reverse: last first) and processes.
func Load(files []dump.File, reverse bool) (*yang.Modules, []error, error) {
	ms := NewModules()
	for i := range files {
		f := files[i]
		if reverse {
			f = files[len(files)-1-i]
		}
		if err := ms.Parse(Text(f.Text), f.Name); err != nil {
			return ms, nil, err
		}
	}
	return ms, ms.Process(), nil
}

// Down walks names below e.
func Down(e *yang.Entry, names ...string) *yang.Entry {
	for _, n := range names {
		if e == nil {
			return nil
		}
		e = e.Dir[n]
	}
	return e
}
