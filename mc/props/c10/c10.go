// Package c10 decides C10: range and length restrictions denote the written set and only narrow.
// Exhaustive enumeration of restriction strings over boundary grids, in derivation chains of
// depth 1..3, through module text + Process and through ParseRangesInt/ParseRangesDecimal, against
// big-integer interval sets.
package c10

import (
	"encoding/json"
	"fmt"
	"math/big"
	"strings"

	"github.com/openconfig/goyang/pkg/yang"
	"verif/mc/core"
	"verif/mc/gen/scale"
	"verif/mc/ref/num"
)

type typ struct {
	Name   string // YANG type name; "length" for string lengths
	FD     int
	Lo, Hi *big.Int // mantissas
}

func bi(s string) *big.Int { v, _ := new(big.Int).SetString(s, 10); return v }

func types(tier string) []typ {
	t := []typ{
		{"int8", 0, bi("-128"), bi("127")}, {"int16", 0, bi("-32768"), bi("32767")},
		{"int32", 0, bi("-2147483648"), bi("2147483647")}, {"int64", 0, num.MinInt64, num.MaxInt64},
		{"uint8", 0, bi("0"), bi("255")}, {"uint16", 0, bi("0"), bi("65535")},
		{"uint32", 0, bi("0"), bi("4294967295")}, {"uint64", 0, bi("0"), num.MaxUint64},
		{"length", 0, bi("0"), num.MaxUint64},
	}
	fds := []int{1, 2, 9, 17, 18}
	if tier == "thorough" {
		fds = fds[:0]
		for i := 1; i <= 18; i++ {
			fds = append(fds, i)
		}
	}
	for _, fd := range fds {
		t = append(t, typ{"decimal64", fd, num.MinInt64, num.MaxInt64})
	}
	return t
}

func (t typ) key() string { return fmt.Sprintf("%s.%d", t.Name, t.FD) }

// grid returns boundary literals for t (full) and a 6-value core.
func (t typ) grid(tier string) (full, core []string) {
	f := func(m *big.Int) string { return num.FormatMant(m, t.FD) }
	add := func(m *big.Int, d int64) *big.Int { return new(big.Int).Add(m, big.NewInt(d)) }
	one := num.Pow10(t.FD) // mantissa of 1
	full = []string{"min", "max", f(t.Lo), f(t.Hi), f(add(t.Lo, 1)), f(add(t.Hi, -1)), f(add(t.Lo, -1)), f(add(t.Hi, 1)),
		"0", f(big.NewInt(1)), f(big.NewInt(2)), f(big.NewInt(-1))}
	if t.FD > 0 {
		full = append(full, "1", f(new(big.Int).Add(one, big.NewInt(1))))
		// literals written with fewer fraction digits than the type has, just beyond and far beyond
		// the largest value: scaling them to the type's fraction digits leaves the 64-bit range
		w := new(big.Int).Add(new(big.Int).Quo(t.Hi, one), big.NewInt(1))
		full = append(full, w.String(), new(big.Int).Mul(w, big.NewInt(2)).String(), new(big.Int).Neg(w).String(), w.String()+".5")
	} else {
		full = append(full, "5", "-0")
		if t.Name == "length" {
			full = full[:len(full)-1]
		}
	}
	if t.Lo.Sign() == 0 {
		// unsigned: -1 and lo-1 coincide; keep (deduplicated below)
	}
	core = []string{"min", "max", "0", f(big.NewInt(1)), f(t.Hi)}
	if tier == "thorough" {
		core = append(core, f(big.NewInt(2)))
	}
	return dedup(full), dedup(core)
}

func dedup(in []string) []string {
	seen := map[string]bool{}
	var out []string
	for _, s := range in {
		if !seen[s] {
			seen[s] = true
			out = append(out, s)
		}
	}
	return out
}

func parts(grid []string) []string {
	var p []string
	for _, a := range grid {
		p = append(p, a)
	}
	for _, a := range grid {
		for _, b := range grid {
			p = append(p, a+".."+b)
		}
	}
	return p
}

var faults = []string{"", "|", "1|", "|1", "1||2", "..", "1..", "..1", "1...2", "1..2..3", "a", "1..a", "1 2", "1.", ".5", "1.5.2", "--1", "1-2", "min..", "maxx", "1|a"}

// Input is one case: a chain of restrictions applied to a base type (text path), or a single
// restriction string handed to ParseRangesInt / ParseRangesDecimal (direct path).
type Input struct {
	Type   string   `json:"type"`
	FD     int      `json:"fd"`
	Chain  []string `json:"chain"`
	Direct bool     `json:"direct,omitempty"`
}

func (in Input) typ() typ {
	for _, t := range types("thorough") {
		if t.Name == in.Type && t.FD == in.FD {
			return t
		}
	}
	panic("unknown type " + in.Type)
}

type prediction struct {
	mustReject bool
	mayReject  bool // some level is laid out in a way RFC 7950 forbids (unsorted / overlapping parts): either outcome
	set        num.Set
	why        string
}

func predict(t typ, chain []string, withParent bool) prediction {
	var parent num.Set
	if withParent {
		parent = num.Set{{Lo: t.Lo, Hi: t.Hi}}
	}
	var p prediction
	for i, s := range chain {
		r := num.ParseRestriction(s, t.FD, parent)
		if r.Fault != num.OK {
			return prediction{mustReject: true, why: fmt.Sprintf("level %d: %s", i, r.Fault)}
		}
		if withParent && !num.Subset(r.Set, parent) {
			return prediction{mustReject: true, why: fmt.Sprintf("level %d: not within parent %s", i, parent)}
		}
		if !withParent {
			// no parent: every mantissa must still be representable
			for _, iv := range r.Set {
				lo, hi := num.MinInt64, num.MaxInt64
				if t.FD == 0 {
					lo, hi = new(big.Int).Neg(num.MaxUint64), num.MaxUint64
				}
				if iv.Lo.Cmp(lo) < 0 || iv.Hi.Cmp(hi) > 0 {
					return prediction{mustReject: true, why: "bound not representable"}
				}
			}
		}
		if !r.Ascending {
			p.mayReject = true
		}
		parent = r.Set
	}
	p.set = parent
	return p
}

func renderChain(t typ, chain []string) string {
	var sb strings.Builder
	sb.WriteString("module m { namespace \"urn:m\"; prefix m;\n")
	base, kw, extra := t.Name, "range", ""
	if t.Name == "length" {
		base, kw = "string", "length"
	}
	if t.Name == "decimal64" {
		extra = fmt.Sprintf(" fraction-digits %d;", t.FD)
	}
	prev := base
	for i, r := range chain {
		body := fmt.Sprintf("type %s {%s %s \"%s\"; }", prev, extra, kw, r)
		extra = ""
		if i == len(chain)-1 {
			fmt.Fprintf(&sb, " leaf l { %s }\n", body)
		} else {
			fmt.Fprintf(&sb, " typedef t%d { %s }\n", i+1, body)
			prev = fmt.Sprintf("t%d", i+1)
		}
	}
	sb.WriteString("}\n")
	return sb.String()
}

type fail struct{ fp, exp, obs string }

func toSet(r yang.YangRange, fd int) (num.Set, bool) {
	var s num.Set
	ok := true
	for _, x := range r {
		if int(x.Min.FractionDigits) != fd || int(x.Max.FractionDigits) != fd {
			ok = false
		}
		s = append(s, num.Iv{Lo: num.Mant(x.Min.Negative, x.Min.Value), Hi: num.Mant(x.Max.Negative, x.Max.Value)})
	}
	return s, ok
}

func judge(p prediction, got yang.YangRange, fd int, errText string) *fail {
	rejected := errText != ""
	if p.mustReject {
		if !rejected {
			return &fail{"accepts-must-reject", "error (" + p.why + ")", got.String()}
		}
		return nil
	}
	if rejected {
		// The statement speaks of the set *written* and of its *presentation* sorted, disjoint and
		// coalesced: parts written out of ascending order or overlapping are inside its domain (the
		// library normalises them), so they must be accepted like any other subset of the parent.
		fp := "rejects-valid"
		if p.mayReject {
			fp = "rejects-valid-written-unsorted-or-overlapping"
		}
		return &fail{fp, p.set.String(), errText}
	}
	g, fdOK := toSet(got, fd)
	if !num.Normalise(g).Equal(p.set) {
		return &fail{"wrong-set", p.set.String(), got.String()}
	}
	if !g.Equal(p.set) {
		return &fail{"not-normalised", p.set.String(), got.String()}
	}
	if !fdOK {
		return &fail{"fraction-digits-of-bounds", fmt.Sprint(fd), fmt.Sprintf("%+v", got)}
	}
	// the same set through the other methods of the range type: it validates, equals itself, prints
	// to a text that reads back as the same set, lies within its hull, and holds its hull only when
	// it is one interval
	if err := got.Validate(); err != nil {
		return &fail{"validate-rejects-the-resolved-set", "nil", err.Error()}
	}
	if !got.Equal(got) {
		return &fail{"set-not-equal-to-itself", "Equal", got.String()}
	}
	if len(got) > 0 {
		var back yang.YangRange
		var err error
		if fd == 0 {
			back, err = yang.ParseRangesInt(got.String())
		} else {
			back, err = yang.ParseRangesDecimal(got.String(), uint8(fd))
		}
		if err != nil || !back.Equal(got) {
			return &fail{"printed-set-reads-back-differently", got.String(), fmt.Sprint(back, err)}
		}
		if fd > 0 {
			// equality is about the numbers, not about how many fraction digits carry them: the same
			// text read at another precision is an equal set, the same mantissas at another
			// precision are another set (unless every bound is zero)
			if fd < 18 {
				if finer, err := yang.ParseRangesDecimal(got.String(), uint8(fd+1)); err == nil && (!finer.Equal(got) || !got.Equal(finer)) {
					return &fail{"equal-sets-at-two-precisions-unequal", got.String(), finer.String()}
				}
			}
			shifted := append(yang.YangRange{}, got...)
			nonzero := false
			for i := range shifted {
				shifted[i].Min.FractionDigits = uint8(fd%18 + 1)
				shifted[i].Max.FractionDigits = uint8(fd%18 + 1)
				if shifted[i].Min.Value != 0 || shifted[i].Max.Value != 0 {
					nonzero = true
				}
			}
			if nonzero && (shifted.Equal(got) || got.Equal(shifted)) {
				return &fail{"different-sets-equal", got.String() + " != " + shifted.String(), "Equal"}
			}
		}
		hull := yang.YangRange{{Min: got[0].Min, Max: got[len(got)-1].Max}}
		if !hull.Contains(got) {
			return &fail{"hull-does-not-contain-the-set", "Contains", hull.String() + " vs " + got.String()}
		}
		if got.Contains(hull) != (len(got) == 1) {
			return &fail{"set-contains-its-hull", fmt.Sprint(len(got) == 1), hull.String() + " vs " + got.String()}
		}
	}
	return nil
}

func check(in Input) (f *fail, p prediction) {
	t := in.typ()
	if in.Direct {
		p = predict(t, in.Chain, false)
		var got yang.YangRange
		var err error
		if pan, pt := core.Guard(func() {
			if t.FD == 0 {
				got, err = yang.ParseRangesInt(in.Chain[0])
			} else {
				got, err = yang.ParseRangesDecimal(in.Chain[0], uint8(t.FD))
			}
		}); pan {
			return &fail{"panic", "no panic", pt}, p
		}
		et := ""
		if err != nil {
			et = err.Error()
		}
		return judge(p, got, t.FD, et), p
	}
	p = predict(t, in.Chain, true)
	var got yang.YangRange
	var et string
	var f0 *fail
	if pan, pt := core.Guard(func() {
		ms := yang.NewModules()
		if err := ms.Parse(renderChain(t, in.Chain), "m.yang"); err != nil {
			f0 = &fail{"load-error", "loads", err.Error()}
			return
		}
		errs := ms.Process()
		if len(errs) > 0 {
			et = fmt.Sprint(errs)
			return
		}
		l := yang.ToEntry(ms.Modules["m"]).Dir["l"]
		if l == nil || l.Type == nil {
			f0 = &fail{"no-leaf-type", "leaf", "nil"}
			return
		}
		if t.Name == "length" {
			got = l.Type.Length
		} else {
			got = l.Type.Range
		}
		// the type's Root ("the root of this type that is the same", printed by the command's types
		// format in the type's place) denotes the same set
		if r := l.Type.Root; r != nil {
			rg := r.Range
			if t.Name == "length" {
				rg = r.Length
			}
			if rg.String() != got.String() {
				f0 = &fail{"root-of-the-type-denotes-another-set", "Root with " + got.String(), rg.String()}
			}
		} else {
			f0 = &fail{"root-of-the-type-denotes-another-set", "a root", "nil"}
		}
	}); pan {
		return &fail{"panic", "no panic", pt}, p
	}
	if f0 != nil {
		return f0, p
	}
	return judge(p, got, t.FD, et), p
}

func shards(tier string) []string {
	var out []string
	for _, t := range types(tier) {
		for _, sp := range []string{"d1", "d2", "d3", "direct", "faults"} {
			if sp == "d1" || sp == "d2" {
				for k := 0; k < 4; k++ {
					out = append(out, fmt.Sprintf("%s/%s/%d", t.key(), sp, k))
				}
				continue
			}
			out = append(out, fmt.Sprintf("%s/%s/0", t.key(), sp))
		}
		out = append(out, fmt.Sprintf("%s/many-parts/0", t.key()), fmt.Sprintf("%s/related/0", t.key()))
	}
	return out
}

func run(c *core.Ctx) {
	sp := strings.Split(c.Shard, "/")
	var t typ
	for _, x := range types(c.Tier) {
		if x.key() == sp[0] {
			t = x
		}
	}
	var k int
	fmt.Sscanf(sp[2], "%d", &k)
	full, coreG := t.grid(c.Tier)
	pf, pc := parts(full), parts(coreG)
	c.Res.Bound = "restriction strings of <= 2 parts over a 12..18-value boundary grid (3 parts over a 6-value core grid), layout variants, syntactic faults; derivation chains of depth 1..3; restrictions of 1..40 (80) parts, good and with a faulty first, middle or last part; all integer types, length, decimal64"
	n := 0
	one := func(in Input) {
		n++
		if c.Expired() {
			return
		}
		caseNo, run := c.Begin()
		if c.Skip(caseNo, run, in) {
			return
		}
		c.Exec()
		c.Validate()
		c.Edge(int64(len(in.Chain)))
		c.StateN(1)
		f, p := check(in)
		if !p.mustReject && len(in.Chain[len(in.Chain)-1]) > 3 {
			c.NontrivialN(1)
		}
		if f != nil {
			c.Outcome("FAIL:" + f.fp)
			var cl []string
			c.Fail(caseNo, cl, f.fp, in, f.exp, f.obs)
			return
		}
		switch {
		case p.mustReject:
			c.Outcome("rejected-as-required")
		case p.mayReject:
			c.Outcome("tolerated-layout")
		default:
			c.Outcome("set-as-written")
		}
		if n%5000 == 4999 && !p.mustReject {
			b, _ := json.Marshal(in)
			c.Sample(string(b))
		}
	}
	mk := func(chain ...string) Input { return Input{Type: t.Name, FD: t.FD, Chain: chain} }
	switch sp[1] {
	case "related":
		// numbers that are related as texts - one a prefix or a suffix of another (1, 12, 2, 20, 201,
		// 15, 5), equal as numbers but written differently (1.5, 1.50; 2.50 below one fraction digit)
		// - as bounds of a parent and of a restriction of it, all pairs, run one after the other in
		// one process in two orders: what a reader keeps under a key built from these texts collides
		// here if it ever does
		toks := []string{"1", "2", "4", "5", "6", "10", "12", "15", "20", "25", "64", "100", "201"}
		if t.FD > 0 {
			toks = nil
			for _, x := range []string{"1", "1.5", "1.50", "1.57", "2", "2.5", "2.50", "12", "12.5", "15", "20", "20.1", "0.1", "0.100"} {
				if i := strings.IndexByte(x, '.'); i < 0 || len(x)-i-1 <= t.FD+1 {
					toks = append(toks, x)
				}
			}
		}
		var ranges, children []string
		for i, a := range toks {
			children = append(children, a, ".."+a, a+"..")
			for _, b := range toks[i:] {
				if bi2, ok1 := new(big.Rat).SetString(a); ok1 {
					if bj, ok2 := new(big.Rat).SetString(b); ok2 && bi2.Cmp(bj) <= 0 {
						ranges = append(ranges, a+".."+b)
					}
				}
			}
		}
		children = append(children, ranges...)
		for pass := 0; pass < 2; pass++ {
			for i := range ranges {
				par := ranges[i]
				if pass == 1 {
					par = ranges[len(ranges)-1-i]
				}
				for _, ch := range children {
					one(mk(par, ch))
				}
			}
		}
	case "many-parts":
		// restrictions of n single-value parts for every n up to 40 (thorough 80): all good, or with
		// the first, middle or last part malformed, out of order, or outside the type; also as a
		// restriction of a parent with the same parts
		max := 40
		if c.Tier == "thorough" {
			max = 80
		}
		outside := "300"
		switch {
		case t.Name == "decimal64":
			outside = "99999999999999999999"
		case t.Name != "uint8" && t.Name != "int8":
			outside = "18446744073709551616"
		}
		for n := 1; n <= max; n++ {
			good := scale.RangeParts(n, 0, "")
			one(mk(good))
			one(mk(good, good))
			one(Input{Type: t.Name, FD: t.FD, Chain: []string{good}, Direct: true})
			for _, k := range []int{1, (n + 1) / 2, n} {
				for _, bad := range []string{"oops", "90..80", outside, ""} {
					one(mk(scale.RangeParts(n, k, bad)))
					one(Input{Type: t.Name, FD: t.FD, Chain: []string{scale.RangeParts(n, k, bad)}, Direct: true})
				}
				if n > 1 {
					// a child that drops the k-th part, and one that adds a value outside the parent
					child := strings.Replace(" "+good+" ", fmt.Sprintf(" %d ", 2*(k-1)+1), " ", 1)
					child = strings.Trim(strings.ReplaceAll(strings.ReplaceAll(child, "|  |", "|"), "  ", " "), " |")
					one(mk(good, child))
					one(mk(good, good+" | "+fmt.Sprint(2*n+2)))
				}
			}
		}
	case "d1":
		if k == 0 {
			for _, a := range pf {
				one(mk(a))
			}
			for _, a := range pc {
				for _, b := range pc {
					for _, d := range pc {
						one(mk(a + "|" + b + "|" + d))
					}
				}
			}
		}
		for i, a := range pf {
			if i%4 != k {
				continue
			}
			for _, b := range pf {
				one(mk(a + "|" + b))
			}
		}
		if k == 1 { // layout variants: optional white space around the separators
			for _, a := range pc {
				for _, b := range pc {
					one(mk(strings.Replace(a, "..", " .. ", 1) + " | " + b))
					one(mk(" " + a + "|\t" + strings.Replace(b, "..", "\n..", 1) + " "))
					// an argument wrapped over lines in a file with CR LF line ends
					one(mk(a + " |\r\n   " + strings.Replace(b, "..", "..\r\n  ", 1)))
					one(mk("\r\n " + strings.Replace(a, "..", "\r\n..", 1) + "\r\n|" + b + "\r\n"))
					if t.Name != "length" {
						one(Input{Type: t.Name, FD: t.FD, Chain: []string{a + " |\r\n " + b}, Direct: true})
					}
				}
			}
		}
	case "d2":
		// parents: every accepted single part of the full grid, plus two-part parents over the core grid
		var parents []string
		parents = append(parents, pf...)
		for _, a := range pc {
			for _, b := range pc {
				parents = append(parents, a+"|"+b)
			}
		}
		for i, pr := range parents {
			if i%4 != k {
				continue
			}
			if predict(t, []string{pr}, true).mustReject {
				continue
			}
			if c.Tier == "thorough" || i < len(pf) {
				for _, ch := range pf {
					one(mk(pr, ch))
				}
			} else {
				for _, ch := range pc {
					one(mk(pr, ch))
				}
			}
			if c.Tier == "thorough" || i >= len(pf) {
				kids := pc
				if c.Tier != "thorough" {
					kids = nil // quick: single values and the ranges between neighbours of the core grid
					for _, a := range coreG {
						kids = append(kids, a)
					}
					for i := 0; i+1 < len(coreG); i++ {
						kids = append(kids, coreG[i]+".."+coreG[i+1], coreG[i+1]+".."+coreG[i])
					}
				}
				for _, a := range kids {
					for _, b := range kids {
						if a != b {
							one(mk(pr, a+"|"+b))
						}
					}
				}
			}
		}
	case "d3":
		for _, a := range pc {
			if predict(t, []string{a}, true).mustReject {
				continue
			}
			for _, b := range pc {
				if predict(t, []string{a, b}, true).mustReject {
					continue
				}
				for _, d := range pc {
					one(mk(a, b, d))
				}
			}
		}
	case "direct":
		if t.Name == "length" {
			return
		}
		var g []string
		for _, v := range full {
			if v != "min" && v != "max" {
				g = append(g, v)
			}
		}
		pg := parts(g)
		for _, a := range pg {
			in := mk(a)
			in.Direct = true
			one(in)
			for _, b := range pg {
				in := mk(a + "|" + b)
				in.Direct = true
				one(in)
			}
		}
		for _, f := range faults {
			in := mk(f)
			in.Direct = true
			one(in)
		}
	case "faults":
		for _, f := range faults {
			one(mk(f))
			one(mk("min..max", f))
			one(mk(f + "|5"))
		}
		if t.FD > 0 {
			tooFine := "0." + strings.Repeat("0", t.FD) + "1"
			one(mk(tooFine))
			one(mk("0.." + tooFine))
			one(mk("min..max", tooFine))
		} else {
			one(mk("0.5"))
			one(mk("0..1.5"))
		}
	}
}

func replay(tier string, raw json.RawMessage) (bool, string, string) {
	var in Input
	if err := json.Unmarshal(raw, &in); err != nil {
		return false, "", err.Error()
	}
	f, _ := check(in)
	if f == nil {
		return false, "", "agrees with the interval reference"
	}
	txt := ""
	if !in.Direct {
		txt = renderChain(in.typ(), in.Chain)
	}
	return true, f.fp, fmt.Sprintf("expected %s observed %s\n%s", f.exp, f.obs, txt)
}

func init() {
	core.Register(&core.Prop{
		ID: "C10", Variant: "plain", Shards: shards, Run: run, Replay: replay,
		Rule:        "for each of the 8 integer types, string length and decimal64 at the chosen fraction-digits: every restriction string with <= 2 parts (v or v..w) over a boundary grid (min, max, type bounds and +-1, 0, +-1 quantum, 2, -0, for decimal64 also short literals whose scaling to the type's fraction digits leaves the 64-bit range, ...), 3 parts over a 6-value core grid, white-space layout variants and a syntactic-fault list; every depth-2 chain (accepted parent x child) and depth-3 chain over the core grid; run through typedef/leaf text + Process (Entry.Type.Range/Length) and through ParseRangesInt/ParseRangesDecimal, and compared with big.Int interval sets: accepted => exactly the written set, sorted/disjoint/coalesced, bounds at the type's fraction digits; syntactically invalid, out-of-order or wider-than-parent => error; RFC-valid and within the parent => accepted. states = distinct (type, chain); non-trivial = not rejected by the reference",
		Assumptions: []string{"boundary grids stand in for the numeric domains", "parts written out of ascending order or overlapping are inside the statement's domain (it speaks of the written set and of its sorted, coalesced presentation) and must be accepted when within the parent", "hexadecimal/octal notations, which the library documents as accepted, are not generated"},
	})
}
