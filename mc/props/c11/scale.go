package c11

import (
	"fmt"
	"sort"
	"strings"

	"github.com/openconfig/goyang/pkg/yang"
	"verif/mc/dump"
	"verif/mc/explore"
	"verif/mc/gen/scale"
	"verif/mc/order"
	"verif/mc/props/scalekit"
)

// scale: derivation chains of every length with a diamond at the end, fans of n directly derived
// identities with joins, the same closed into a cycle, and every ordered include tree of up to six
// (thorough seven) submodules each of which derives an identity from the module's root - processed
// once and twice.

func scaleCases(tier string) []scalekit.Case {
	var out []scalekit.Case
	for _, n := range scale.Sizes(70, 257) {
		out = append(out, scalekit.Case{Shape: "identity-chain", N: n}, scalekit.Case{Shape: "identity-chain-cycle", N: n}, scalekit.Case{Shape: "identity-fan", N: n})
	}
	for _, n := range scale.Sizes(40, 129) {
		out = append(out, scalekit.Case{Shape: "many-module-identities", N: n}, scalekit.Case{Shape: "many-bases", N: n})
	}
	for _, n := range scale.Sizes(24, 65) {
		out = append(out, scalekit.Case{Shape: "equal-names", N: n})
	}
	// a long list crossed with a revision arrangement: two (three) loaded revisions of one module each
	// derive n identities of the same names from the root of another module
	for _, n := range scale.Sizes(80, 257) {
		out = append(out, scalekit.Case{Shape: "revisions-with-equal-names", N: n, V: 2})
		if n%8 == 1 {
			out = append(out, scalekit.Case{Shape: "revisions-with-equal-names", N: n, V: 3})
		}
	}
	// names that concatenate alike: module M1 with base B1 and module M2 with base B2 such that
	// M1+S+B1 = M2+S+B2 for a separator S (N picks it: none, -, ., _), the modules without revisions
	// (variant 0), both with one (1), in one module set with a user that derives from both (2, 3)
	for n := 0; n < 4; n++ {
		for v := 0; v < 4; v++ {
			out = append(out, scalekit.Case{Shape: "names-that-concatenate-alike", N: n, V: v})
		}
	}
	// n modules that share one prefix (variant 0; 1: a prefix each; 2: shared, the members reached
	// through typedefs), each with an identity of the same name, all of them bases of the identityref
	// members of one union
	for n := 2; n <= 6; n++ {
		for v := 0; v < 3; v++ {
			out = append(out, scalekit.Case{Shape: "union-of-identityrefs-with-equal-prefixed-names", N: n, V: v})
		}
	}
	maxK := 7
	if tier == "thorough" {
		maxK = 8
	}
	for k := 2; k <= maxK; k++ {
		i := 0
		scale.IncludeTrees(k, func(kids [][]int) {
			out = append(out, scalekit.Case{Shape: "include-tree", N: k, V: i})
			i++
		})
	}
	return out
}

func valuesOf(ms *yang.Modules, name string) (string, bool) {
	for _, mm := range []map[string]*yang.Module{ms.Modules, ms.SubModules} {
		for _, m := range mm {
			for _, id := range m.Identity {
				if id.Name == name {
					var vs []string
					for _, v := range id.Values {
						vs = append(vs, v.Name)
					}
					return strings.Join(vs, " "), true
				}
			}
		}
	}
	return "", false
}

func sorted(xs []string) string { sort.Strings(xs); return strings.Join(xs, " ") }

// equal-names: identities named a, k and z in each of n modules: the list of root is the same
// sequence in every load (six fresh sets), holds 4 n identities, each once
func checkEqualNames(cs scalekit.Case) scalekit.Verdict {
	files := scale.EqualNames(cs.N)
	first := ""
	// on the instrumented build every single deviation of map iteration order is explored for the
	// sizes around the threshold of 32 identities; elsewhere two load orders
	var runs []*explore.X
	if order.Active() && cs.N >= 7 && cs.N <= 10 {
		explore.DFS(1, func(x *explore.X) {
			order.Install(func(n int, site string) int { return x.Choose(n, site) })
			ms := scalekit.NewModules()
			for _, f := range files {
				ms.Parse(scalekit.Text(f.Text), f.Name)
			}
			ms.Process()
			order.Install(nil)
			var seq []string
			for _, v := range ms.Modules["m0"].Identity[0].Values {
				seq = append(seq, yang.RootNode(v).Name+":"+v.Name)
			}
			s := strings.Join(seq, " ")
			if first == "" {
				first = s
			} else if s != first && len(runs) == 0 {
				runs = append(runs, x)
				first = first + "\n--- under map-order choices " + fmt.Sprint(x.Choices) + ":\n" + s
			}
		}, nil, func() bool { return len(runs) > 0 })
		if len(runs) > 0 {
			return scalekit.Bad("values-sequence-depends-on-order", "the same sequence under every map iteration order", first)
		}
		first = ""
	}
	for round := 0; round < 6; round++ {
		ms, errs, lerr := scalekit.Load(files, round%2 == 1)
		if lerr != nil || len(errs) > 0 {
			return scalekit.Bad("spurious-errors", "loads and processes", fmt.Sprint(lerr, dump.Errors(errs)))
		}
		var seq []string
		seen := map[*yang.Identity]bool{}
		for _, v := range ms.Modules["m0"].Identity[0].Values {
			if seen[v] {
				return scalekit.Bad("values-differ-from-reverse-reachability", "each identity once", "twice: "+v.Name)
			}
			seen[v] = true
			seq = append(seq, yang.RootNode(v).Name+":"+v.Name)
		}
		if len(seq) != 4*cs.N {
			return scalekit.Bad("values-differ-from-reverse-reachability", fmt.Sprintf("%d derived identities", 4*cs.N), fmt.Sprint(len(seq)))
		}
		s := strings.Join(seq, " ")
		if first == "" {
			first = s
		} else if s != first {
			return scalekit.Bad("values-sequence-depends-on-order", first, s)
		}
	}
	return scalekit.OK()
}

// revisions-with-equal-names: every revision's identities are identities of their own; the root
// lists all of them, each once, and each d(i) of each revision lists its own e(i).
func checkRevisions(cs scalekit.Case) scalekit.Verdict {
	files := []dump.File{{Name: "base.yang", Text: `module base { namespace "urn:base"; prefix base; identity root; leaf r { type identityref { base root; } } }`}}
	for r := 0; r < cs.V; r++ {
		var sb strings.Builder
		fmt.Fprintf(&sb, `module d { namespace "urn:d"; prefix d; import base { prefix b; } revision 202%d-01-01;`, r)
		for i := 0; i < cs.N; i++ {
			fmt.Fprintf(&sb, " identity d%d { base b:root; }", i)
			if i%16 == 0 {
				fmt.Fprintf(&sb, " identity e%d { base d%d; }", i, i)
			}
		}
		sb.WriteString(" }")
		files = append(files, dump.File{Name: fmt.Sprintf("d-202%d.yang", r), Text: sb.String()})
	}
	for _, rev := range []bool{false, true} {
		ms, errs, lerr := scalekit.Load(files, rev)
		if lerr != nil || len(errs) > 0 {
			return scalekit.Bad("spurious-errors", "loads and processes", fmt.Sprint(lerr, dump.Errors(errs)))
		}
		for twice := 0; twice < 2; twice++ {
			root := ms.Modules["base"].Identity[0]
			perFile := map[string]int{}
			seen := map[*yang.Identity]bool{}
			for _, v := range root.Values {
				if seen[v] {
					return scalekit.Bad("identity-listed-twice", "each once", v.Name+" of "+yang.Source(v))
				}
				seen[v] = true
				perFile[strings.SplitN(yang.Source(v), ":", 2)[0]]++
			}
			wantPer := cs.N + (cs.N+15)/16
			for r := 0; r < cs.V; r++ {
				if got := perFile[fmt.Sprintf("d-202%d.yang", r)]; got != wantPer {
					return scalekit.Bad("derived-identities-of-a-revision-missing", fmt.Sprintf("%d identities of revision 202%d-01-01 below root", wantPer, r), fmt.Sprintf("%d (list of %d in all, per file %v)", got, len(root.Values), perFile))
				}
			}
			if e := yang.ToEntry(ms.Modules["base"]).Dir["r"]; e == nil || e.Type == nil || e.Type.IdentityBase != root {
				return scalekit.Bad("identityref-base-is-another-object", "the identity root", "another")
			}
			for _, m := range ms.Modules {
				if m.Name != "d" {
					continue
				}
				for _, id := range m.Identity {
					if strings.HasPrefix(id.Name, "d") && (id.Name[1:] == "0" || len(id.Values) > 0) {
						var n int
						fmt.Sscanf(id.Name, "d%d", &n)
						if n%16 == 0 && (len(id.Values) != 1 || id.Values[0].Name != fmt.Sprintf("e%d", n) || yang.RootNode(id.Values[0]) != yang.RootNode(id)) {
							return scalekit.Bad("derived-identity-of-another-revision", fmt.Sprintf("%s of %s lists its own e%d", id.Name, yang.Source(id), n), fmt.Sprint(len(id.Values)))
						}
					}
				}
			}
			if errs := ms.Process(); len(errs) > 0 {
				return scalekit.Bad("spurious-errors@second-process", "no errors", dump.Errors(errs))
			}
		}
	}
	return scalekit.OK()
}

func checkConcat(cs scalekit.Case) scalekit.Verdict {
	sep := []string{"", "-", ".", "_"}[cs.N]
	m1, b1 := "acme"+sep+"vlan", "stack"+sep+"type"
	m2, b2 := "acme"+sep+"vlan"+sep+"stack", "type"
	if sep == "" {
		m1, b1, m2, b2 = "acme-vlan", "stacktype", "acme-vlanstack", "type"
	}
	rev := ""
	if cs.V%2 == 1 {
		rev = " revision 2020-01-01;"
	}
	mod := func(name, base, tag string) dump.File {
		return dump.File{Name: name + ".yang", Text: fmt.Sprintf(`module %s { namespace "urn:%s"; prefix %s;%s identity %s; identity %s1 { base %s; } identity %s2 { base %s; } identity %s3 { base %s1; } leaf r { type identityref { base %s; } } }`, name, name, tag, rev, base, tag, base, tag, base, tag, tag, base)}
	}
	files := []dump.File{mod(m1, b1, "x"), mod(m2, b2, "y")}
	want := map[string]string{m1 + ":" + b1: m1 + ":x1 " + m1 + ":x2 " + m1 + ":x3", m2 + ":" + b2: m2 + ":y1 " + m2 + ":y2 " + m2 + ":y3"}
	if cs.V >= 2 {
		files = append(files, dump.File{Name: "user.yang", Text: fmt.Sprintf(`module user { namespace "urn:user"; prefix user; import %s { prefix p; } import %s { prefix pq; } identity u1 { base p:%s; } identity u2 { base pq:%s; } }`, m1, m2, b1, b2)})
		want[m1+":"+b1] += " user:u1"
		want[m2+":"+b2] += " user:u2"
	}
	for _, revOrder := range []bool{false, true} {
		for twice := 0; twice < 2; twice++ {
			ms, errs, lerr := scalekit.Load(files, revOrder)
			if lerr != nil || len(errs) > 0 {
				return scalekit.Bad("spurious-errors", "loads and processes", fmt.Sprint(lerr, dump.Errors(errs)))
			}
			for _, mn := range []string{m1, m2} {
				m := ms.Modules[mn]
				base := m.Identity[0]
				var got []string
				for _, v := range base.Values {
					got = append(got, yang.RootNode(v).Name+":"+v.Name)
				}
				sort.Strings(got)
				if w := want[mn+":"+base.Name]; strings.Join(got, " ") != w {
					return scalekit.Bad("derived-identities-of-a-module-with-a-related-name", mn+":"+base.Name+" = "+w, strings.Join(got, " "))
				}
				if r := yang.ToEntry(m).Dir["r"]; r == nil || r.Type == nil || r.Type.IdentityBase != base {
					return scalekit.Bad("identityref-base-is-another-object", mn+":"+base.Name, "another identity")
				}
			}
		}
	}
	return scalekit.OK()
}

// union-of-identityrefs-with-equal-prefixed-names: every member of the union is there, in written
// order, and stands for the identity its base names - with the derivations of that one.
func checkUnionOfIdentityrefs(cs scalekit.Case) scalekit.Verdict {
	var files []dump.File
	var user strings.Builder
	user.WriteString(`module user { namespace "urn:user"; prefix user;`)
	for i := 0; i < cs.N; i++ {
		pfx := "p"
		if cs.V == 1 {
			pfx = fmt.Sprintf("p%d", i)
		}
		files = append(files, dump.File{Name: fmt.Sprintf("a%d.yang", i), Text: fmt.Sprintf(`module a%d { namespace "urn:a%d"; prefix %s; identity kind; identity d%d { base kind; } typedef ref { type identityref { base kind; } } }`, i, i, pfx, i)})
		fmt.Fprintf(&user, " import a%d { prefix q%d; }", i, i)
	}
	user.WriteString(" leaf either { type union {")
	for i := 0; i < cs.N; i++ {
		if cs.V == 2 {
			fmt.Fprintf(&user, " type q%d:ref;", i)
		} else {
			fmt.Fprintf(&user, " type identityref { base q%d:kind; }", i)
		}
	}
	user.WriteString(" } } }")
	files = append(files, dump.File{Name: "user.yang", Text: user.String()})
	for _, rev := range []bool{false, true} {
		ms, errs, lerr := scalekit.Load(files, rev)
		if lerr != nil || len(errs) > 0 {
			return scalekit.Bad("spurious-errors", "loads and processes", fmt.Sprint(lerr, dump.Errors(errs)))
		}
		e := yang.ToEntry(ms.Modules["user"]).Dir["either"]
		if e == nil || e.Type == nil || e.Type.Kind != yang.Yunion {
			return scalekit.Bad("union-members-wrong", "a union", "none")
		}
		if len(e.Type.Type) != cs.N {
			return scalekit.Bad("union-members-wrong", fmt.Sprintf("%d identityref members, one per base", cs.N), fmt.Sprintf("%d: %s", len(e.Type.Type), dump.Type(e.Type, 0)))
		}
		for i, m := range e.Type.Type {
			want := ms.Modules[fmt.Sprintf("a%d", i)].Identity[0]
			if m.Kind != yang.Yidentityref || m.IdentityBase != want {
				return scalekit.Bad("union-members-wrong", fmt.Sprintf("member %d: identityref of a%d's kind", i, i), dump.Type(m, 0))
			}
			if len(m.IdentityBase.Values) != 1 || m.IdentityBase.Values[0].Name != fmt.Sprintf("d%d", i) {
				return scalekit.Bad("values-differ-from-reverse-reachability", fmt.Sprintf("member %d offers d%d", i, i), dump.Type(m, 0))
			}
		}
	}
	return scalekit.OK()
}

func checkScale(cs scalekit.Case) scalekit.Verdict {
	if cs.Shape == "union-of-identityrefs-with-equal-prefixed-names" {
		return checkUnionOfIdentityrefs(cs)
	}
	if cs.Shape == "names-that-concatenate-alike" {
		return checkConcat(cs)
	}
	if cs.Shape == "equal-names" {
		return checkEqualNames(cs)
	}
	if cs.Shape == "revisions-with-equal-names" {
		return checkRevisions(cs)
	}
	var files []dump.File
	want := map[string]string{} // identity -> sorted names of everything derived from it
	switch cs.Shape {
	case "identity-chain", "identity-chain-cycle":
		files = []dump.File{scale.IdentityChain(cs.N, cs.Shape == "identity-chain-cycle")}
		var all []string
		for i := 1; i <= cs.N; i++ {
			all = append(all, fmt.Sprintf("i%d", i))
		}
		all = append(all, "x")
		want["root"] = sorted(append([]string{}, all...))
		want["i1"] = sorted(append([]string{}, all[1:]...))
		want[fmt.Sprintf("i%d", cs.N)] = "x"
		if cs.N == 1 {
			want["i1"] = "x"
		}
	case "identity-fan":
		files = []dump.File{scale.IdentityFan(cs.N)}
		var all []string
		for i := 0; i < cs.N; i++ {
			all = append(all, fmt.Sprintf("d%d", i))
			if i%10 == 9 {
				all = append(all, fmt.Sprintf("j%d", i))
				want[fmt.Sprintf("d%d", i)] = fmt.Sprintf("j%d", i)
				want[fmt.Sprintf("d%d", i-5)] = fmt.Sprintf("j%d", i)
			}
		}
		want["root"] = sorted(all)
		want["d0"] = ""
	case "many-module-identities":
		files = scale.ManyModuleIdentities(cs.N)
		var all []string
		for i := 0; i <= cs.N; i++ {
			all = append(all, fmt.Sprintf("id%d", i))
		}
		want["root"] = sorted(append([]string{}, all...))
		want["id0"] = sorted(append([]string{}, all[1:]...))
		want[fmt.Sprintf("id%d", cs.N)] = ""
		if cs.N > 1 {
			want[fmt.Sprintf("id%d", cs.N/2)] = sorted(append([]string{}, all[cs.N/2+1:]...))
		}
	case "many-bases":
		files = []dump.File{scale.Counts(cs.N)}
		for i := 0; i < cs.N; i++ {
			want[fmt.Sprintf("b%d", i)] = "all"
		}
		want["all"] = ""
	case "include-tree":
		i := 0
		var all []string
		scale.IncludeTrees(cs.N, func(kids [][]int) {
			if i == cs.V {
				files = scale.IncludeTreeFiles(kids, false)
			}
			i++
		})
		for k := 1; k < cs.N; k++ {
			all = append(all, fmt.Sprintf("id%d", k))
		}
		want["root"] = sorted(all)
	}
	for _, rev := range []bool{false, true} {
		ms, errs, lerr := scalekit.Load(files, rev)
		if lerr != nil {
			return scalekit.Bad("load-error", "loads", lerr.Error())
		}
		for round := 0; round < 2; round++ {
			if round == 1 {
				errs = ms.Process()
			}
			if cs.Shape == "identity-chain-cycle" {
				if len(errs) == 0 {
					return scalekit.Bad("cycle-not-reported", "an error", fmt.Sprintf("none (Process call %d)", round+1))
				}
				continue
			}
			if len(errs) > 0 {
				return scalekit.Bad("spurious-errors", "no errors", dump.Errors(errs))
			}
			for id, w := range want {
				got, ok := valuesOf(ms, id)
				if !ok {
					return scalekit.Bad("identity-missing", id, "not found")
				}
				g := strings.Fields(got)
				if sorted(append([]string{}, g...)) != w {
					return scalekit.Bad("values-differ-from-reverse-reachability", id+": "+w, fmt.Sprintf("%s (Process call %d)", got, round+1))
				}
			}
			if cs.Shape == "many-bases" {
				continue
			}
			rm := ms.Modules["m"]
			if cs.Shape == "many-module-identities" {
				rm = ms.Modules["m0"]
			}
			r := yang.ToEntry(rm).Dir["r"]
			if r == nil || r.Type == nil || r.Type.IdentityBase == nil {
				return scalekit.Bad("identityref-without-base", "root", "nil")
			}
			var vs []string
			for _, v := range r.Type.IdentityBase.Values {
				vs = append(vs, v.Name)
			}
			if sorted(vs) != want["root"] {
				return scalekit.Bad("identityref-sees-another-list", want["root"], strings.Join(vs, " "))
			}
		}
	}
	return scalekit.OK()
}
