// Package c11 decides C11: each identity lists exactly its transitive derivations, once, in fixed
// order. All derivation graphs over N <= 3 (thorough 4) identities - every subset of the N^2
// possible base edges, so self-loops, cycles, diamonds and multiple bases - x every placement of
// the identities in module a, module b and a submodule of a x equal or distinct names x two prefix
// regimes (prefix = module name; both modules declare the same prefix) x two spellings of local
// bases are loaded in every order, and on the instrumented build under every single deviation of
// map iteration order; Values of every identity must be exactly the reverse-reachability set of the
// generated graph, and the same sequence in every explored execution.
package c11

import (
	"encoding/json"
	"fmt"
	"sort"
	"strings"

	"github.com/openconfig/goyang/pkg/yang"
	"verif/mc/core"
	"verif/mc/dump"
	"verif/mc/explore"
	"verif/mc/order"
	"verif/mc/props/scalekit"
)

// G is one program: identity i lives in Place[i] (0: module a, 1: module b, 2: submodule as of a),
// is called Names[i], and Edge[i][j] means "i has base j".
type G struct {
	N       int      `json:"n"`
	Place   []int    `json:"place"`
	Names   []string `json:"names"`
	Edge    [][]bool `json:"edge"`
	SamePfx bool     `json:"same_prefix"`      // a and b both declare prefix p (and import each other as pa / pb)
	OwnPfx  bool     `json:"own_prefix"`       // local bases are spelled with the module's own prefix
	Undef   int      `json:"undefined"`        // identity that additionally names an undefined base (-1: none)
	SubPfx  bool     `json:"submodule_prefix"` // the submodule imports b under a prefix of its own (z) that its module does not bind: prefixes are scoped per file
	// SubSwap: as SubPfx, and the prefix under which module a knows b means, in the submodule, a
	// third module c that declares identities with the names of b's; the submodule derives one
	// more identity ("extra") from c's namesake of b's first identity through that prefix
	SubSwap bool `json:"submodule_swaps_prefix,omitempty"`
	// SubOwn: the submodule says belongs-to a { prefix self; } and imports b under the very prefix
	// module a declares for itself: there that prefix means b, and a's identities are self:...
	SubOwn bool `json:"submodule_binds_owner_prefix,omitempty"`
}

// firstInB returns the name of the first identity placed in module b ("" if none).
func (g G) firstInB() string {
	for i := 0; i < g.N; i++ {
		if g.Place[i] == 1 {
			return g.Names[i]
		}
	}
	return ""
}

func owner(p int) int {
	if p == 2 {
		return 0
	}
	return p
}

func (g G) files() []dump.File {
	own := []string{"a", "b"} // own prefix of module a, b
	imp := []string{"b", "a"} // prefix under which a imports b, b imports a  (imp[0]: a's name for b)
	if g.SamePfx {
		own = []string{"p", "p"}
		imp = []string{"pb", "pa"}
	}
	body := []*strings.Builder{{}, {}, {}}
	for i := 0; i < g.N; i++ {
		sb := body[g.Place[i]]
		fmt.Fprintf(sb, " identity %s {", g.Names[i])
		for j := 0; j < g.N; j++ {
			if !g.Edge[i][j] {
				continue
			}
			oi, oj := owner(g.Place[i]), owner(g.Place[j])
			switch {
			case g.SubOwn && g.Place[i] == 2 && oi == oj && g.OwnPfx:
				fmt.Fprintf(sb, " base self:%s;", g.Names[j])
			case g.SubOwn && g.Place[i] == 2 && oi != oj:
				fmt.Fprintf(sb, " base %s:%s;", own[0], g.Names[j])
			case oi == oj && g.OwnPfx:
				fmt.Fprintf(sb, " base %s:%s;", own[oi], g.Names[j])
			case oi == oj:
				fmt.Fprintf(sb, " base %s;", g.Names[j])
			case g.Place[i] == 2 && (g.SubPfx || g.SubSwap):
				fmt.Fprintf(sb, " base z:%s;", g.Names[j])
			default:
				fmt.Fprintf(sb, " base %s:%s;", imp[oi], g.Names[j])
			}
		}
		if g.Undef == i {
			sb.WriteString(" base nosuch;")
		}
		sb.WriteString(" }")
		fmt.Fprintf(sb, " leaf ref%d { type identityref { base %s; } }", i, g.Names[i])
		// ... and the same through a typedef chain declared next to it
		base := g.Names[i]
		if g.OwnPfx {
			base = own[owner(g.Place[i])] + ":" + base
			if g.SubOwn && g.Place[i] == 2 {
				base = "self:" + g.Names[i]
			}
		}
		fmt.Fprintf(sb, " typedef td%d { type identityref { base %s; } } typedef te%d { type td%d; } leaf tref%d { type te%d; }", i, base, i, i, i, i)
	}
	if (g.SubPfx || g.SubSwap) && g.firstInB() != "" {
		// identityref typedefs in the submodule whose base is spelled with a prefix only that file binds
		fmt.Fprintf(body[2], " typedef tz { type identityref { base z:%s; } } leaf trz { type tz; }", g.firstInB())
	}
	if g.SubSwap {
		fmt.Fprintf(body[2], " typedef tx { type identityref { base %s:%s; } } typedef ty { type tx; } leaf trx { type ty; }", imp[0], g.firstInB())
	}
	if g.SubSwap {
		var cb strings.Builder
		seen := map[string]bool{}
		for i := 0; i < g.N; i++ {
			if g.Place[i] == 1 && !seen[g.Names[i]] {
				seen[g.Names[i]] = true
				fmt.Fprintf(&cb, " identity %s;", g.Names[i])
			}
		}
		fmt.Fprintf(body[2], " identity extra { base %s:%s; } leaf refextra { type identityref { base extra; } }", imp[0], g.firstInB())
		return []dump.File{
			{Name: "a.yang", Text: fmt.Sprintf(`module a { namespace "urn:a"; prefix %s; import b { prefix %s; } include as;%s }`, own[0], imp[0], body[0])},
			{Name: "b.yang", Text: fmt.Sprintf(`module b { namespace "urn:b"; prefix %s; import a { prefix %s; }%s }`, own[1], imp[1], body[1])},
			{Name: "as.yang", Text: fmt.Sprintf(`submodule as { belongs-to a { prefix %s; } import b { prefix z; } import c { prefix %s; }%s }`, own[0], imp[0], body[2])},
			{Name: "c.yang", Text: fmt.Sprintf(`module c { namespace "urn:c"; prefix c;%s }`, cb.String())},
		}
	}
	if g.SubOwn {
		return []dump.File{
			{Name: "a.yang", Text: fmt.Sprintf(`module a { namespace "urn:a"; prefix %s; import b { prefix %s; } include as;%s }`, own[0], imp[0], body[0])},
			{Name: "b.yang", Text: fmt.Sprintf(`module b { namespace "urn:b"; prefix %s; import a { prefix %s; }%s }`, own[1], imp[1], body[1])},
			{Name: "as.yang", Text: fmt.Sprintf(`submodule as { belongs-to a { prefix self; } import b { prefix %s; }%s }`, own[0], body[2])},
		}
	}
	return []dump.File{
		{Name: "a.yang", Text: fmt.Sprintf(`module a { namespace "urn:a"; prefix %s; import b { prefix %s; } include as;%s }`, own[0], imp[0], body[0])},
		{Name: "b.yang", Text: fmt.Sprintf(`module b { namespace "urn:b"; prefix %s; import a { prefix %s; }%s }`, own[1], imp[1], body[1])},
		{Name: "as.yang", Text: fmt.Sprintf(`submodule as { belongs-to a { prefix %s; } import b { prefix %s; }%s }`, own[0], map[bool]string{false: imp[0], true: "z"}[g.SubPfx], body[2])},
	}
}

// derived returns all k that reach i through one or more base edges.
func (g G) derived(i int) []int {
	seen := map[int]bool{}
	var dfs func(x int)
	dfs = func(x int) {
		for k := 0; k < g.N; k++ {
			if g.Edge[k][x] && !seen[k] {
				seen[k] = true
				dfs(k)
			}
		}
	}
	dfs(i)
	var out []int
	for k := range seen {
		out = append(out, k)
	}
	sort.Ints(out)
	return out
}

func (g G) cyclic() bool {
	for i := 0; i < g.N; i++ {
		for _, k := range g.derived(i) {
			if k == i {
				return true
			}
		}
	}
	return false
}

type fail struct{ fp, exp, obs string }

// runOnce loads in the given order under the map-order answers of x (nil: canonical) and checks the
// closure; it returns the sequence signature of all Values lists.
func runOnce(g G, ord []int, x *explore.X, split int) (f *fail, signature string) {
	if x != nil && order.Active() {
		order.Install(func(n int, site string) int { return x.Choose(n, site) })
		defer order.Install(nil)
	}
	files := g.files()
	if len(files) == 4 && len(ord) == 3 {
		// the third module goes first or last, depending on the permutation of the others
		if ord[0] == 0 {
			ord = append(append([]int{}, ord...), 3)
		} else {
			ord = append([]int{3}, ord...)
		}
	}
	mustErr := g.cyclic() || g.Undef >= 0
	pan, pt := core.Guard(func() {
		ms := yang.NewModules()
		for k, i := range ord {
			if err := ms.Parse(files[i].Text, files[i].Name); err != nil {
				f = &fail{"load-error", "loads", err.Error()}
				return
			}
			if split > 0 && k+1 == split {
				ms.Process() // whatever it says about the incomplete set
				// ... and the by-name questions are asked of what is there so far
				for _, mm := range []map[string]*yang.Module{ms.Modules, ms.SubModules} {
					for _, m := range mm {
						for _, id := range m.Identity {
							for _, nm := range g.Names {
								id.IsDefined(nm)
								id.GetValue(nm)
							}
						}
					}
				}
			}
		}
		errs := ms.Process()
		switch {
		case mustErr && len(errs) == 0:
			f = &fail{"cycle-or-undefined-base-not-reported", "an error", "Process returned no error"}
			return
		case mustErr:
			signature = "error"
			return
		case len(errs) > 0:
			f = &fail{"spurious-errors", "no errors", dump.Errors(errs)}
			return
		}
		ids := map[string]*yang.Identity{}
		for _, id := range ms.Modules["a"].Identity {
			ids["0:"+id.Name] = id
		}
		for _, id := range ms.Modules["b"].Identity {
			ids["1:"+id.Name] = id
		}
		for _, id := range ms.SubModules["as"].Identity {
			ids["2:"+id.Name] = id
		}
		key := func(i int) string { return fmt.Sprintf("%d:%s", g.Place[i], g.Names[i]) }
		label := map[*yang.Identity]string{}
		for i := 0; i < g.N; i++ {
			if ids[key(i)] == nil {
				f = &fail{"identity-missing", key(i), "not among the module's identities"}
				return
			}
			label[ids[key(i)]] = key(i)
		}
		var sig []string
		for i := 0; i < g.N; i++ {
			id := ids[key(i)]
			want := map[*yang.Identity]bool{}
			var wantL []string
			for _, k := range g.derived(i) {
				want[ids[key(k)]] = true
				wantL = append(wantL, key(k))
			}
			got := map[*yang.Identity]int{}
			var gotL []string
			for _, v := range id.Values {
				got[v]++
				gotL = append(gotL, label[v])
			}
			problem := ""
			for v, n := range got {
				switch {
				case n > 1:
					problem = "listed twice: " + label[v]
				case v == id:
					problem = "lists itself"
				case !want[v]:
					problem = "lists an identity that does not derive from it: " + label[v]
				}
			}
			for v := range want {
				if got[v] == 0 {
					problem = "misses a derived identity: " + label[v]
				}
			}
			if problem != "" {
				f = &fail{"values-differ-from-reverse-reachability", fmt.Sprintf("%s values %v", key(i), wantL), fmt.Sprintf("%v (%s)", gotL, problem)}
				return
			}
			// asked by name, the identity answers as its list does
			for _, nm := range append(append([]string{}, g.Names...), "no-such-identity") {
				defined := false
				for v := range want {
					if v.Name == nm {
						defined = true
					}
				}
				gv := id.GetValue(nm)
				if id.IsDefined(nm) != defined || (gv != nil) != defined || (gv != nil && (!want[gv] || gv.Name != nm)) {
					f = &fail{"by-name-accessors-differ-from-values", fmt.Sprintf("%s: %q derived=%v", key(i), nm, defined), fmt.Sprintf("IsDefined=%v GetValue=%v", id.IsDefined(nm), gv != nil)}
					return
				}
			}
			sig = append(sig, key(i)+"="+strings.Join(gotL, ","))
			// the identityref leaf points at the identity object its base names
			mod := ms.Modules[[]string{"a", "b", "a"}[g.Place[i]]]
			leaf := yang.ToEntry(mod).Dir[fmt.Sprintf("ref%d", i)]
			if leaf == nil || leaf.Type == nil || leaf.Type.IdentityBase != id {
				f = &fail{"identityref-points-at-another-identity", key(i), dump.Type(leafType(leaf), 0)}
				return
			}
			if tl := yang.ToEntry(mod).Dir[fmt.Sprintf("tref%d", i)]; tl == nil || tl.Type == nil || tl.Type.IdentityBase != id {
				f = &fail{"identityref-typedef-points-at-another-identity", key(i), dump.Type(leafType(tl), 0)}
				return
			}
			// the module entry lists the module's own identities
			found := false
			for _, x := range yang.ToEntry(ms.Modules[[]string{"a", "b", "a"}[g.Place[i]]]).Identities {
				if x == id {
					found = true
				}
			}
			if g.Place[i] != 2 && !found {
				f = &fail{"identity-not-listed-on-its-module-entry", key(i), "absent"}
				return
			}
		}
		if (g.SubPfx || g.SubSwap) && g.firstInB() != "" {
			if tl := yang.ToEntry(ms.Modules["a"]).Dir["trz"]; tl == nil || tl.Type == nil || tl.Type.IdentityBase != ids["1:"+g.firstInB()] {
				f = &fail{"identityref-typedef-points-at-another-identity", "trz (typedef in the submodule, base z:" + g.firstInB() + ") -> 1:" + g.firstInB(), dump.Type(leafType(tl), 0)}
				return
			}
		}
		if g.SubSwap {
			var cid *yang.Identity
			for _, id := range ms.Modules["c"].Identity {
				if id.Name == g.firstInB() {
					cid = id
				}
			}
			if tl := yang.ToEntry(ms.Modules["a"]).Dir["trx"]; tl == nil || tl.Type == nil || cid == nil || tl.Type.IdentityBase != cid {
				f = &fail{"identityref-typedef-points-at-another-identity", "trx (typedef in the submodule, the prefix means module c there) -> 3:" + g.firstInB(), dump.Type(leafType(tl), 0)}
				return
			}
			// module c: the namesake of b's first identity has exactly the submodule's extra
			// identity below it, the others nothing
			extra := ids["2:extra"]
			if extra == nil || len(extra.Values) != 0 {
				f = &fail{"values-differ-from-reverse-reachability", "2:extra values []", fmt.Sprint(extra != nil)}
				return
			}
			for _, id := range ms.Modules["c"].Identity {
				var gotL []string
				for _, v := range id.Values {
					l := label[v]
					if v == extra {
						l = "2:extra"
					}
					gotL = append(gotL, l)
				}
				want := "[]"
				if id.Name == g.firstInB() {
					want = "[2:extra]"
				}
				if fmt.Sprint(gotL) != want {
					f = &fail{"values-differ-from-reverse-reachability", "3:" + id.Name + " values " + want, fmt.Sprint(gotL)}
					return
				}
				sig = append(sig, "3:"+id.Name+"="+strings.Join(gotL, ","))
			}
		}
		signature = strings.Join(sig, " | ")
	})
	if pan {
		return &fail{"panic@" + core.LastPanicSite, "no panic", pt}, ""
	}
	return f, signature
}

func leafType(e *yang.Entry) *yang.YangType {
	if e == nil {
		return nil
	}
	return e.Type
}

// Exec names one execution for replay.
type Exec struct {
	Order   []int `json:"order"`
	Choices []int `json:"choices"`
	Split   int   `json:"process_also_after,omitempty"` // > 0: Process is also called after this many files
}

type Input struct {
	G     G              `json:"graph"`
	A, B  Exec           // B only for order-dependence
	Scale *scalekit.Case `json:"scale,omitempty"`
}

func maxN(tier string) int {
	if tier == "thorough" {
		return 4
	}
	return 3
}

const nShards = 32

func shards(tier string) []string {
	var out []string
	for i := 0; i < nShards; i++ {
		out = append(out, fmt.Sprintf("g/%d", i))
	}
	return append(out, scalekit.ShardNames()...)
}

func enum(tier string, f func(G)) {
	for n := 1; n <= maxN(tier); n++ {
		cells := n * n
		for mask := 0; mask < 1<<cells; mask++ {
			edges := 0
			edge := make([][]bool, n)
			for i := range edge {
				edge[i] = make([]bool, n)
				for j := range edge[i] {
					edge[i][j] = mask&(1<<(i*n+j)) != 0
					if edge[i][j] {
						edges++
					}
				}
			}
			if n == 4 && edges > 5 {
				continue
			}
			pl := make([]int, n)
			var rec func(i int)
			rec = func(i int) {
				if i == n {
					for _, nm := range [][]string{{"i0", "i1", "i2", "i3"}, {"x", "x", "i2", "i3"}, {"i0", "x", "x", "i3"}} {
						ok := true
						for p := 0; p < n; p++ {
							for q := p + 1; q < n; q++ {
								if nm[p] == nm[q] && owner(pl[p]) == owner(pl[q]) {
									ok = false // equal names only in different modules
								}
							}
						}
						if !ok || (n < 3 && nm[1] == "x" && nm[0] != "x") {
							continue
						}
						for v := 0; v < 4; v++ {
							if n == 4 && v != 0 && v != 3 {
								continue
							}
							g := G{N: n, Place: append([]int{}, pl...), Names: append([]string{}, nm[:n]...), Edge: edge, SamePfx: v&1 != 0, OwnPfx: v&2 != 0, Undef: -1}
							f(g)
							// an identity in the submodule with a base in b: also with a file-local prefix
							// ... and with the prefix its owner declares for itself (plain and own-prefixed bases)
							for i := 0; i < n && (v == 0 || v == 2); i++ {
								usesB := false
								for j := 0; j < n; j++ {
									if edge[i][j] && pl[i] == 2 && pl[j] == 1 {
										usesB = true
									}
								}
								if usesB {
									go_ := g
									go_.SubOwn = true
									f(go_)
									break
								}
							}
							for i := 0; i < n && v == 0; i++ {
								usesB := false
								for j := 0; j < n; j++ {
									if edge[i][j] && pl[i] == 2 && pl[j] == 1 {
										usesB = true
									}
								}
								if usesB {
									gz := g
									gz.SubPfx = true
									f(gz)
									gs := g
									gs.SubSwap = true
									f(gs)
									break
								}
							}
							if edges <= 1 && v == 0 {
								for u := 0; u < n; u++ {
									gu := g
									gu.Undef = u
									f(gu)
								}
							}
						}
					}
					return
				}
				for p := 0; p < 3; p++ {
					pl[i] = p
					rec(i + 1)
				}
			}
			rec(0)
		}
	}
}

func run(c *core.Ctx) {
	if strings.HasPrefix(c.Shard, "scale/") {
		scalekit.Run(c, c.Shard, scaleCases(c.Tier), checkScale, func(cs scalekit.Case) any { return Input{Scale: &cs} })
		return
	}
	if !order.Active() {
		panic("C11 needs the worker built against the instrumented copy (variant order)")
	}
	var shard int
	fmt.Sscanf(c.Shard, "g/%d", &shard)
	c.Res.Bound = fmt.Sprintf("all base-edge subsets over N <= %d identities (N = 4: at most 5 edges) x placements in {a, b, submodule of a} x names distinct / two equal in different modules x prefix regime (module names as prefixes; one shared own prefix; a file-local prefix in the submodule; the submodule binding its module's prefix for b to a third module with namesake identities) x spelling of local bases, plus an undefined base on sparse graphs; all 6 load orders, each (quick: every second one) also with Process called after the first and after the second file; on graphs with equal names or a shared prefix also every single deviation of map iteration order", maxN(c.Tier))
	perms := explore.Perms(3)
	i := 0
	enum(c.Tier, func(g G) {
		i++
		if (i-1)%nShards != shard || c.Expired() {
			return
		}
		caseNo, run := c.Begin()
		if c.Skip(caseNo, run, Input{G: g}) {
			return
		}
		c.StateN(1)
		if !g.cyclic() && g.Undef < 0 {
			c.NontrivialN(1)
		}
		first, firstExec := "", Exec{}
		report := func(f *fail, a, b Exec) {
			c.Outcome("FAIL:" + f.fp)
			c.Fail(caseNo, nil, f.fp, Input{G: g, A: a, B: b}, f.exp, f.obs)
		}
		check := func(ord []int, x *explore.X, split int) bool {
			f, sig := runOnce(g, ord, x, split)
			c.Exec()
			c.Validate()
			c.Edge(1)
			var ch []int
			if x != nil {
				ch = append(ch, x.Choices...)
			}
			e := Exec{append([]int{}, ord...), ch, split}
			if f != nil {
				if split > 0 {
					f.fp += "@processed-twice"
				}
				report(f, e, e)
				return false
			}
			if first == "" {
				first, firstExec = sig, e
			} else if sig != first {
				report(&fail{"values-sequence-depends-on-order", first, sig}, firstExec, e)
				return false
			}
			return true
		}
		for _, p := range perms {
			if !check(p, nil, 0) {
				return
			}
		}
		// process, load more, process again: the same lists (or an error again) as in one go
		for pi, p := range perms {
			if c.Tier != "thorough" && pi%2 == 1 {
				continue
			}
			for split := 1; split <= 2; split++ {
				if !check(p, nil, split) {
					return
				}
			}
		}
		equalNames := false
		for p := 0; p < g.N; p++ {
			for q := p + 1; q < g.N; q++ {
				if g.Names[p] == g.Names[q] {
					equalNames = true
				}
			}
		}
		if (equalNames || g.SamePfx) && g.N <= 3 && first != "error" {
			ok := true
			explore.DFS(1, func(x *explore.X) {
				if ok && len(x.Choices) >= 0 {
					ok = check(perms[0], x, 0)
				}
			}, nil, func() bool { return !ok || c.Expired() })
			if !ok {
				return
			}
		}
		if first == "error" {
			c.Outcome("reported-as-required")
		} else {
			c.Outcome("closure-exact-and-stable")
			if i%4001 == 9 {
				b, _ := json.Marshal(Input{G: g})
				c.Sample(string(b))
			}
		}
	})
	if nc := order.NonCanonical(); len(nc) > 0 {
		panic("map key types without canonical order: " + strings.Join(nc, ", "))
	}
}

func replay(tier string, raw json.RawMessage) (bool, string, string) {
	var in Input
	if err := json.Unmarshal(raw, &in); err != nil {
		return false, "", err.Error()
	}
	if in.Scale != nil {
		v := checkScale(*in.Scale)
		return v.Fp != "", "scale:" + v.Fp, fmt.Sprintf("expected %s\nobserved %s", v.Exp, v.Obs)
	}
	if !order.Active() {
		return false, "", "needs the order variant"
	}
	fa, sa := runOnce(in.G, in.A.Order, explore.New(in.A.Choices), in.A.Split)
	if fa != nil {
		return true, fa.fp, fmt.Sprintf("expected %s\nobserved %s", fa.exp, fa.obs)
	}
	fb, sb := runOnce(in.G, in.B.Order, explore.New(in.B.Choices), in.B.Split)
	if fb != nil {
		return true, fb.fp, fmt.Sprintf("expected %s\nobserved %s", fb.exp, fb.obs)
	}
	if sa != sb {
		return true, "values-sequence-depends-on-order", sa + "\n---\n" + sb
	}
	return false, "", "closure exact, same sequence"
}

func init() {
	core.Register(&core.Prop{
		ID: "C11", Variant: "order", Shards: shards, Run: run, Replay: replay,
		Rule:        "every labelled derivation graph within the bound, every placement, naming, prefix regime and base spelling is rendered as module a (with submodule as) and module b importing each other, with one identityref leaf per identity (written directly and through a two-level typedef chain; in the file-local prefix regimes also typedefs in the submodule whose base carries a prefix only the submodule binds), and loaded in all 6 orders, in one go and with an additional Process after the first or the second file (and, where equal names or a shared prefix make ties possible, under every single deviation of map iteration order on the instrumented build). Oracle: reverse reachability in the generated graph - Values of every identity is exactly the set of identities deriving from it, without duplicates and without itself; the sequences are identical in every explored execution; Type.IdentityBase of each identityref leaf is the identity object its base names; an undefined base or any cycle gives an error. states = distinct programs; non-trivial = acyclic programs",
		Assumptions: []string{"equal identity names occur only in different modules (a module and its submodules share one name space)", "the instrumented copy behaves like the original under canonical order (suite run on it each time)"},
	})
}
