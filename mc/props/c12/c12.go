// Package c12 decides C12: config inheritance and namespace attribution follow the instantiated
// tree. The CFG family assigns config in {unset, true, false} to every node of a path through each
// composition context (plain nesting, uses with config in the grouping and at the user, augment from
// another module and from a submodule, content written in a submodule, choice/case incl. implicit
// cases, rpc input/output, action in a list, notification); the USES and AUG families are re-read
// for their namespace attribution. ReadOnly(), Namespace() and InstantiatingModule() of every node
// are compared with the reference evaluation on the normalised tree.
package c12

import (
	"encoding/json"
	"fmt"
	"regexp"
	"strings"

	"github.com/openconfig/goyang/pkg/yang"
	"verif/mc/core"
	"verif/mc/dump"
	"verif/mc/explore"
	"verif/mc/gen/fam"
	"verif/mc/gen/ir"
	"verif/mc/gen/ircmp"
	"verif/mc/props/scalekit"
)

type Input struct {
	Family string         `json:"family"`
	Index  int            `json:"index"`
	Desc   string         `json:"desc"`
	Files  []dump.File    `json:"files"`
	Augs   []fam.AugSpec  `json:"augments,omitempty"`
	Scale  *scalekit.Case `json:"scale,omitempty"`
	// CLITree: the goyang command's tree format on the module of cli.go
	CLITree bool `json:"cli_tree,omitempty"`
}

type fail struct{ fp, exp, obs string }

func check(w *ir.World, allOrders bool) (*fail, int) {
	w.Build()
	if len(w.MustError) > 0 {
		return nil, 0 // programs the reference rejects belong to C06/C07
	}
	what := ircmp.What{Shape: true, NS: true, RO: true}
	var f *fail
	execs := 0
	pan, pt := core.Guard(func() {
		perms := explore.Perms(len(w.Order))
		if !allOrders {
			perms = [][]int{perms[0], perms[len(perms)-1]}
		}
		for _, p := range perms {
			var ord []string
			for _, i := range p {
				ord = append(ord, w.Order[i])
			}
			execs++
			ms, lerr, errs := ircmp.Load(w, ord)
			if lerr != nil {
				f = &fail{"load-error", "loads", lerr.Error()}
				return
			}
			if len(errs) > 0 {
				f = &fail{"process-errors", "no errors", dump.Errors(errs)}
				return
			}
			for name, t := range w.Trees {
				m := ms.Modules[name]
				if m == nil {
					f = &fail{"module-missing", name, ""}
					return
				}
				if d := ircmp.Compare(t, yang.ToEntry(m), what); len(d) > 0 {
					fp := "attribution-differs"
					switch {
					case strings.Contains(strings.Join(d, "\n"), "read-only"):
						fp = "read-only-differs"
					case strings.Contains(strings.Join(d, "\n"), "namespace") || strings.Contains(strings.Join(d, "\n"), "instantiating"):
						fp = "namespace-differs"
					}
					f = &fail{fp, "reference evaluation", name + strings.Join(d, "\n"+name) + "\n(load order " + strings.Join(ord, ",") + ")"}
					return
				}
				// the printed form marks every node as ReadOnly() answers for it
				if p := ircmp.PrintMarks(yang.ToEntry(m)); p != "" {
					f = &fail{"printed-read-only-differs", "Print marks as ReadOnly() says", name + p}
					return
				}
			}
		}
	})
	if pan {
		return &fail{"panic@" + core.LastPanicSite, "no panic", pt}, execs
	}
	if f == nil {
		f = twin(w)
		execs++
	}
	return f, execs
}

var moduleName = regexp.MustCompile(`\b(module|submodule|import|belongs-to|include) ([A-Za-z_][A-Za-z0-9_.-]*)( \{|;)`)

// twin loads the same texts once more, in the same process, with every module and submodule renamed
// (prefixes and namespaces stay): in that set the namespaces belong to modules of other names, and
// every node must be attributed to the module that carries its namespace there - nothing the
// library learnt about a namespace from another module set may show.
func twin(w *ir.World) *fail {
	if f := twinIn(w, false); f != nil {
		return f
	}
	return twinIn(w, true)
}

var namespaceArg = regexp.MustCompile(`namespace "urn:([^"]*)"`)

// twinIn: together = false loads the renamed texts into a set of their own; together = true loads
// them next to the original texts into one set, with namespaces that differ from the originals' in
// nothing but the case of their letters ("URN:A" next to "urn:a"): two namespaces that a careless
// comparison takes for one.
func twinIn(w *ir.World, together bool) *fail {
	var f *fail
	pan, pt := core.Guard(func() {
		ms := yang.NewModules()
		for _, fl := range ircmp.Files(w, w.Order) {
			text := moduleName.ReplaceAllString(fl.Text, "$1 $2-twin$3")
			if together {
				if err := ms.Parse(fl.Text, fl.Name); err != nil {
					f = &fail{"twin:load-error", "loads", err.Error()}
					return
				}
				text = namespaceArg.ReplaceAllStringFunc(text, func(m string) string { return `namespace "URN:` + strings.ToUpper(m[len(`namespace "urn:`):]) })
			}
			if err := ms.Parse(text, "twin-"+fl.Name); err != nil {
				f = &fail{"twin:load-error", "loads", err.Error()}
				return
			}
		}
		if errs := ms.Process(); len(errs) > 0 {
			f = &fail{"twin:process-errors", "no errors", dump.Errors(errs)}
			return
		}
		byNS := map[string]string{}
		for _, m := range ms.Modules {
			if m.Namespace != nil {
				byNS[m.Namespace.Name] = m.Name
			}
		}
		for _, m := range ms.Modules {
			var walk func(e *yang.Entry)
			walk = func(e *yang.Entry) {
				if f != nil || e == nil {
					return
				}
				ns := e.Namespace()
				im, err := e.InstantiatingModule()
				if ns == nil || err != nil || im != byNS[ns.Name] {
					f = &fail{"twin:instantiating-module-of-another-module-set", fmt.Sprintf("%s (the module of namespace %v in this set)", byNS[ns.Name], ns.Name), fmt.Sprintf("%s: %q, %v", e.Path(), im, err)}
					return
				}
				for _, c := range e.Dir {
					walk(c)
				}
				if e.RPC != nil {
					walk(e.RPC.Input)
					walk(e.RPC.Output)
				}
			}
			walk(yang.ToEntry(m))
		}
	})
	if pan {
		return &fail{"twin:panic@" + core.LastPanicSite, "no panic", pt}
	}
	return f
}

const nShards = 24

func shards(tier string) []string {
	var out []string
	for i := 0; i < nShards; i++ {
		out = append(out, fmt.Sprintf("cfg/%d", i), fmt.Sprintf("uses/%d", i), fmt.Sprintf("aug/%d", i))
	}
	out = append(out, "cli-tree")
	return append(out, scalekit.ShardNames()...)
}

func run(c *core.Ctx) {
	if strings.HasPrefix(c.Shard, "scale/") {
		scalekit.Run(c, c.Shard, scaleCases(c.Tier), checkScale, func(cs scalekit.Case) any { return Input{Scale: &cs} })
		return
	}
	if c.Shard == "cli-tree" {
		runCLITree(c)
		return
	}
	parts := strings.Split(c.Shard, "/")
	var shard int
	fmt.Sscanf(parts[1], "%d", &shard)
	c.Res.Bound = "CFG: config in {unset,true,false}^5 on plain nesting and on container/choice/case/implicit-case/leaf, ^4 through uses (config at the user, on the grouping's container and leaves, nested grouping; user in a, in submodule as, in b) and through augment (target chain and augment body; augmenter b, submodule as, a itself), rpc/action/notification contexts with uses and augments under 9 ancestor configurations; plus the USES and AUG families for namespace attribution; 2 load orders (all orders for CFG)"
	i := 0
	one := func(family, desc string, w *ir.World, augs []fam.AugSpec) {
		i++
		if (i-1)%nShards != shard || c.Expired() {
			return
		}
		caseNo, run := c.Begin()
		if c.Skip(caseNo, run, Input{Family: family, Index: i - 1, Desc: desc, Files: ircmp.Files(w, w.Order), Augs: augs}) {
			return
		}
		f, execs := check(w, family == "cfg")
		if execs == 0 {
			c.Exclude()
			return
		}
		c.Execs(int64(execs))
		c.Validates(int64(execs))
		c.Edge(int64(execs))
		c.StateN(1)
		c.NontrivialN(1)
		in := Input{Family: family, Index: i - 1, Desc: desc, Files: ircmp.Files(w, w.Order), Augs: augs}
		if f != nil {
			c.Outcome("FAIL:" + f.fp)
			c.Fail(caseNo, nil, f.fp, in, f.exp, f.obs)
			return
		}
		c.Outcome("attribution-as-reference:" + family)
		if i%499 == 7 {
			b, _ := json.Marshal(in)
			c.Sample(string(b))
		}
	}
	switch parts[0] {
	case "cfg":
		fam.CFG(c.Tier, func(cs fam.Case) { one("cfg", cs.Desc, cs.W, nil) })
	case "uses":
		fam.USES(c.Tier, func(cs fam.Case) { one("uses", cs.Desc, cs.W, nil) })
	case "aug":
		fam.AUG(c.Tier, func(augs []fam.AugSpec) {
			if len(augs) > 2 {
				return
			}
			one("aug", fmt.Sprint(augs), fam.AugWorld(augs), augs)
		})
	}
}

func replay(tier string, raw json.RawMessage) (bool, string, string) {
	var in Input
	if err := json.Unmarshal(raw, &in); err != nil {
		return false, "", err.Error()
	}
	if in.CLITree {
		f := checkCLITree()
		if f == nil {
			return false, "", "the marks agree"
		}
		return true, f.fp, fmt.Sprintf("expected %s\nobserved %s", f.exp, f.obs)
	}
	if in.Scale != nil {
		v := checkScale(*in.Scale)
		return v.Fp != "", "scale:" + v.Fp, fmt.Sprintf("expected %s\nobserved %s", v.Exp, v.Obs)
	}
	var f *fail
	i := 0
	pick := func(w *ir.World) {
		if i == in.Index {
			f, _ = check(w, in.Family == "cfg")
		}
		i++
	}
	switch in.Family {
	case "cfg":
		fam.CFG(tier, func(cs fam.Case) { pick(cs.W) })
	case "uses":
		fam.USES(tier, func(cs fam.Case) { pick(cs.W) })
	case "aug":
		f, _ = check(fam.AugWorld(in.Augs), false)
	}
	if f == nil {
		return false, "", "as required"
	}
	return true, f.fp, fmt.Sprintf("expected %s\nobserved %s", f.exp, f.obs)
}

func init() {
	core.Register(&core.Prop{
		ID: "C12", Variant: "plain", Shards: shards, Run: run, Replay: replay,
		Rule:        "every program of the CFG family (all assignments of config unset/true/false to the nodes of a path through each composition context) and of the USES and AUG families is loaded and processed; ReadOnly(), Namespace().Name and InstantiatingModule() of every node of every module are compared with the reference evaluation on the normalised IR tree: read-only iff the nearest explicit config on the path (the node included) is false or the node lies in an rpc/action output; namespace and instantiating module are those of the module whose text placed the node (user of a grouping, augmenting module, owner of a submodule). states = distinct programs",
		Assumptions: []string{"no explicit config inside rpc, action or notification (outside the quantifier)", "the implicit case around a shorthand choice member has no namespace of its own to compare", "sets with two revisions of one module belong to C13"},
	})
}
