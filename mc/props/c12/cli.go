package c12

import (
	"bytes"
	"fmt"
	"os"
	"os/exec"
	"regexp"
	"sort"
	"strings"

	"github.com/openconfig/goyang/pkg/yang"
	"verif/mc/core"
)

// cli-tree: the goyang command's tree format marks every node RO or rw (RPC for an operation). The
// marks it prints for a module that puts every kind of node - actions with input and output among
// them - below config false, below config true and below nothing, written in place and brought in by
// a grouping, are the marks the entry tree gives (whose ReadOnly the main space holds to the rule).

const cliTreeText = `module m { yang-version 1.1; namespace "urn:m"; prefix m;
 grouping g { leaf gl { type string; } container gc { config true; leaf gcl { type string; } } action ga { input { leaf gi { type string; } } output { leaf go { type string; } } } list gli { key k; leaf k { type string; } action gla { input { leaf glai { type string; } } } } }
 container state { config false; leaf sl { type string; } container knobs { config true; leaf k { type string; } action turn { input { leaf by { type int8; } } } }
  action reset { input { leaf force { type boolean; } } output { leaf done { type boolean; } } }
  list proc { key id; leaf id { type string; } action restart { input { leaf delay { type uint8; } } } }
  uses g; choice ch { leaf a1 { type string; } case c2 { leaf a2 { type string; } } } }
 container cfg { leaf cl { type string; } container ro { config false; leaf rl { type string; } action inner { input { leaf ii { type string; } } output { leaf io { type string; } } } }
  action apply { input { leaf now { type boolean; } } output { leaf ok { type boolean; } } } uses g; leaf-list ll { type string; } anydata ad; }
 container plain { action bare; action only-out { output { leaf oo { type string; } } } uses g; }
 rpc top-rpc { input { leaf ti { type string; } } output { leaf to { type string; } } }
 notification note { leaf nl { type string; } }
}`

type cliMark struct {
	depth int
	mark  string
	name  string
}

var cliLine = regexp.MustCompile(`^( *)(RO|rw|RPC): (.*)$`)

func checkCLITree() *fail {
	cli := os.Getenv("VERIF_CLI")
	if cli == "" {
		panic("VERIF_CLI not set")
	}
	ms := yang.NewModules()
	if err := ms.Parse(cliTreeText, "<STDIN>"); err != nil {
		panic(err)
	}
	if errs := ms.Process(); len(errs) > 0 {
		panic(fmt.Sprint(errs))
	}
	var want []cliMark
	var walk func(e *yang.Entry, depth int)
	walk = func(e *yang.Entry, depth int) {
		mark := "rw"
		switch {
		case e.RPC != nil:
			mark = "RPC"
		case e.ReadOnly():
			mark = "RO"
		}
		want = append(want, cliMark{depth, mark, e.Name})
		if e.Dir == nil {
			return
		}
		if r := e.RPC; r != nil {
			if r.Input != nil {
				walk(r.Input, depth+1)
			}
			if r.Output != nil {
				walk(r.Output, depth+1)
			}
		}
		var ks []string
		for k := range e.Dir {
			ks = append(ks, k)
		}
		sort.Strings(ks)
		for _, k := range ks {
			walk(e.Dir[k], depth+1)
		}
	}
	walk(yang.ToEntry(ms.Modules["m"]), 0)
	cmd := exec.Command(cli, "--format", "tree")
	cmd.Stdin = strings.NewReader(cliTreeText)
	var out, errb bytes.Buffer
	cmd.Stdout, cmd.Stderr = &out, &errb
	if err := cmd.Run(); err != nil {
		return &fail{"cli-tree:command-fails", "the tree of the module", err.Error() + "\n" + errb.String()}
	}
	var got []cliMark
	for _, l := range strings.Split(out.String(), "\n") {
		m := cliLine.FindStringSubmatch(l)
		if m == nil {
			continue
		}
		rest := strings.TrimSuffix(strings.TrimSpace(m[3]), " {")
		fs := strings.Fields(rest)
		name := fs[len(fs)-1]
		if i := strings.LastIndex(name, "]"); i >= 0 {
			name = name[i+1:]
		}
		if i := strings.Index(name, ":"); i >= 0 {
			name = name[i+1:]
		}
		got = append(got, cliMark{len(m[1]) / 2, m[2], name})
	}
	if len(got) != len(want) {
		return &fail{"cli-tree:other-nodes", fmt.Sprintf("%d marked lines", len(want)), fmt.Sprintf("%d\n%s", len(got), out.String())}
	}
	var path []string
	for i := range want {
		path = append(path[:want[i].depth], want[i].name)
		if got[i] != want[i] {
			return &fail{"cli-tree:printed-read-only-differs", fmt.Sprintf("/%s: %s: (depth %d)", strings.Join(path, "/"), want[i].mark, want[i].depth), fmt.Sprintf("%s: %s (depth %d)", got[i].mark, got[i].name, got[i].depth)}
		}
	}
	return nil
}

func runCLITree(c *core.Ctx) {
	caseNo, run := c.Begin()
	in := Input{CLITree: true}
	if c.Skip(caseNo, run, in) {
		return
	}
	c.Exec()
	c.Edge(1)
	c.StateN(1)
	c.Validate()
	c.NontrivialN(1)
	var f *fail
	if pan, pt := core.Guard(func() { f = checkCLITree() }); pan {
		f = &fail{"panic@" + core.LastPanicSite, "no panic", pt}
	}
	if f != nil {
		c.Outcome("FAIL:" + f.fp)
		c.Fail(caseNo, nil, f.fp, in, f.exp, f.obs)
		return
	}
	c.Outcome("cli-tree:marks-agree")
}
