package c12

import (
	"fmt"
	"strings"

	"github.com/openconfig/goyang/pkg/yang"
	"verif/mc/dump"
	"verif/mc/gen/scale"
	"verif/mc/props/scalekit"
)

// scale: a grouping whose container has n children (a sub-container and a choice among them), used
// below config false in its own module and in another module, used read-write, and the same body
// grafted by an augment: config inheritance and namespace of every node, for every n up to the bound
// and around the powers of two.

func scaleCases(tier string) []scalekit.Case {
	max := 257
	if tier == "thorough" {
		max = 1025
	}
	var out []scalekit.Case
	for _, n := range scale.Sizes(48, max) {
		out = append(out, scalekit.Case{Shape: "wide-copy", N: n})
	}
	for n := 0; n <= 40; n++ {
		for v := 0; v < 4; v++ {
			out = append(out, scalekit.Case{Shape: "late-module", N: n, V: v})
		}
	}
	// depth crossed with composition: a chain of n nested containers (config false at level n/2) that is
	// written in module g - in a grouping that module u uses (variant 0), in an augment of u's tree
	// (1), in a grouping that g's submodule defines and u's submodule uses (2), in u itself (3)
	for _, n := range scale.Sizes(100, 300) {
		for v := 0; v < 4; v++ {
			if n <= 100 && n%4 != v && n != 64 && n != 65 {
				continue
			}
			out = append(out, scalekit.Case{Shape: "deep-composition", N: n, V: v})
		}
	}
	// a config statement whose argument is neither true nor false (n: the argument) on every kind of
	// node that takes one, below a parent that says false, says true or says nothing (variant)
	for n := range notBooleans {
		for v := 0; v < 3*len(configKinds); v++ {
			out = append(out, scalekit.Case{Shape: "config-argument-that-says-neither", N: n, V: v})
		}
	}
	return out
}

var notBooleans = []string{"TRUE", "True", "T", "t", "1", "FALSE", "False", "F", "f", "0", `""`, "yes", "no", `"true "`, `" false"`, `"fal" + "se "`, "truefalse", "falsetrue", "nil", "tru", "fals", "false0"}

var configKinds = []string{"container x { %s leaf in { type string; } }", "leaf x { type string; %s }", "leaf-list x { type string; %s }", "list x { key k; %s leaf k { type string; } }", "choice x { %s leaf in { type string; } }", "anyxml x { %s }", "anydata x { %s }"}

// config-argument-that-says-neither: such a statement says neither true nor false. Either it is
// reported, or the node is read-only exactly when it would be without the statement.
func checkNotBoolean(cs scalekit.Case) scalekit.Verdict {
	arg, kind, parent := notBooleans[cs.N], configKinds[cs.V%len(configKinds)], []string{"config false;", "config true;", ""}[cs.V/len(configKinds)]
	text := func(stmt string) string {
		return `module m { yang-version 1.1; namespace "urn:m"; prefix m; container top { ` + parent + ` ` + fmt.Sprintf(kind, stmt) + ` } }`
	}
	ro := func(t string) (bool, []error, error) {
		ms, errs, lerr := scalekit.Load([]dump.File{{Name: "m.yang", Text: t}}, false)
		if lerr != nil || len(errs) > 0 {
			return false, errs, lerr
		}
		x := scalekit.Down(yang.ToEntry(ms.Modules["m"]), "top", "x")
		if x == nil {
			return false, nil, fmt.Errorf("node x missing")
		}
		return x.ReadOnly(), nil, nil
	}
	plain, errs, lerr := ro(text(""))
	if lerr != nil || len(errs) > 0 {
		return scalekit.Bad("spurious-errors", "the module without the statement loads and processes", fmt.Sprint(lerr, dump.Errors(errs)))
	}
	got, errs, lerr := ro(text("config " + arg + ";"))
	if lerr != nil || len(errs) > 0 {
		return scalekit.OK() // reported
	}
	if got != plain {
		return scalekit.Bad("config-argument-that-says-neither-decides", fmt.Sprintf("an error, or read-only=%v as without the statement config %s;", plain, arg), fmt.Sprintf("no error and read-only=%v", got))
	}
	return scalekit.OK()
}

// deep-composition: every level of the chain, down to the leaf at its end, belongs to the module
// whose text placed it (u for a used grouping, g for an augment) and is read-only from level n/2 on.
func checkDeep(cs scalekit.Case) scalekit.Verdict {
	var chain strings.Builder
	for i := 1; i <= cs.N; i++ {
		fmt.Fprintf(&chain, "container c%d { ", i)
		if i == (cs.N+1)/2 {
			chain.WriteString("config false; ")
		}
	}
	chain.WriteString("leaf end { type string; } ")
	chain.WriteString(strings.Repeat("} ", cs.N))
	var files []dump.File
	want := "u"
	switch cs.V {
	case 0:
		files = []dump.File{{Name: "g.yang", Text: `module g { namespace "urn:g"; prefix g; grouping deep { ` + chain.String() + `} }`},
			{Name: "u.yang", Text: `module u { namespace "urn:u"; prefix u; import g { prefix g; } container top { uses g:deep; } }`}}
	case 1:
		want = "g"
		files = []dump.File{{Name: "u.yang", Text: `module u { namespace "urn:u"; prefix u; container top { leaf own { type string; } } }`},
			{Name: "g.yang", Text: `module g { namespace "urn:g"; prefix g; import u { prefix u; } augment /u:top { ` + chain.String() + `} }`}}
	case 2:
		files = []dump.File{{Name: "g.yang", Text: `module g { namespace "urn:g"; prefix g; include gs; }`},
			{Name: "gs.yang", Text: `submodule gs { belongs-to g { prefix g; } grouping deep { ` + chain.String() + `} }`},
			{Name: "u.yang", Text: `module u { namespace "urn:u"; prefix u; include us; }`},
			{Name: "us.yang", Text: `submodule us { belongs-to u { prefix u; } import g { prefix g; } container top { uses g:deep; } }`}}
	case 3:
		files = []dump.File{{Name: "u.yang", Text: `module u { namespace "urn:u"; prefix u; container top { ` + chain.String() + `} }`}}
	}
	for _, rev := range []bool{false, true} {
		ms, errs, lerr := scalekit.Load(files, rev)
		if lerr != nil || len(errs) > 0 {
			return scalekit.Bad("spurious-errors", "loads and processes", fmt.Sprint(lerr, dump.Errors(errs)))
		}
		e := yang.ToEntry(ms.Modules["u"]).Dir["top"]
		for i := 1; i <= cs.N+1; i++ {
			name := fmt.Sprintf("c%d", i)
			if i == cs.N+1 {
				name = "end"
			}
			if e = e.Dir[name]; e == nil {
				return scalekit.Bad("level-missing", name, "nil")
			}
			ns, im := "", ""
			if v := e.Namespace(); v != nil {
				ns = v.Name
			}
			im, _ = e.InstantiatingModule()
			if ns != "urn:"+want || im != want {
				return scalekit.Bad("namespace-differs-at-depth", fmt.Sprintf("level %d of %d: urn:%s / %s", i, cs.N, want, want), fmt.Sprintf("%s / %s", ns, im))
			}
			if ro := e.ReadOnly(); ro != (i >= (cs.N+1)/2) {
				return scalekit.Bad("read-only-differs-at-depth", fmt.Sprintf("level %d of %d: read-only %v", i, cs.N, i >= (cs.N+1)/2), fmt.Sprint(ro))
			}
		}
	}
	return scalekit.OK()
}

// late-module: n filler modules (with revisions when the variant is odd) and a base module are
// loaded and processed and every node is asked for its module; then a further module (without a
// revision for variants 0 and 1) that has data of its own, uses a grouping of base and augments base
// is loaded, everything is processed again, and every node is asked again.
func checkLateModule(cs scalekit.Case) scalekit.Verdict {
	ms := scalekit.NewModules()
	parse := func(name, text string) error { return ms.Parse(scalekit.Text(text), name) }
	rev := ""
	if cs.V%2 == 1 {
		rev = " revision 2020-02-02;"
	}
	for i := 0; i < cs.N; i++ {
		if err := parse(fmt.Sprintf("f%d.yang", i), fmt.Sprintf(`module f%d { namespace "urn:f%d"; prefix f;%s leaf x { type string; } }`, i, i, rev)); err != nil {
			return scalekit.Bad("load-error", "loads", err.Error())
		}
	}
	if err := parse("base.yang", `module base { namespace "urn:base"; prefix base;`+rev+` grouping g { leaf gl { type string; } container gc { leaf gcl { type string; } } } container top { config false; leaf own { type string; } } }`); err != nil {
		return scalekit.Bad("load-error", "loads", err.Error())
	}
	ask := func() string {
		for name, m := range ms.Modules {
			want := m.Name
			var bad string
			var walk func(e *yang.Entry, p string, want string)
			walk = func(e *yang.Entry, p string, want string) {
				if bad != "" {
					return
				}
				w := want
				if ns := e.Namespace(); ns != nil && ns.Name == "urn:late" {
					w = "late"
				}
				if im, err := e.InstantiatingModule(); err != nil || im != w {
					bad = fmt.Sprintf("%s%s: InstantiatingModule()=%q,%v want %s", name, p, im, err, w)
				}
				for k, c := range e.Dir {
					walk(c, p+"/"+k, want)
				}
			}
			for k, c := range yang.ToEntry(m).Dir {
				walk(c, "/"+k, want)
			}
			if bad != "" {
				return bad
			}
		}
		return ""
	}
	if errs := ms.Process(); len(errs) > 0 {
		return scalekit.Bad("spurious-errors", "no errors", dump.Errors(errs))
	}
	if bad := ask(); bad != "" {
		return scalekit.Bad("config-or-namespace-wrong", "the module whose text placed the node", bad)
	}
	lateRev := ""
	if cs.V >= 2 {
		lateRev = " revision 2021-03-03;"
	}
	if err := parse("late.yang", `module late { namespace "urn:late"; prefix late;`+lateRev+` import base { prefix b; } container mine { uses b:g; leaf ml { type string; } } augment /b:top { leaf late-leaf { type string; } container lc { uses b:g; } } }`); err != nil {
		return scalekit.Bad("load-error", "loads", err.Error())
	}
	if errs := ms.Process(); len(errs) > 0 {
		return scalekit.Bad("spurious-errors", "no errors", dump.Errors(errs))
	}
	if bad := ask(); bad != "" {
		return scalekit.Bad("config-or-namespace-wrong", "the module whose text placed the node, also for a module loaded after the first lookups", bad+fmt.Sprintf(" (%d modules loaded before)", cs.N+1))
	}
	top := yang.ToEntry(ms.Modules["base"]).Dir["top"]
	if e := scalekit.Down(top, "lc", "gc", "gcl"); e == nil || !e.ReadOnly() {
		return scalekit.Bad("config-or-namespace-wrong", "grafted copy below config false is read-only", "not")
	}
	return scalekit.OK()
}

func checkScale(cs scalekit.Case) scalekit.Verdict {
	if cs.Shape == "late-module" {
		return checkLateModule(cs)
	}
	if cs.Shape == "deep-composition" {
		return checkDeep(cs)
	}
	if cs.Shape == "config-argument-that-says-neither" {
		return checkNotBoolean(cs)
	}
	for _, rev := range []bool{false, true} {
		ms, errs, lerr := scalekit.Load(scale.Wide(cs.N), rev)
		if lerr != nil {
			return scalekit.Bad("load-error", "loads", lerr.Error())
		}
		if len(errs) > 0 {
			return scalekit.Bad("spurious-errors", "no errors", dump.Errors(errs))
		}
		w, u := yang.ToEntry(ms.Modules["w"]), yang.ToEntry(ms.Modules["user"])
		for _, x := range []struct {
			root   *yang.Entry
			path   []string
			ro     bool
			ns, im string
		}{
			{w, []string{"plain"}, false, "urn:w", "w"},
			{w, []string{"u", "state"}, true, "urn:w", "w"},
			{u, []string{"top", "state"}, true, "urn:user", "user"},
			{u, []string{"rw", "state"}, false, "urn:user", "user"},
			{w, []string{"plain", "grafted"}, false, "urn:user", "user"},
		} {
			top := scalekit.Down(x.root, x.path...)
			if top == nil {
				return scalekit.Bad("node-missing", strings.Join(x.path, "/"), "nil")
			}
			count := 0
			var bad string
			var walk func(e *yang.Entry, p string)
			walk = func(e *yang.Entry, p string) {
				count++
				if bad != "" {
					return
				}
				ns := e.Namespace()
				im, err := e.InstantiatingModule()
				switch {
				case e.ReadOnly() != x.ro:
					bad = fmt.Sprintf("%s: ReadOnly()=%v want %v", p, e.ReadOnly(), x.ro)
				case ns == nil || ns.Name != x.ns:
					bad = fmt.Sprintf("%s: Namespace()=%v want %s", p, ns, x.ns)
				case err != nil || im != x.im:
					bad = fmt.Sprintf("%s: InstantiatingModule()=%q,%v want %s", p, im, err, x.im)
				}
				for k, c := range e.Dir {
					if strings.HasPrefix(p, "/plain") && k == "grafted" && len(x.path) == 1 {
						continue // the grafted subtree belongs to module user: checked on its own
					}
					walk(c, p+"/"+k)
				}
			}
			walk(top, "/"+strings.Join(x.path, "/"))
			if bad != "" {
				return scalekit.Bad("config-or-namespace-wrong", "inherited along the instantiated tree", bad)
			}
			if want := cs.N + 8; count != want && !(len(x.path) == 1 && x.path[0] == "plain") {
				return scalekit.Bad("copy-incomplete", fmt.Sprintf("%d nodes below %s", want, strings.Join(x.path, "/")), fmt.Sprint(count))
			}
		}
	}
	return scalekit.OK()
}
