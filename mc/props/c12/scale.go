package c12

import (
	"fmt"
	"strings"

	"github.com/openconfig/goyang/pkg/yang"
	"verif/mc/dump"
	"verif/mc/gen/scale"
	"verif/mc/props/scalekit"
)

// scale: a grouping whose container has n children (a sub-container and a choice among them), used
// below config false in its own module and in another module, used read-write, and the same body
// grafted by an augment: config inheritance and namespace of every node, for every n up to the bound
// and around the powers of two.

func scaleCases(tier string) []scalekit.Case {
	max := 257
	if tier == "thorough" {
		max = 1025
	}
	var out []scalekit.Case
	for _, n := range scale.Sizes(48, max) {
		out = append(out, scalekit.Case{Shape: "wide-copy", N: n})
	}
	return out
}

func checkScale(cs scalekit.Case) scalekit.Verdict {
	for _, rev := range []bool{false, true} {
		ms, errs, lerr := scalekit.Load(scale.Wide(cs.N), rev)
		if lerr != nil {
			return scalekit.Bad("load-error", "loads", lerr.Error())
		}
		if len(errs) > 0 {
			return scalekit.Bad("spurious-errors", "no errors", dump.Errors(errs))
		}
		w, u := yang.ToEntry(ms.Modules["w"]), yang.ToEntry(ms.Modules["user"])
		for _, x := range []struct {
			root   *yang.Entry
			path   []string
			ro     bool
			ns, im string
		}{
			{w, []string{"plain"}, false, "urn:w", "w"},
			{w, []string{"u", "state"}, true, "urn:w", "w"},
			{u, []string{"top", "state"}, true, "urn:user", "user"},
			{u, []string{"rw", "state"}, false, "urn:user", "user"},
			{w, []string{"plain", "grafted"}, false, "urn:user", "user"},
		} {
			top := scalekit.Down(x.root, x.path...)
			if top == nil {
				return scalekit.Bad("node-missing", strings.Join(x.path, "/"), "nil")
			}
			count := 0
			var bad string
			var walk func(e *yang.Entry, p string)
			walk = func(e *yang.Entry, p string) {
				count++
				if bad != "" {
					return
				}
				ns := e.Namespace()
				im, err := e.InstantiatingModule()
				switch {
				case e.ReadOnly() != x.ro:
					bad = fmt.Sprintf("%s: ReadOnly()=%v want %v", p, e.ReadOnly(), x.ro)
				case ns == nil || ns.Name != x.ns:
					bad = fmt.Sprintf("%s: Namespace()=%v want %s", p, ns, x.ns)
				case err != nil || im != x.im:
					bad = fmt.Sprintf("%s: InstantiatingModule()=%q,%v want %s", p, im, err, x.im)
				}
				for k, c := range e.Dir {
					if strings.HasPrefix(p, "/plain") && k == "grafted" && len(x.path) == 1 {
						continue // the grafted subtree belongs to module user: checked on its own
					}
					walk(c, p+"/"+k)
				}
			}
			walk(top, "/"+strings.Join(x.path, "/"))
			if bad != "" {
				return scalekit.Bad("config-or-namespace-wrong", "inherited along the instantiated tree", bad)
			}
			if want := cs.N + 8; count != want && !(len(x.path) == 1 && x.path[0] == "plain") {
				return scalekit.Bad("copy-incomplete", fmt.Sprintf("%d nodes below %s", want, strings.Join(x.path, "/")), fmt.Sprint(count))
			}
		}
	}
	return scalekit.OK()
}
