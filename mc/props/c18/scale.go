package c18

import (
	"fmt"
	"strings"

	"github.com/openconfig/goyang/pkg/yang"
	"verif/mc/dump"
	"verif/mc/gen/scale"
	"verif/mc/props/scalekit"
)

// scale: longer histories over bigger sets than the pool allows. A module with n imports (a typedef,
// an identity, a leaf and an augment through every prefix), n submodules, or an identity chain over n
// modules is loaded without its k-th dependency, processed (and, in a variant, read), then completed
// and processed again: the outcome must equal that of a fresh set given everything at once.

func scaleCases(tier string) []scalekit.Case {
	max := 24
	if tier == "thorough" {
		max = 65
	}
	var out []scalekit.Case
	for n := 1; n <= 48; n++ {
		for v := 0; v < 2; v++ {
			out = append(out, scalekit.Case{Shape: "owner-late", N: n, V: v})
		}
	}
	for _, n := range scale.Sizes(max, max) {
		for v := 0; v < 4; v++ {
			out = append(out, scalekit.Case{Shape: "imports-late", N: n, V: v}, scalekit.Case{Shape: "includes-late", N: n, V: v})
		}
	}
	// a module with n further imports names a revision of v that is loaded only after a processing run
	// has bound the import to the other loaded revision (variant 1: v is the first import, else the last)
	for n := 0; n <= max; n++ {
		for v := 0; v < 2; v++ {
			out = append(out, scalekit.Case{Shape: "named-revision-late", N: n, V: v})
		}
	}
	return out
}

func checkScale(cs scalekit.Case) scalekit.Verdict {
	var files []dump.File
	switch cs.Shape {
	case "named-revision-late":
		// identities, an augment and a deviation go through the import (type references an earlier
		// run resolved are the recorded finding and stay out)
		var sb strings.Builder
		sb.WriteString(`module m { yang-version 1.1; namespace "urn:m"; prefix m;`)
		pin := ` import v { prefix v; revision-date 2020-01-01; }`
		if cs.V == 1 {
			sb.WriteString(pin)
		}
		for i := 1; i <= cs.N; i++ {
			fmt.Fprintf(&sb, " import lib%d { prefix %s; }", i, scale.ImportPrefix(cs.N, i))
			files = append(files, dump.File{Name: fmt.Sprintf("lib%d.yang", i), Text: fmt.Sprintf(`module lib%d { yang-version 1.1; namespace "urn:lib%d"; prefix lib%d; identity b; container c; }`, i, i, i)})
		}
		if cs.V != 1 {
			sb.WriteString(pin)
		}
		for i := 1; i <= cs.N; i++ {
			p := scale.ImportPrefix(cs.N, i)
			fmt.Fprintf(&sb, " identity i%d { base %s:b; } augment /%s:c { leaf a%d { type string; } }", i, p, p, i)
		}
		sb.WriteString(` identity derived { base v:vi; } augment /v:top { leaf extra { type string; } } deviation /v:top/v:x { deviate add { default d; } } }`)
		files = append([]dump.File{{Name: "m.yang", Text: sb.String()}}, files...)
		files = append(files,
			dump.File{Name: "v-new.yang", Text: `module v { yang-version 1.1; namespace "urn:v"; prefix v; revision 2021-01-01; revision 2020-01-01; identity vi; identity vnew { base vi; } container top { leaf x { type string; } leaf y { type string; } } }`},
			dump.File{Name: "v-old.yang", Text: `module v { yang-version 1.1; namespace "urn:v"; prefix v; revision 2020-01-01; identity vi; container top { leaf x { type string; } } }`})
	case "owner-late":
		// submodule s with n groupings, typedefs and identities of its own includes s2 and uses a
		// grouping, a typedef and an identity of s2; the owner m includes only s and is loaded
		// after the submodules were processed (and read) on their own
		var sb strings.Builder
		sb.WriteString(`submodule s { yang-version 1.1; belongs-to m { prefix m; } include s2;`)
		for i := 0; i < cs.N; i++ {
			fmt.Fprintf(&sb, " grouping g%d { leaf l%d { type string; } } typedef t%d { type int8; } identity i%d;", i, i, i, i)
		}
		sb.WriteString(` container c { uses g0; uses shared; leaf viat { type st; } leaf r { type identityref { base sid; } } } identity derived { base sid; } }`)
		files = []dump.File{
			{Name: "s.yang", Text: sb.String()},
			{Name: "s2.yang", Text: `submodule s2 { yang-version 1.1; belongs-to m { prefix m; } grouping shared { leaf from-s2 { type string; } } typedef st { type int16; } identity sid; }`},
			{Name: "m.yang", Text: `module m { yang-version 1.1; namespace "urn:m"; prefix m; include s; leaf own { type string; } }`},
		}
	case "imports-late":
		files = scale.Imports(cs.N)
	case "includes-late":
		files = scale.Includes(cs.N, cs.V%2 == 1)
	}
	// the dependency held back: the last one (variants 0, 1) or the middle one (2, 3)
	late := len(files) - 1
	if cs.V >= 2 && cs.Shape != "owner-late" {
		late = 1 + (len(files)-1)/2
		if late >= len(files) {
			late = len(files) - 1
		}
	}
	// (the batch run under the same crossing: respelt prefixes, options)
	bms := scalekit.NewModules()
	var bfiles []dump.File
	for _, f := range files {
		bfiles = append(bfiles, dump.File{Name: f.Name, Text: scalekit.Text(f.Text)})
	}
	batch := dump.Run(bfiles, dump.Options{Positions: true}, func(ms *yang.Modules) { ms.ParseOptions = bms.ParseOptions }).Summary()
	ms := scalekit.NewModules()
	for i, f := range files {
		if i == late {
			continue
		}
		if err := ms.Parse(scalekit.Text(f.Text), f.Name); err != nil {
			return scalekit.Bad("load-error", "loads", err.Error())
		}
	}
	first := ms.Process()
	if len(first) == 0 && cs.Shape != "owner-late" && cs.Shape != "named-revision-late" {
		return scalekit.Bad("missing-dependency-not-reported", "an error from the first Process", "none")
	}
	if cs.Shape == "owner-late" && cs.V == 1 {
		for _, m := range ms.SubModules {
			yang.ToEntry(m).GetErrors()
		}
	}
	if cs.V%2 == 1 || cs.Shape == "imports-late" {
		// reads in between
		for _, m := range ms.Modules {
			yang.ToEntry(m).GetErrors()
		}
		_ = dump.Modules(ms, dump.Options{Positions: true}) // every read accessor, incl. namespace and module lookups
	}
	if err := ms.Parse(scalekit.Text(files[late].Text), files[late].Name); err != nil {
		return scalekit.Bad("load-error", "loads", err.Error())
	}
	errs := ms.Process()
	got := ""
	if len(errs) > 0 {
		got = "process errors:\n" + dump.Errors(errs)
	} else {
		got = dump.Modules(ms, dump.Options{Positions: true})
	}
	if got != batch {
		return scalekit.Bad("state-differs-from-batch", clipText(batch), clipText(got)+fmt.Sprintf("\n(%d files, file %d loaded after the first Process)", len(files), late))
	}
	return scalekit.OK()
}

func clipText(s string) string {
	if len(s) > 1500 {
		return s[:1400] + "\n..."
	}
	return s
}
