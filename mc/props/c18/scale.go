package c18

import (
	"fmt"

	"github.com/openconfig/goyang/pkg/yang"
	"verif/mc/dump"
	"verif/mc/gen/scale"
	"verif/mc/props/scalekit"
)

// scale: longer histories over bigger sets than the pool allows. A module with n imports (a typedef,
// an identity, a leaf and an augment through every prefix), n submodules, or an identity chain over n
// modules is loaded without its k-th dependency, processed (and, in a variant, read), then completed
// and processed again: the outcome must equal that of a fresh set given everything at once.

func scaleCases(tier string) []scalekit.Case {
	max := 24
	if tier == "thorough" {
		max = 65
	}
	var out []scalekit.Case
	for _, n := range scale.Sizes(max, max) {
		for v := 0; v < 4; v++ {
			out = append(out, scalekit.Case{Shape: "imports-late", N: n, V: v}, scalekit.Case{Shape: "includes-late", N: n, V: v})
		}
	}
	return out
}

func checkScale(cs scalekit.Case) scalekit.Verdict {
	var files []dump.File
	switch cs.Shape {
	case "imports-late":
		files = scale.Imports(cs.N)
	case "includes-late":
		files = scale.Includes(cs.N, cs.V%2 == 1)
	}
	// the dependency held back: the last one (variants 0, 1) or the middle one (2, 3)
	late := len(files) - 1
	if cs.V >= 2 {
		late = 1 + (len(files)-1)/2
		if late >= len(files) {
			late = len(files) - 1
		}
	}
	batch := dump.Run(files, dump.Options{Positions: true}).Summary()
	ms := yang.NewModules()
	for i, f := range files {
		if i == late {
			continue
		}
		if err := ms.Parse(f.Text, f.Name); err != nil {
			return scalekit.Bad("load-error", "loads", err.Error())
		}
	}
	first := ms.Process()
	if len(first) == 0 {
		return scalekit.Bad("missing-dependency-not-reported", "an error from the first Process", "none")
	}
	if cs.V%2 == 1 || cs.Shape == "imports-late" {
		// reads in between
		for _, m := range ms.Modules {
			yang.ToEntry(m).GetErrors()
		}
		_ = dump.Modules(ms, dump.Options{Positions: true}) // every read accessor, incl. namespace and module lookups
	}
	if err := ms.Parse(files[late].Text, files[late].Name); err != nil {
		return scalekit.Bad("load-error", "loads", err.Error())
	}
	errs := ms.Process()
	got := ""
	if len(errs) > 0 {
		got = "process errors:\n" + dump.Errors(errs)
	} else {
		got = dump.Modules(ms, dump.Options{Positions: true})
	}
	if got != batch {
		return scalekit.Bad("state-differs-from-batch", clipText(batch), clipText(got)+fmt.Sprintf("\n(%d files, file %d loaded after the first Process)", len(files), late))
	}
	return scalekit.OK()
}

func clipText(s string) string {
	if len(s) > 1500 {
		return s[:1400] + "\n..."
	}
	return s
}
