package c18

import (
	"fmt"
	"os"
	"path/filepath"
	"strings"

	"github.com/openconfig/goyang/pkg/yang"
	"verif/mc/core"
)

// Histories over real files: the modules live in two directories, are offered by file name
// (Modules.Read adds the directory of a file it could load from to the search path), by module name
// (searched on the path), or are fetched by a processing run that meets an import; directories are
// also added to the path by hand. After every processing run the set must be what a fresh set is
// that was given the successful operations once each in the same order and processed once: what an
// earlier run could not find then, it finds now.

type fileSpec struct {
	dir        int
	name, text string
}

var fileSpecs = []fileSpec{
	{0, "fa.yang", `module fa { ` + H("fa") + ` import fb { prefix fb; } leaf l { type fb:t; } container c { uses fb:g; } }`},
	{1, "fb.yang", `module fb { ` + H("fb") + ` include fbsub; typedef t { type st; } grouping g { leaf gl { type t; } } }`},
	{1, "fbsub.yang", `submodule fbsub { belongs-to fb { prefix fb; } typedef st { type int8 { range "1..9"; } } container sc { leaf sl { type st; } } }`},
	{1, "fc.yang", `module fc { ` + H("fc") + ` revision 2021-06-01; container c { leaf x { type string; } } identity i; }`},
	{0, "fd.yang", `module fd { ` + H("fd") + ` import fc { prefix fc; } augment /fc:c { leaf y { type string; } } identity d { base fc:i; } }`},
	{1, "fbad.yang", `module fbad { ` + H("fbad") + ` leaf l { type string; }`},
	{0, "fe.yang", `module fe { ` + H("fe") + ` import fa { prefix fa; } import fc { prefix fc; } leaf r { type leafref { path "/fa:l"; } } }`},
}

// file operations: read a file by its path, read a module by name, add a directory, process
const (
	fopProcess = iota
	fopAddDir0
	fopAddDir1
	fopFieldDir1 // the exported field Modules.Path gets the directory appended, without AddPath
	fopName      // fopName+i: Read by the module name of fileSpecs[i]; then fopPath+i: Read by path
)

var nameReads = []string{"fa", "fb", "fc", "fd"}

func fileOps() []string {
	out := []string{"process", "addpath(d0)", "addpath(d1)", "path-field+=d1"}
	for _, n := range nameReads {
		out = append(out, "read("+n+")")
	}
	for _, f := range fileSpecs {
		out = append(out, fmt.Sprintf("read(d%d/%s)", f.dir, f.name))
	}
	return out
}

type fileWorld struct {
	root string
	dirs [2]string
}

var fw *fileWorld

func filesEnv() *fileWorld {
	if fw != nil {
		return fw
	}
	root, err := os.MkdirTemp("..", "c18-")
	if err != nil {
		panic(err)
	}
	root, _ = filepath.Abs(root)
	w := &fileWorld{root: root}
	for i := range w.dirs {
		w.dirs[i] = filepath.Join(root, fmt.Sprintf("d%d", i))
		os.MkdirAll(w.dirs[i], 0o755)
	}
	for _, f := range fileSpecs {
		if err := os.WriteFile(filepath.Join(w.dirs[f.dir], f.name), []byte(f.text), 0o644); err != nil {
			panic(err)
		}
	}
	fw = w
	return w
}

// applyFileOp performs one operation other than process; ok says whether it took effect.
func applyFileOp(w *fileWorld, ms *yang.Modules, op int) (ok bool) {
	switch {
	case op == fopAddDir0:
		ms.AddPath(w.dirs[0])
		return true
	case op == fopAddDir1:
		ms.AddPath(w.dirs[1])
		return true
	case op == fopFieldDir1:
		ms.Path = append(ms.Path, w.dirs[1])
		return true
	case op < fopName+len(nameReads):
		return ms.Read(nameReads[op-fopName]) == nil
	default:
		f := fileSpecs[op-fopName-len(nameReads)]
		return ms.Read(filepath.Join(w.dirs[f.dir], f.name)) == nil
	}
}

func fileSummary(w *fileWorld, ms *yang.Modules, errs []error) string {
	s := summary(ms, errs)
	return strings.ReplaceAll(s, w.root, "<root>")
}

var fileBatchCache = map[string]string{}

func fileBatch(w *fileWorld, done []int) string {
	key := fmt.Sprint(done)
	if v, ok := fileBatchCache[key]; ok {
		return v
	}
	ms := yang.NewModules()
	for _, op := range done {
		if !applyFileOp(w, ms, op) {
			// an operation that took effect in the history does not on a fresh set: reported by the caller
			return "BATCH-REJECTS " + fileOps()[op]
		}
	}
	s := fileSummary(w, ms, ms.Process())
	fileBatchCache[key] = s
	return s
}

func runFileHistory(h []int) (f *fail, procs, steps int) {
	w := filesEnv()
	var res *fail
	pan, pt := core.Guard(func() {
		ms := yang.NewModules()
		var done []int
		for step, op := range h {
			steps++
			if op != fopProcess {
				if applyFileOp(w, ms, op) {
					done = append(done, op)
				}
				continue
			}
			procs++
			got := fileSummary(w, ms, ms.Process())
			want := fileBatch(w, done)
			if got != want {
				fp := "files:state-differs-from-batch"
				switch {
				case strings.HasPrefix(want, "BATCH-REJECTS"):
					fp = "files:operation-succeeds-only-after-a-history"
				case strings.HasPrefix(want, "process errors") && !strings.HasPrefix(got, "process errors"):
					fp = "files:errors-lost"
				case !strings.HasPrefix(want, "process errors") && strings.HasPrefix(got, "process errors"):
					fp = "files:spurious-errors"
				}
				res = &fail{fp, want, got + fmt.Sprintf("\n(after step %d)", step)}
				return
			}
		}
	})
	if pan {
		return &fail{"panic@" + core.LastPanicSite, "no panic", pt}, procs, steps
	}
	return res, procs, steps
}

func describeFiles(h []int) Input {
	names := fileOps()
	var out []string
	for _, o := range h {
		out = append(out, names[o])
	}
	return Input{History: out, Ops: h, Files: true}
}

func fileShards() []string {
	var out []string
	for i := range fileOps() {
		out = append(out, fmt.Sprintf("files/%d", i))
	}
	return out
}

func runFiles(c *core.Ctx) {
	var a int
	fmt.Sscanf(c.Shard, "files/%d", &a)
	D := 5
	if c.Tier == "thorough" {
		D = 6
	}
	nops := len(fileOps())
	h := []int{a}
	n := 0
	var rec func()
	rec = func() {
		if c.Expired() {
			return
		}
		if len(h) == D-1 {
			hist := append(append([]int{}, h...), fopProcess)
			caseNo, ok := c.Begin()
			if c.Skip(caseNo, ok, describeFiles(hist)) {
				return
			}
			c.Exec()
			c.StateN(1)
			f, procs, steps := runFileHistory(hist)
			c.Edge(int64(steps))
			c.Validates(int64(procs))
			if procs > 1 {
				c.NontrivialN(1)
			}
			n++
			if f != nil {
				c.Outcome("FAIL:" + f.fp)
				c.Fail(caseNo, nil, f.fp, describeFiles(hist), f.exp, f.obs)
			} else {
				c.Outcome("files:agrees-with-batch")
				if n%500 == 41 {
					c.Sample(fmt.Sprint(describeFiles(hist).History))
				}
			}
			return
		}
		for o := 0; o < nops; o++ {
			h = append(h, o)
			rec()
			h = h[:len(h)-1]
		}
	}
	rec()
	if fw != nil {
		os.RemoveAll(fw.root)
		fw = nil
	}
}
