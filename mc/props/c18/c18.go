// Package c18 decides C18: re-processing, incremental loading and failed loads do not skew results.
// Exhaustive exploration of operation histories (load of each pool text, process, read) up to a
// depth on one real Modules value; after every process the observable state (canonical dump or
// error list) must equal that of a fresh set given the successfully loaded texts once each in the
// same relative order and processed once.
package c18

import (
	"encoding/json"
	"fmt"
	"os"
	"sort"
	"strings"

	"github.com/openconfig/goyang/pkg/yang"
	"verif/mc/core"
	"verif/mc/dump"
	"verif/mc/props/scalekit"
)

type text struct {
	name, body string
	module     string // module name@rev it declares ("" if it cannot be loaded at all)
	valid      bool   // well-formed and buildable on its own
}

func H(n string) string { return fmt.Sprintf(`namespace "urn:%s"; prefix %s;`, n, n) }

var pool = []text{
	{"g.yang", `module g { ` + H("g") + ` typedef t { type string { length "1..9"; } } identity base; leaf gr { type identityref { base base; } } leaf l { type t; } container c { leaf x { type int8; } } grouping gg { leaf gl { type t; } } rpc op; extension note { argument text; } }`, "g", true},
	{"h.yang", `module h { ` + H("h") + ` import g { prefix g; } identity d { base g:base; } grouping hg { leaf hl { type g:t; } } augment /g:c { leaf y { type g:t; } } augment /g:op/g:input { leaf ai { type string; } } container hc { uses g:gg; leaf r { type identityref { base g:base; } } } deviation /g:l { deviate add { default dd; } }` +
		// type statements that carry an extension of the imported module: resolving them needs the import
		` leaf he { type string { g:note "n"; length "1..4"; pattern "a+"; } } typedef ht { type int8 { g:note "m"; range "1..5"; } } leaf hf { type ht; } leaf hu { type union { type ht; type string { g:note "u"; length "2"; } } } }`, "h", true},
	{"k.yang", `module k { ` + H("k") + ` import h { prefix h; } identity e { base h:d; } container kc { uses h:hg; leaf kr { type identityref { base h:d; } } } }`, "k", true},
	{"r.yang", `module r { ` + H("r") + ` leaf l { type int8 { range 1..500; } } leaf u { type nosuch; } leaf en { type enumeration { enum a { value 1; } enum b { value 1; } enum c; } } typedef bt { type bits { bit x { position 2; } bit y { position 2; } bit z; } } leaf bl { type bt; } }`, "r", true},
	{"gm.yang", `module gm { ` + H("gm") + ` include gsub; leaf q { type st; } }`, "gm", true},
	{"gsub.yang", `submodule gsub { belongs-to gm { prefix gm; } import g { prefix g; } typedef st { type g:t; } container sc { leaf sl { type st; } uses g:gg; } }`, "gsub", true},
	{"syntax.yang", `module s { ` + H("s") + ` leaf l { type string; }`, "", false},
	{"b1.yang", `module b1 { ` + H("b1") + ` typedef bt { type nosuch; } bogus x; }`, "", false},
	{"b2.yang", `module b2 { ` + H("b2") + ` container c { typedef bt2 { type int8; } typedef bt3 { type string { length "10..1"; } } } grouping bg { typedef bt4 { type nosuch; } typedef bt5 { type g:t; } leaf bgl { type bt4; } } rpc brpc { input { typedef bt6 { type bt6; } } } identity bi; leaf l { type string; } leaf m { bogus y; } }`, "", false},
	{"gdup.yang", `module g { ` + H("g") + ` leaf other { type string; } typedef t { type int64; } }`, "g", true},
	// two revisions of one module, and an importer that pins the older one: once both are loaded the
	// namespace is that of two modules
	{"v1.yang", `module v { ` + H("v") + ` revision 2020-01-01; typedef vt { type int8 { range "1..9"; } units old; default 3; } grouping vg { leaf gold { type vt; } container gc { leaf deep { type string; } } } container vc { leaf old { type vt; } } identity vi; }`, "v@2020-01-01", true},
	{"v2.yang", `module v { ` + H("v") + ` revision 2021-06-01; revision 2020-01-01; import g { prefix g; } typedef vt { type string { length "1..4"; pattern "a+"; } units new; } grouping vg { leaf gnew { type vt; } leaf-list gll { type vt; } } container vc { leaf new { type vt; } } identity vi; identity vj { base vi; } deviation /g:c/g:x { deviate add { default 5; } } }`, "v@2021-06-01", true},
	{"w.yang", `module w { ` + H("w") + ` import v { prefix v; revision-date 2020-01-01; } identity wi { base v:vi; } augment /v:vc { leaf wa { type v:vt; } } typedef wt { type v:vt; } leaf wl { type wt; } container wu { uses v:vg; } }`, "w", true},
	// an importer that names a revision of v which is never loaded: it goes with the latest loaded one
	{"y.yang", `module y { ` + H("y") + ` import v { prefix v; revision-date 2019-06-01; } identity yi { base v:vi; } container yu { uses v:vg; } augment /v:vc { leaf ya { type string; } } }`, "y", true},
	{"x.yang", `module x { ` + H("x") + ` import v { prefix v; } identity xi { base v:vi; } typedef xt { type v:vt; } leaf xl { type xt; } leaf xl2 { type v:vt; } container xu { uses v:vg; } grouping xg { uses v:vg; } container xu2 { uses xg; } leaf xr { type identityref { base v:vi; } } }`, "x", true},
	// two revisions of a submodule, the module that includes it (date-less) and an importer of that module
	{"sm2.yang", `module sm { ` + H("sm") + ` revision 2022-02-02; revision 2020-01-01; typedef st { type boolean; } grouping sg { leaf own { type st; } } identity si; identity sk { base si; } leaf q { type st; } }`, "sm@2022-02-02", true},
	{"sm.yang", `module sm { ` + H("sm") + ` revision 2020-01-01; include ss; leaf q { type st; } container smc { uses sg; } identity smb; }`, "sm@2020-01-01", true},
	{"ss1.yang", `submodule ss { belongs-to sm { prefix sm; } revision 2020-01-01; typedef st { type int8; } grouping sg { leaf old { type st; } } container sc { leaf a { type st; } } identity si; identity sold; identity so { base sm:smb; } }`, "ss@2020-01-01", true},
	{"ss2.yang", `submodule ss { belongs-to sm { prefix sm; } revision 2021-06-01; typedef st { type string; } grouping sg { leaf new { type st; } leaf-list nl { type st; } } container sc { leaf b { type st; } } identity si; identity sj { base si; } identity sn { base sm:smb; } }`, "ss@2021-06-01", true},
	{"su.yang", `module su { ` + H("su") + ` import sm { prefix sm; } identity sud { base sm:si; } leaf r { type identityref { base sm:si; } } leaf t { type sm:st; } container suc { uses sm:sg; } }`, "su", true},
	// a base that only the older submodule revision defines (and the later module revision lacks): once
	// the later one is loaded the base must be reported as unresolved, whatever an earlier run found
	{"sv.yang", `module sv { ` + H("sv") + ` import sm { prefix sm; } identity svd { base sm:sold; } identity sve { base sm:si; } }`, "sv", true},
	{"nomand.yang", `module nm { prefix nm; typedef z { type int8; } container nc { typedef nz { type int8 { range "5..1"; } } list nl { typedef nz2 { type nosuch2; } key k; leaf k { type nz2; } } } }`, "", false},
}

const (
	opProcess = -1
	opRead    = -2
	opGet     = -3 // GetModule("g"): processes the set and returns the module's tree
)

// groups: the texts that interact with each other. The quick tier explores every history within a
// group (texts of different groups share nothing, so a history across groups is two histories side
// by side); the thorough tier also explores the whole pool.
var groups = [][]string{
	{"g.yang", "h.yang", "k.yang", "r.yang", "syntax.yang", "b1.yang", "b2.yang", "gdup.yang", "nomand.yang"},
	{"g.yang", "gm.yang", "gsub.yang", "h.yang", "b2.yang", "syntax.yang"},
	{"g.yang", "v1.yang", "v2.yang", "w.yang", "x.yang", "y.yang", "b1.yang"},
	{"sm.yang", "sm2.yang", "ss1.yang", "ss2.yang", "su.yang", "sv.yang", "b1.yang"},
}

func groupOps(gi int) []int {
	o := []int{opProcess}
	for _, n := range groups[gi] {
		o = append(o, poolIndex(n))
	}
	return append(o, opRead, opGet)
}

func ops() []int {
	o := []int{opProcess}
	for i := range pool {
		o = append(o, i)
	}
	return append(o, opRead, opGet)
}

func opName(o int) string {
	switch o {
	case opProcess:
		return "process"
	case opRead:
		return "read"
	case opGet:
		return "getmodule(g)"
	}
	return "load(" + pool[o].name + ")"
}

type Input struct {
	History []string       `json:"history"`
	Ops     []int          `json:"ops"`
	Scale   *scalekit.Case `json:"scale,omitempty"`
	// Files: the operations are those of the file space (files.go)
	Files bool `json:"files,omitempty"`
}

type fail struct{ fp, exp, obs string }

var batchCache = map[string]string{}

func batch(loaded []int) string {
	key := fmt.Sprint(loaded)
	if v, ok := batchCache[key]; ok {
		return v
	}
	var files []dump.File
	for _, i := range loaded {
		files = append(files, dump.File{Name: pool[i].name, Text: pool[i].body})
	}
	r := dump.Run(files, dump.Options{Positions: true})
	for i, e := range r.LoadErrs {
		if e != "" {
			panic(fmt.Sprintf("batch: text %s loaded in the history but not on a fresh set: %s", files[i].Name, e))
		}
	}
	s := r.Summary()
	if len(r.ProcErrs) > 0 {
		s += "\ntrees after the failed run:\n" + dump.Modules(r.MS, dump.Options{Positions: true})
	}
	batchCache[key] = s
	return s
}

var batchGetCache = map[string]string{}

// batchGet: a fresh set given the loaded texts, asked for module g through GetModule.
func batchGet(loaded []int) string {
	key := fmt.Sprint(loaded)
	if v, ok := batchGetCache[key]; ok {
		return v
	}
	ms := yang.NewModules()
	for _, i := range loaded {
		if err := ms.Parse(pool[i].body, pool[i].name); err != nil {
			panic("batchGet: " + err.Error())
		}
	}
	e, errs := ms.GetModule("g")
	s := getSummary(ms, e, errs)
	batchGetCache[key] = s
	return s
}

func getSummary(ms *yang.Modules, e *yang.Entry, errs []error) string {
	if len(errs) > 0 {
		return "getmodule errors:\n" + dump.Errors(errs)
	}
	if e == nil {
		return "getmodule: nil entry without errors"
	}
	if e != yang.ToEntry(ms.Modules["g"]) {
		return "getmodule: an entry that is not the tree of module g"
	}
	return dump.Modules(ms, dump.Options{Positions: true})
}

func summary(ms *yang.Modules, errs []error) string {
	if len(errs) > 0 {
		return "process errors:\n" + dump.Errors(errs) + "\ntrees after the failed run:\n" + dump.Modules(ms, dump.Options{Positions: true})
	}
	return dump.Modules(ms, dump.Options{Positions: true})
}

// runHistory executes the operations on one real Modules value, checking the oracle at every step.
func runHistory(h []int) (f *fail, procs int, steps int) {
	var res *fail
	pan, pt := core.Guard(func() {
		ms := yang.NewModules()
		var loaded []int
		have := map[string]bool{}
		processedOnce := false
		for step, op := range h {
			steps++
			switch op {
			case opProcess:
				procs++
				errs := ms.Process()
				got := summary(ms, errs)
				want := batch(loaded)
				if got != want {
					fp := "state-differs-from-batch"
					switch {
					case strings.HasPrefix(want, "process errors") && !strings.HasPrefix(got, "process errors"):
						fp = "errors-lost"
					case !strings.HasPrefix(want, "process errors") && strings.HasPrefix(got, "process errors"):
						fp = "spurious-errors"
					case strings.HasPrefix(want, "process errors"):
						fp = "different-errors"
						we, _, _ := strings.Cut(want, "\ntrees after the failed run:\n")
						ge, _, _ := strings.Cut(got, "\ntrees after the failed run:\n")
						if we == ge {
							fp = "trees-after-failed-run-differ"
							if lateRevision(h[:step+1]) {
								// the errors agree; what can be read after the failed run rests on
								// bindings an earlier run left (recorded finding): not compared
								processedOnce = true
								continue
							}
						}
					}
					if lateRevision(h[:step+1]) && maskTypes(got) == maskTypes(want) {
						fp += ":only-types-resolved-by-an-earlier-run"
					}
					res = &fail{fp, want, got + fmt.Sprintf("\n(after step %d)", step)}
					return
				}
				processedOnce = true
				if p := queries(ms); p != "" {
					res = &fail{"query-answers-with-a-module-that-is-not-loaded", "the registered module", p + fmt.Sprintf("\n(after step %d)", step)}
					return
				}
			case opGet:
				procs++
				e, errs := ms.GetModule("g")
				got, want := getSummary(ms, e, errs), batchGet(loaded)
				if got != want {
					fp := "getmodule-differs-from-batch"
					if strings.HasPrefix(want, "getmodule errors") && !strings.HasPrefix(got, "getmodule errors") {
						fp = "getmodule-errors-lost"
					}
					if lateRevision(h[:step+1]) && maskTypes(got) == maskTypes(want) {
						fp += ":only-types-resolved-by-an-earlier-run"
					}
					res = &fail{fp, want, got + fmt.Sprintf("\n(after step %d)", step)}
					return
				}
				if len(errs) == 0 || have["g"] {
					processedOnce = true
				}
			case opRead:
				if !processedOnce {
					continue
				}
				// reads: dump twice, look things up; must not change anything observable
				_ = dump.Modules(ms, dump.Options{Positions: true})
				for _, m := range ms.Modules {
					e := yang.ToEntry(m)
					// paths spelled with the module's own prefix only: an unknown prefix makes
					// Find record an error on the root entry, which no property covers
					p := m.GetPrefix()
					for _, path := range []string{"/%s:c/%s:y", "/%s:op/%s:input/%s:ai", "/%s:op/%s:output", "/%s:hc/%s:gl", "/%s:nosuch", "c/../l"} {
						e.Find(strings.ReplaceAll(path, "%s", p))
					}
					e.GetErrors()
				}
				ms.FindModuleByNamespace("urn:g")
				if p := queries(ms); p != "" {
					res = &fail{"query-answers-with-a-module-that-is-not-loaded", "the registered module", p + fmt.Sprintf("\n(after step %d)", step)}
					return
				}
				// (Find creates the input/output of an rpc on demand; the statement only speaks
				// of what later processing runs report, so the dump is not compared here)
				_ = dump.Modules(ms, dump.Options{Positions: true})
			default:
				t := pool[op]
				err := ms.Parse(t.body, t.name)
				wantOK := t.valid && !have[t.module]
				if (err == nil) != wantOK {
					if err == nil {
						res = &fail{"load-accepted-must-reject", "error (invalid text, or module name and revision already loaded)", fmt.Sprintf("step %d %s returned nil", step, opName(op))}
					} else {
						res = &fail{"load-rejected-must-accept", "nil", fmt.Sprintf("step %d %s: %v", step, opName(op), err)}
					}
					return
				}
				if err == nil {
					loaded = append(loaded, op)
					have[t.module] = true
				}
			}
		}
	})
	if pan {
		return &fail{"panic@" + core.LastPanicSite, "no panic", pt}, procs, steps
	}
	return res, procs, steps
}

// queries: the lookups by namespace and by import answer with the very module objects the set has
// registered - never with one a rejected load left behind.
func queries(ms *yang.Modules) string {
	var names []string
	for n := range ms.Modules {
		names = append(names, n)
	}
	sort.Strings(names)
	for _, n := range names {
		m := ms.Modules[n]
		if strings.Contains(n, "@") || m.Namespace == nil {
			continue
		}
		got, err := ms.FindModuleByNamespace(m.Namespace.Name)
		sameNS := map[*yang.Module]bool{}
		for _, o := range ms.Modules {
			if o.Namespace != nil && o.Namespace.Name == m.Namespace.Name {
				sameNS[o] = true
			}
		}
		if len(sameNS) > 1 {
			// two loaded modules (revisions) of one namespace: the lookup says so
			if err == nil {
				return fmt.Sprintf("FindModuleByNamespace(%s) = %s although %d loaded modules have that namespace", m.Namespace.Name, src(got), len(sameNS))
			}
			continue
		}
		if err != nil || got != m {
			return fmt.Sprintf("FindModuleByNamespace(%s) = %s (%v), registered: %s", m.Namespace.Name, src(got), err, src(m))
		}
		for _, im := range m.Import {
			if im.Module != nil {
				if reg := ms.Modules[im.Module.Name]; reg != nil && im.Module.Name == im.Name && ms.FindModule(im) != nil && ms.FindModule(im).Name != im.Name {
					return fmt.Sprintf("FindModule(import %s in %s) = %s", im.Name, n, src(ms.FindModule(im)))
				}
			}
		}
	}
	return ""
}

func src(m *yang.Module) string {
	if m == nil {
		return "nil"
	}
	return m.Name + " from " + yang.Source(m)
}

func depth(tier string) int {
	if tier == "thorough" {
		return 7
	}
	return 6
}

func shards(tier string) []string {
	var out []string
	for gi := range groups {
		for _, a := range groupOps(gi) {
			for _, b := range groupOps(gi) {
				out = append(out, fmt.Sprintf("g%d/%d/%d", gi, a, b))
			}
		}
	}
	if tier == "thorough" {
		for _, a := range ops() {
			for _, b := range ops() {
				out = append(out, fmt.Sprintf("h/%d/%d", a, b))
			}
		}
	}
	return append(append(out, scalekit.ShardNames()...), fileShards()...)
}

func describe(h []int) Input {
	var names []string
	for _, o := range h {
		names = append(names, opName(o))
	}
	return Input{History: names, Ops: h}
}

func run(c *core.Ctx) {
	if strings.HasPrefix(c.Shard, "scale/") {
		scalekit.Run(c, c.Shard, scaleCases(c.Tier), checkScale, func(cs scalekit.Case) any { return Input{Scale: &cs} })
		return
	}
	if strings.HasPrefix(c.Shard, "files/") {
		runFiles(c)
		return
	}
	var a, b, gi int
	all := ops()
	D := depth(c.Tier)
	if strings.HasPrefix(c.Shard, "h/") {
		fmt.Sscanf(c.Shard, "h/%d/%d", &a, &b)
		D = 6 // the whole pool: one operation less than the groups get in the thorough tier
	} else {
		fmt.Sscanf(c.Shard, "g%d/%d/%d", &gi, &a, &b)
		all = groupOps(gi)
	}
	c.Res.Bound = fmt.Sprintf("all histories of %d operations over {process, getmodule(g), read, load(t)} within each of 4 groups of interacting texts (%d texts in all; thorough: also all histories of 6 operations over the whole pool); every shorter history ending in process is a checked prefix; scale: a module with 1..24 (65) imports or submodules loaded without one of them, processed, read, completed and processed again", D, len(pool))
	h := []int{a, b}
	n := 0
	var rec func()
	rec = func() {
		if c.Expired() {
			return
		}
		if len(h) == D-1 {
			hist := append(append([]int{}, h...), opProcess)
			caseNo, ok := c.Begin()
			if c.Skip(caseNo, ok, describe(hist)) {
				return
			}
			c.Exec()
			c.StateN(1)
			f, procs, steps := runHistory(hist)
			c.Edge(int64(steps))
			c.Validates(int64(procs))
			if procs > 1 {
				c.NontrivialN(1)
			}
			n++
			if f != nil {
				c.Outcome("FAIL:" + f.fp)
				c.Fail(caseNo, classes(hist), f.fp, describe(hist), f.exp, f.obs)
			} else {
				c.Outcome("agrees-with-batch")
				if n%400 == 37 {
					b, _ := json.Marshal(describe(hist))
					c.Sample(string(b))
				}
			}
			return
		}
		for _, o := range all {
			h = append(h, o)
			rec()
			h = h[:len(h)-1]
		}
	}
	rec()
}

// classes are input-side predicates on a history.
func classes(h []int) []string {
	var cl []string
	procs := 0
	failedLoad, loadAfterProcess := false, false
	for _, o := range h {
		switch {
		case o == opProcess || o == opGet:
			procs++
		case o >= 0:
			if !pool[o].valid {
				failedLoad = true
			}
			if procs > 0 {
				loadAfterProcess = true
			}
		}
	}
	// a revision of module v arrives after a processing run that has bound an importer of v (w pins
	// the older revision, x takes the latest) to the other revision
	if lateRevision(h) {
		cl = append(cl, "revision-of-an-imported-or-included-module-loaded-after-a-processing-run")
	}
	if procs > 1 {
		cl = append(cl, "processed-more-than-once")
	}
	if failedLoad {
		cl = append(cl, "contains-a-failed-load")
	}
	if loadAfterProcess {
		cl = append(cl, "load-after-process")
	}
	return cl
}

func poolIndex(name string) int {
	for i, t := range pool {
		if t.name == name {
			return i
		}
	}
	panic("no text " + name)
}

// lateRevision: one revision of a module (submodule) and a module that imports (includes) it are
// loaded, a processing run - or, once a run has taken place, a read, which builds the trees -
// follows, and the other revision is loaded after it.
func lateRevision(h []int) bool {
	for _, fam := range [][]string{{"v1.yang", "v2.yang", "w.yang", "x.yang", "y.yang"}, {"ss1.yang", "ss2.yang", "sm.yang"}, {"sm.yang", "sm2.yang", "su.yang"}} {
		r1, r2 := poolIndex(fam[0]), poolIndex(fam[1])
		var users []int
		for _, n := range fam[2:] {
			users = append(users, poolIndex(n))
		}
		have := map[int]bool{}
		bound := -1
		processed := false
		for _, o := range h {
			if o == opProcess || o == opGet {
				processed = true
			}
			switch {
			case o == opProcess || o == opGet || (o == opRead && processed):
				user := false
				for _, u := range users {
					user = user || have[u]
				}
				if user && (have[r1] != have[r2]) && bound < 0 {
					bound = r1
					if have[r2] {
						bound = r2
					}
				}
			case o >= 0:
				if bound >= 0 && (o == r1 || o == r2) && o != bound && !have[o] {
					return true
				}
				have[o] = true
			}
		}
	}
	return false
}

// maskTypes blanks what a leaf's dump line says about its type and the defaults that come from it.
func maskTypes(s string) string {
	var sb strings.Builder
	for {
		i := strings.Index(s, " type={")
		if i < 0 {
			break
		}
		sb.WriteString(s[:i])
		depth, j := 0, i+6
		for ; j < len(s); j++ {
			if s[j] == '{' {
				depth++
			} else if s[j] == '}' {
				depth--
				if depth == 0 {
					j++
					break
				}
			}
		}
		sb.WriteString(" type=<masked>")
		s = s[j:]
		if strings.HasPrefix(s, " defaults=[") {
			if k := strings.Index(s, "] parent="); k >= 0 {
				s = s[k+1:]
			}
		}
	}
	sb.WriteString(s)
	return sb.String()
}

func replay(tier string, raw json.RawMessage) (bool, string, string) {
	var in Input
	if err := json.Unmarshal(raw, &in); err != nil {
		return false, "", err.Error()
	}
	if in.Scale != nil {
		v := checkScale(*in.Scale)
		return v.Fp != "", "scale:" + v.Fp, fmt.Sprintf("expected %s\nobserved %s", v.Exp, v.Obs)
	}
	var f *fail
	if in.Files {
		f, _, _ = runFileHistory(in.Ops)
		if fw != nil {
			os.RemoveAll(fw.root)
			fw = nil
		}
	} else {
		f, _, _ = runHistory(in.Ops)
	}
	if f == nil {
		return false, "", "agrees with the batch run"
	}
	return true, f.fp, fmt.Sprintf("expected %s\nobserved %s", f.exp, f.obs)
}

func init() {
	core.Register(&core.Prop{
		ID: "C18", Variant: "plain", Shards: shards, Run: run, Replay: replay,
		Rule:        "every history of the depth bound over the operations process, getmodule, read and load(t) for a pool of interacting texts (typedef/identity/grouping used across modules, augment into another module and into an rpc input that is not written, deviation, a module with semantic errors, a module with a submodule, and texts that must be rejected: syntax error, unknown statement after typedefs and identities were built, missing mandatory substatement, a re-load, a different text declaring an already loaded module, a newer revision) is executed on one real Modules value; each load's verdict is predicted (valid and not yet loaded <=> nil); after every process the canonical dump, or else the error list together with the dump of the trees as they can be read after the failed run, must equal that of a fresh set given the successfully loaded texts once each in the same order and processed once; GetModule on a loaded module must give the errors or the tree a fresh set gives; read operations must not change the dump. states = distinct histories; transitions = operations executed; non-trivial = histories with two or more process calls",
		Assumptions: []string{"texts declare one module each (the library documents that a multi-module text may be partly added)", "the batch run on a fresh set is the reference"},
	})
}
