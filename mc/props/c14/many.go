package c14

import (
	"fmt"
	"strings"

	"github.com/openconfig/goyang/pkg/yang"
	"verif/mc/core"
)

// many types in one schema: n leaves with n distinct member lists (enumerations and bits
// alternating, explicit and implicit values mixed), then leaves and a typedef that repeat the first,
// the middle and the last list exactly, and one that repeats the first with another value: every
// leaf must get the table of its own list.

type ManyInput struct {
	N int `json:"distinct_types"`
	// Lists: instead of the N generated lists, these (in this order), one leaf each: member lists
	// that differ but read alike when written out carelessly (one name that contains what the
	// other spells with two members and a value)
	Lists []Input `json:"lists,omitempty"`
}

// confusable returns pairs of member lists whose naive serialisations "name SEP1 value SEP2 name ..."
// coincide: [a=1, b] and the single member named "a<s1>1<s2>b", the same with all values explicit,
// and [a, b] next to "a<s2>b" - for the separators a table key, a cache key or a printed form is
// likely to use. Every pair in both orders, for enumerations and bits.
func confusable() []ManyInput {
	var out []ManyInput
	s1s := []string{"=", ":", " ", "/", "-", "#", "\t", "(", ""}
	s2s := []string{",", ";", " ", "|", "\n", "/", "+", ")", ", ", "\x1f"}
	for _, bits := range []bool{false, true} {
		mk := func(names, values []string) Input { return Input{Bits: bits, Path: "text", Names: names, Values: values} }
		pair := func(a, b Input) {
			out = append(out, ManyInput{Lists: []Input{a, b}}, ManyInput{Lists: []Input{b, a}})
		}
		for _, s2 := range s2s {
			pair(mk([]string{"a", "b"}, []string{"", ""}), mk([]string{"a" + s2 + "b"}, []string{""}))
			pair(mk([]string{"a", "b"}, []string{"", ""}), mk([]string{"a" + s2 + "b" + s2 + "c"}, []string{""}))
			for _, s1 := range s1s {
				n := "a" + s1 + "1" + s2 + "b"
				pair(mk([]string{"a", "b"}, []string{"1", ""}), mk([]string{n}, []string{""}))
				pair(mk([]string{"a", "b"}, []string{"1", "0"}), mk([]string{n}, []string{"0"}))
				pair(mk([]string{"a", "b"}, []string{"1", ""}), mk([]string{n}, []string{"2"}))
				pair(mk([]string{"a", "b", "c"}, []string{"1", "", ""}), mk([]string{n, "c"}, []string{"", ""}))
			}
		}
	}
	return out
}

func manyList(i int) Input {
	return Input{Bits: i%2 == 1, Path: "text",
		Names:  []string{fmt.Sprintf("a%d", i), fmt.Sprintf("b%d", i), fmt.Sprintf("c%d", i)},
		Values: []string{"", fmt.Sprint(100 + i), ""}}
}

func typeText(in Input) string {
	kw, sub, val := "enumeration", "enum", "value"
	if in.Bits {
		kw, sub, val = "bits", "bit", "position"
	}
	var sb strings.Builder
	sb.WriteString("type " + kw + " {")
	for i, n := range in.Names {
		if in.Values[i] == "" {
			fmt.Fprintf(&sb, " %s %s;", sub, quote(n))
		} else {
			fmt.Fprintf(&sb, " %s %s { %s %s; }", sub, quote(n), val, in.Values[i])
		}
	}
	return sb.String() + " }"
}

func checkMany(in ManyInput) *fail {
	var f *fail
	pan, pt := core.Guard(func() {
		var sb strings.Builder
		sb.WriteString("module m { namespace \"urn:m\"; prefix m;")
		lists := map[string]Input{}
		add := func(leaf string, l Input) {
			fmt.Fprintf(&sb, " leaf %s { %s }", leaf, typeText(l))
			lists[leaf] = l
		}
		for i := 0; i < in.N && in.Lists == nil; i++ {
			add(fmt.Sprintf("l%d", i), manyList(i))
		}
		for _, i := range []int{0, in.N / 2, in.N - 1, 1 % (in.N + len(in.Lists))} {
			if _, dup := lists[fmt.Sprintf("again%d", i)]; !dup && in.Lists == nil {
				add(fmt.Sprintf("again%d", i), manyList(i))
			}
		}
		if in.Lists == nil {
			other := manyList(0)
			other.Values[1] = "777"
			add("nearly0", other)
			fmt.Fprintf(&sb, " typedef td { %s } leaf viatd { type td; }", typeText(manyList(0)))
			lists["viatd"] = manyList(0)
		}
		for i, l := range in.Lists {
			add(fmt.Sprintf("c%d", i), l)
		}
		sb.WriteString(" }")
		ms := yang.NewModules()
		if err := ms.Parse(sb.String(), "m.yang"); err != nil {
			f = &fail{"load-error", "loads", err.Error()}
			return
		}
		for round := 0; round < 2; round++ {
			if errs := ms.Process(); len(errs) > 0 {
				f = &fail{"valid-member-rejected", "no error", fmt.Sprint(errs)}
				return
			}
			root := yang.ToEntry(ms.Modules["m"])
			for leaf, l := range lists {
				e := root.Dir[leaf]
				if e == nil || e.Type == nil {
					f = &fail{"no-leaf-type", leaf, "nil"}
					return
				}
				t := e.Type.Enum
				if l.Bits {
					t = e.Type.Bit
				}
				if x := compareType(l, t, reference(l).byName); x != nil {
					x.fp = "another-types-table:" + x.fp
					x.obs = fmt.Sprintf("leaf %s of %d distinct types: %s", leaf, in.N, x.obs)
					f = x
					return
				}
			}
		}
	})
	if pan {
		return &fail{"panic", "no panic", pt}
	}
	return f
}
