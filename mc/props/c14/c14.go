// Package c14 decides C14: enum values and bit positions follow RFC 7950 9.6.4.2 / 9.7.4.2.
// All member sequences up to a length over a boundary alphabet of explicit values (and "implicit"),
// with every pattern of repeated names, driven through the API and through module text.
package c14

import (
	"encoding/json"
	"fmt"
	"math/big"
	"sort"
	"strings"

	"github.com/openconfig/goyang/pkg/yang"
	"verif/mc/core"
)

// value alphabet: "" = implicit
var alphabet = []string{"", "0", "1", "-1", "-5", "-2147483648", "-2147483649", "2147483646", "2147483647", "2147483648",
	"4294967294", "4294967295", "4294967296", "9223372036854775808", "-18446744073709551615", "7"}

type Input struct {
	Many   *ManyInput `json:"many,omitempty"`
	Bits   bool       `json:"bits"`
	Path   string     `json:"path"` // "api" | "text"
	Names  []string   `json:"names"`
	Values []string   `json:"values"` // "" = implicit
}

type expect struct {
	errAt  int // index of the first member the rule rejects, -1 if none
	byName map[string]int64
}

// reference is the RFC rule as a fold.
func reference(in Input) expect {
	lo, hi := big.NewInt(-1<<31), big.NewInt(1<<31-1)
	if in.Bits {
		lo, hi = big.NewInt(0), big.NewInt(1<<32-1)
	}
	ex := expect{errAt: -1, byName: map[string]int64{}}
	usedVal := map[int64]bool{}
	var highest *big.Int
	for i, name := range in.Names {
		var v *big.Int
		if in.Values[i] == "" {
			if highest == nil {
				v = big.NewInt(0)
			} else {
				if highest.Cmp(hi) >= 0 {
					ex.errAt = i
					return ex
				}
				v = new(big.Int).Add(highest, big.NewInt(1))
			}
		} else {
			v, _ = new(big.Int).SetString(in.Values[i], 10)
		}
		if v.Cmp(lo) < 0 || v.Cmp(hi) > 0 {
			ex.errAt = i
			return ex
		}
		if _, dup := ex.byName[name]; dup {
			ex.errAt = i
			return ex
		}
		if !in.Bits && usedVal[v.Int64()] {
			ex.errAt = i
			return ex
		}
		usedVal[v.Int64()] = true
		ex.byName[name] = v.Int64()
		if highest == nil || v.Cmp(highest) > 0 {
			highest = v
		}
	}
	return ex
}

func classes(in Input) []string {
	// input-side predicates for the defect classes once present in the library
	var c []string
	var highest *big.Int
	for i := range in.Names {
		if in.Values[i] == "" {
			if highest != nil && highest.Cmp(big.NewInt(-1)) < 0 {
				c = append(c, "implicit-after-highest-below-minus-one")
			}
			if in.Bits && highest != nil && highest.Cmp(big.NewInt(1<<31-1)) == 0 {
				c = append(c, "bit-implicit-after-int32-max")
			}
			if highest == nil {
				highest = big.NewInt(0)
			} else {
				highest = new(big.Int).Add(highest, big.NewInt(1))
			}
			continue
		}
		v, _ := new(big.Int).SetString(in.Values[i], 10)
		if highest == nil || v.Cmp(highest) > 0 {
			highest = v
		}
	}
	sort.Strings(c)
	var u []string
	for i, x := range c {
		if i == 0 || x != c[i-1] {
			u = append(u, x)
		}
	}
	return u
}

type fail struct{ fp, exp, obs string }

func fmtMap(m map[string]int64) string {
	var ks []string
	for k := range m {
		ks = append(ks, k)
	}
	sort.Strings(ks)
	var sb strings.Builder
	for _, k := range ks {
		fmt.Fprintf(&sb, "%s=%d ", k, m[k])
	}
	return sb.String()
}

func compareType(in Input, e *yang.EnumType, want map[string]int64) *fail {
	if e == nil {
		return &fail{"no-enum-type", fmtMap(want), "nil"}
	}
	nm := e.NameMap()
	if fmtMap(nm) != fmtMap(want) {
		return &fail{"values-differ", fmtMap(want), fmtMap(nm)}
	}
	for n, v := range want {
		if !e.IsDefined(n) || e.Value(n) != v {
			return &fail{"value-accessor-differs", fmt.Sprint(v), fmt.Sprint(e.Value(n))}
		}
	}
	names := e.Names()
	if !sort.StringsAreSorted(names) || len(names) != len(want) {
		return &fail{"names-list-wrong", fmt.Sprint(len(want)), fmt.Sprint(names)}
	}
	for _, n := range names {
		if _, ok := want[n]; !ok {
			return &fail{"names-list-wrong", fmtMap(want), fmt.Sprint(names)}
		}
	}
	vals := e.Values()
	var wv []int64
	for _, v := range want {
		wv = append(wv, v)
	}
	sort.Slice(wv, func(i, j int) bool { return wv[i] < wv[j] })
	if fmt.Sprint(vals) != fmt.Sprint(wv) {
		return &fail{"values-list-wrong", fmt.Sprint(wv), fmt.Sprint(vals)}
	}
	// the exported tables say the same as the accessors; a name that was never set is not defined;
	// what an accessor returned can be changed by the caller without changing the type, and a second
	// call answers like the first
	if len(e.ToInt) != len(want) {
		return &fail{"exported-table-differs", fmtMap(want), fmtMap(e.ToInt)}
	}
	for n, v := range want {
		if got, ok := e.ToInt[n]; !ok || got != v {
			return &fail{"exported-table-differs", fmtMap(want), fmtMap(e.ToInt)}
		}
	}
	for _, n := range []string{"no such member", ""} {
		if _, ok := want[n]; !ok && e.IsDefined(n) {
			return &fail{"undefined-name-defined", n + " is not defined", "IsDefined = true"}
		}
	}
	for k := range nm {
		nm[k] = -77
		break
	}
	nm["injected by the caller"] = 1
	if len(names) > 0 {
		names[0] = "overwritten by the caller"
	}
	if len(vals) > 0 {
		vals[0] = -78
	}
	nm = e.NameMap()
	if fmtMap(nm) != fmtMap(want) || fmt.Sprint(e.Values()) != fmt.Sprint(wv) || len(e.Names()) != len(want) || (len(want) > 0 && e.Names()[0] == "overwritten by the caller") {
		return &fail{"second-call-differs", fmtMap(want), fmtMap(nm) + fmt.Sprint(e.Values(), e.Names())}
	}
	if !in.Bits {
		if len(e.ToString) != len(want) {
			return &fail{"exported-table-differs", fmt.Sprint(len(want), " values"), fmt.Sprint(e.ToString)}
		}
		vm := e.ValueMap()
		if len(vm) != len(nm) {
			return &fail{"maps-not-inverse", fmt.Sprint(len(nm)), fmt.Sprint(len(vm))}
		}
		for n, v := range nm {
			if vm[v] != n || e.Name(v) != n || e.ToString[v] != n {
				return &fail{"maps-not-inverse", n, vm[v]}
			}
		}
		for k := range vm {
			vm[k] = "overwritten by the caller"
		}
		for n, v := range nm {
			if e.Name(v) != n || e.ValueMap()[v] != n {
				return &fail{"second-call-differs", n, e.Name(v)}
			}
		}
	}
	return nil
}

var enumNames = []string{"a", "A", "a b", "a  b", "10 Gbps", "a\tb", "1", "01", "10", "9", "-1", "+1", "0x1", "1.5", "1e3", "true", "enum", "value", "type", "min", "é", "e\u0301", "😀", "a.b", "a-b", "a_b", "a:b", "a/b", "*", "a\"b", "a\\b", "a'b", "a;b", "a{b", "//a", "/*a*/", "a+b", "n0"}
var bitNames = []string{"a", "A", "a.b", "a-b", "a_b", "_", "_1", "bit", "position", "type", "e10", "e9", "x-", "n0"}

// quote writes a name as a double-quoted YANG string when it is not a plain word.
func quote(n string) string {
	plain := n != ""
	for _, c := range n {
		if !(c == '_' || c == '-' || c == '.' || c >= '0' && c <= '9' || c >= 'a' && c <= 'z' || c >= 'A' && c <= 'Z') {
			plain = false
		}
	}
	if plain {
		return n
	}
	r := strings.NewReplacer("\\", "\\\\", "\"", "\\\"", "\t", "\\t", "\n", "\\n")
	return "\"" + r.Replace(n) + "\""
}

func render(in Input) string {
	var sb strings.Builder
	sb.WriteString("module m { namespace \"urn:m\"; prefix m; leaf l { type ")
	kw, sub, val := "enumeration", "enum", "value"
	if in.Bits {
		kw, sub, val = "bits", "bit", "position"
	}
	sb.WriteString(kw + " {")
	for i, n := range in.Names {
		if in.Values[i] == "" {
			fmt.Fprintf(&sb, " %s %s;", sub, quote(n))
		} else {
			fmt.Fprintf(&sb, " %s %s { %s %s; }", sub, quote(n), val, in.Values[i])
		}
	}
	sb.WriteString(" } }")
	// the same member list reached through a typedef and through a typedef of that typedef
	body := sb.String()
	body = body[strings.Index(body, "type "+kw) : len(body)-2]
	sb.WriteString(" typedef te { " + body + " } typedef te2 { type te; } leaf via-typedef { type te; } leaf-list via-chain { type te2; } }")
	return sb.String()
}

func check(in Input) *fail {
	ex := reference(in)
	var f *fail
	pan, pt := core.Guard(func() {
		switch in.Path {
		case "api":
			var e *yang.EnumType
			if in.Bits {
				e = yang.NewBitfield()
			} else {
				e = yang.NewEnumType()
			}
			for i, n := range in.Names {
				var err error
				if in.Values[i] == "" {
					err = e.SetNext(n)
				} else {
					v, _ := new(big.Int).SetString(in.Values[i], 10)
					err = e.Set(n, v.Int64())
				}
				if i == ex.errAt {
					if err == nil {
						f = &fail{"invalid-member-accepted", fmt.Sprintf("error at member %d", i), "nil"}
						return
					}
					// A refused member was assigned nothing: the table is what it was, and the
					// members that follow are numbered as if it had not been offered.
					rest := Input{Bits: in.Bits, Path: in.Path, Names: append(append([]string{}, in.Names[:i]...), in.Names[i+1:]...), Values: append(append([]string{}, in.Values[:i]...), in.Values[i+1:]...)}
					if pf := continueAfterRefusal(e, rest, i); pf != nil {
						f = pf
					}
					return
				}
				if err != nil {
					f = &fail{"valid-member-rejected", "nil", fmt.Sprintf("member %d: %v", i, err)}
					return
				}
				// a table can be read while it is being filled: after every member the views say
				// what the members so far amount to (and a later read is not held to an earlier one)
				if i < len(in.Names)-1 && (len(in.Names) <= 8 || i%41 == 3) {
					pre := Input{Bits: in.Bits, Path: in.Path, Names: in.Names[:i+1], Values: in.Values[:i+1]}
					if pf := compareType(pre, e, reference(pre).byName); pf != nil {
						pf.fp += "@while-filling"
						f = pf
						return
					}
				}
			}
			f = compareType(in, e, ex.byName)
		case "text":
			ms := yang.NewModules()
			if err := ms.Parse(render(in), "m.yang"); err != nil {
				f = &fail{"load-error", "loads", err.Error()}
				return
			}
			errs := ms.Process()
			if ex.errAt >= 0 {
				if len(errs) == 0 {
					f = &fail{"invalid-member-accepted", fmt.Sprintf("error at member %d", ex.errAt), "no error from Process"}
					return
				}
				// the verdict on a type does not wear off: asked again (a second Process, or
				// GetModule, which processes), the same list must still be rejected
				if errs2 := ms.Process(); len(errs2) == 0 {
					f = &fail{"invalid-member-accepted@second-process", fmt.Sprintf("error at member %d, as in the first run", ex.errAt), "no error from the second Process"}
					return
				}
				if _, errs3 := ms.GetModule("m"); len(errs3) == 0 {
					f = &fail{"invalid-member-accepted@second-process", fmt.Sprintf("error at member %d, as in the first run", ex.errAt), "no error from GetModule after Process"}
				}
				return
			}
			if len(errs) > 0 {
				f = &fail{"valid-member-rejected", "no error", fmt.Sprint(errs)}
				return
			}
			if errs2 := ms.Process(); len(errs2) > 0 {
				f = &fail{"valid-member-rejected@second-process", "no error", fmt.Sprint(errs2)}
				return
			}
			l := yang.ToEntry(ms.Modules["m"]).Dir["l"]
			if l == nil || l.Type == nil {
				f = &fail{"no-leaf-type", "leaf with type", "nil"}
				return
			}
			e := l.Type.Enum
			if in.Bits {
				e = l.Type.Bit
			}
			f = compareType(in, e, ex.byName)
			// the tables of the leaves that reach the list through a typedef say the same, and a
			// table handed out by a processed tree goes on numbering where the list stopped: the
			// next automatic member gets one more than the highest value, or is refused
			root := yang.ToEntry(ms.Modules["m"])
			for _, ln := range []string{"via-typedef", "via-chain", "l"} {
				if f != nil {
					return
				}
				x := root.Dir[ln]
				if x == nil || x.Type == nil {
					f = &fail{"no-leaf-type", "leaf " + ln + " with type", "nil"}
					return
				}
				t := x.Type.Enum
				if in.Bits {
					t = x.Type.Bit
				}
				if pf := compareType(in, t, ex.byName); pf != nil {
					pf.fp += "@through-typedef"
					f = pf
					return
				}
				if ln == "via-typedef" {
					continue // (may be the very table of via-chain: extended once)
				}
				more := Input{Bits: in.Bits, Path: in.Path, Names: append(append([]string{}, in.Names...), "zz-next-"+ln), Values: append(append([]string{}, in.Values...), "")}
				mx := reference(more)
				err := t.SetNext("zz-next-" + ln)
				switch {
				case mx.errAt >= 0 && err == nil:
					f = &fail{"invalid-member-accepted@table-of-a-processed-leaf", "SetNext refused: the highest value is the maximum", fmt.Sprintf("accepted on leaf %s: %s", ln, fmtMap(t.NameMap()))}
				case mx.errAt < 0 && err != nil:
					f = &fail{"valid-member-rejected@table-of-a-processed-leaf", "SetNext accepted on leaf " + ln, err.Error()}
				case mx.errAt < 0:
					if pf := compareType(more, t, mx.byName); pf != nil {
						pf.fp += "@table-of-a-processed-leaf"
						f = pf
					}
				}
			}
		}
	})
	if pan {
		return &fail{"panic", "no panic", pt}
	}
	return f
}

// continueAfterRefusal goes on with the members from index i of rest (the list without the refused
// member) on the table e, which holds the members before i.
func continueAfterRefusal(e *yang.EnumType, rest Input, i int) *fail {
	for ; i < len(rest.Names); i++ {
		pre := Input{Bits: rest.Bits, Path: rest.Path, Names: rest.Names[:i+1], Values: rest.Values[:i+1]}
		ex := reference(pre)
		var err error
		if rest.Values[i] == "" {
			err = e.SetNext(rest.Names[i])
		} else {
			v, _ := new(big.Int).SetString(rest.Values[i], 10)
			err = e.Set(rest.Names[i], v.Int64())
		}
		if ex.errAt == i {
			if err == nil {
				return &fail{"invalid-member-accepted@after-a-refused-member", fmt.Sprintf("error at %q", rest.Names[i]), "nil"}
			}
			rest = Input{Bits: rest.Bits, Path: rest.Path, Names: append(append([]string{}, rest.Names[:i]...), rest.Names[i+1:]...), Values: append(append([]string{}, rest.Values[:i]...), rest.Values[i+1:]...)}
			i--
			continue
		}
		if err != nil {
			return &fail{"valid-member-rejected@after-a-refused-member", "nil (a refused member was assigned nothing)", fmt.Sprintf("%q: %v", rest.Names[i], err)}
		}
	}
	if pf := compareType(rest, e, reference(rest).byName); pf != nil {
		pf.fp += "@after-a-refused-member"
		return pf
	}
	return nil
}

func maxLen(tier, path string) int {
	if tier == "thorough" && path == "api" {
		return 5
	}
	return 4
}

func apiValue(v string) bool { // representable as int64 for the API path
	if v == "" {
		return true
	}
	b, _ := new(big.Int).SetString(v, 10)
	return b.IsInt64()
}

func shards(tier string) []string {
	var out []string
	for _, kind := range []string{"enum", "bits"} {
		for _, path := range []string{"text", "api"} {
			for a := range alphabet {
				out = append(out, fmt.Sprintf("%s/%s/%d", kind, path, a))
			}
			out = append(out, fmt.Sprintf("%s/%s/long", kind, path))
		}
	}
	return out
}

func run(c *core.Ctx) {
	var kind, path string
	var first int
	parts := strings.Split(c.Shard, "/")
	kind, path = parts[0], parts[1]
	fmt.Sscanf(parts[2], "%d", &first)
	L := maxLen(c.Tier, path)
	c.Res.Bound = fmt.Sprintf("member sequences of length <= %d over %d values incl. implicit x all patterns of repeated names; enums and bits; API and module text; 1..150 distinct enum and bits types in one schema followed by exact repeats of the first, middle and last; long lists: 1..300 implicit members alone and followed by an explicit repeat, and pairs with the same explicit value v for every v in 0..300 and around the powers of two to 2^32; every ordered pair of %d enum (%d bit) member names of awkward classes", L, len(alphabet), len(enumNames), len(bitNames))
	vals := make([]string, 0, L)
	names := make([]string, 0, L)
	var rec func()
	one := func() {
		in := Input{Bits: kind == "bits", Path: path, Names: append([]string{}, names...), Values: append([]string{}, vals...)}
		caseNo, run := c.Begin()
		if c.Skip(caseNo, run, in) {
			return
		}
		c.Exec()
		c.Validate()
		c.Edge(int64(len(names)))
		c.StateN(1)
		ex := reference(in)
		if len(names) > 1 {
			c.NontrivialN(1)
		}
		if f := check(in); f != nil {
			c.Outcome("FAIL:" + f.fp)
			c.Fail(caseNo, classes(in), f.fp, in, f.exp, f.obs)
		} else if ex.errAt >= 0 {
			c.Outcome("rejected-as-required")
		} else {
			c.Outcome("assigned-as-required")
		}
		if len(names) == L && first == 4 && ex.errAt < 0 {
			b, _ := json.Marshal(in)
			c.Sample(string(b))
		}
	}
	if parts[2] == "long" && kind == "enum" && path == "text" {
		for n := 1; n <= 150 && !c.Expired(); n++ {
			in := Input{Many: &ManyInput{N: n}}
			caseNo, run := c.Begin()
			if c.Skip(caseNo, run, in) {
				continue
			}
			c.Exec()
			c.Validate()
			c.Edge(int64(n))
			c.StateN(1)
			c.NontrivialN(1)
			if f := checkMany(*in.Many); f != nil {
				c.Outcome("FAIL:" + f.fp)
				c.Fail(caseNo, nil, f.fp, in, f.exp, f.obs)
			} else {
				c.Outcome("assigned-as-required")
			}
		}
	}
	if parts[2] == "long" && kind == "enum" && path == "text" {
		for _, mi := range confusable() {
			if c.Expired() {
				break
			}
			mi := mi
			in := Input{Many: &mi}
			caseNo, run := c.Begin()
			if c.Skip(caseNo, run, in) {
				continue
			}
			c.Exec()
			c.Validate()
			c.Edge(2)
			c.StateN(1)
			c.NontrivialN(1)
			if f := checkMany(mi); f != nil {
				c.Outcome("FAIL:" + f.fp)
				c.Fail(caseNo, nil, "confusable:"+f.fp, in, f.exp, f.obs)
			} else {
				c.Outcome("confusable-lists-kept-apart")
			}
		}
	}
	if parts[2] == "long" {
		// long member lists and values off the boundary grid: n implicit members (every n to 300)
		// alone, followed by an explicit member that repeats the value of the last one, of the
		// middle one, or takes the next free value; two members with the same explicit value v for
		// every v from 0 to 300 and around the powers of two to 2^32
		set := func(ns, vs []string) { names, vals = ns, vs; one() }
		for n := 1; n <= 300 && !c.Expired(); n++ {
			var ns, vs []string
			for i := 0; i < n; i++ {
				ns, vs = append(ns, fmt.Sprintf("n%d", i)), append(vs, "")
			}
			set(ns, vs)
			for _, v := range []int{n - 1, n / 2, n} {
				set(append(append([]string{}, ns...), "x"), append(append([]string{}, vs...), fmt.Sprint(v)))
				set(append(append([]string{}, ns...), "x", "y"), append(append([]string{}, vs...), fmt.Sprint(v), ""))
			}
		}
		var vsweep []int64
		for v := int64(0); v <= 300; v++ {
			vsweep = append(vsweep, v)
		}
		for p := int64(512); p <= 1<<32; p *= 2 {
			vsweep = append(vsweep, p-1, p, p+1)
		}
		// member names of every class the argument admits: an enum name is any string without
		// leading or trailing white space (interior blanks and tabs, digits only, signs, keywords,
		// quotes, characters outside ASCII, case variants), a bit name is an identifier. Every
		// ordered pair of them with four value patterns, and every name alone.
		awk := enumNames
		if kind == "bits" {
			awk = bitNames
		}
		for _, a := range awk {
			set([]string{a}, []string{""})
			set([]string{a}, []string{"7"})
			for _, b := range awk {
				for _, vp := range [][2]string{{"", ""}, {"5", ""}, {"", "5"}, {"3", "3"}} {
					set([]string{a, b}, []string{vp[0], vp[1]})
				}
				set([]string{"n0", a, b, "n3"}, []string{"", "", "", ""})
			}
		}
		for _, v := range vsweep {
			set([]string{"a", "b"}, []string{fmt.Sprint(v), fmt.Sprint(v)})
			set([]string{"a", "b", "c"}, []string{fmt.Sprint(v), "", fmt.Sprint(v + 1)})
			set([]string{"a", "b", "c"}, []string{fmt.Sprint(v + 1), fmt.Sprint(v), ""})
			if kind == "enum" && v > 0 {
				set([]string{"a", "b"}, []string{fmt.Sprint(-v), fmt.Sprint(-v)})
			}
		}
		return
	}
	rec = func() {
		if c.Expired() {
			return
		}
		if len(vals) > 0 {
			one()
		}
		if len(vals) == L {
			return
		}
		for ai, v := range alphabet {
			if len(vals) == 0 && ai != first {
				continue
			}
			if path == "api" && !apiValue(v) {
				continue
			}
			// name: fresh, or a repeat of an earlier one
			for r := -1; r < len(names); r++ {
				n := fmt.Sprintf("n%d", len(names))
				if r >= 0 {
					n = names[r]
					if r > 0 && names[r] == names[r-1] {
						continue
					}
				}
				vals = append(vals, v)
				names = append(names, n)
				rec()
				vals = vals[:len(vals)-1]
				names = names[:len(names)-1]
			}
		}
	}
	if path == "api" && !apiValue(alphabet[first]) {
		return
	}
	rec()
}

func replay(tier string, raw json.RawMessage) (bool, string, string) {
	var in Input
	if err := json.Unmarshal(raw, &in); err != nil {
		return false, "", err.Error()
	}
	if in.Many != nil {
		f := checkMany(*in.Many)
		if f == nil {
			return false, "", "every leaf has its own table"
		}
		return true, f.fp, fmt.Sprintf("expected %s observed %s", f.exp, f.obs)
	}
	f := check(in)
	if f == nil {
		return false, "", "agrees with the RFC rule"
	}
	return true, f.fp, fmt.Sprintf("expected %s observed %s (text: %s)", f.exp, f.obs, render(in))
}

func init() {
	core.Register(&core.Prop{
		ID: "C14", Variant: "plain", Shards: shards, Run: run, Replay: replay,
		Rule:        "every member sequence up to the length bound over the value alphabet {implicit, 0, 1, 7, -1, -5, int32 and uint32 extremes and their neighbours, 2^63, -(2^64-1)} with every pattern of fresh/repeated member names, for enumeration and bits, through NewEnumType/NewBitfield Set/SetNext and through module text + Process; the oracle is the RFC 7950 rule as a fold; after the first member the rule rejects only 'an error is reported' is required; states = distinct (kind, path, sequence); non-trivial = sequences of two or more members",
		Assumptions: []string{"a boundary alphabet stands in for the int64 value domain", "uniqueness of bit positions is not claimed by the property and not checked"},
	})
}
