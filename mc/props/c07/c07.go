// Package c07 decides C07: augments are applied exactly once, order-independently, or reported.
// The AUG family (1-3 augments: owner module x target x body, chains through nodes created by other
// augments, by uses, by a submodule, inside choice/case, rpc input/output written and unwritten,
// notification) is enumerated in all declaration and load orders and compared with the reference
// graft of package ir.
package c07

import (
	"encoding/json"
	"fmt"
	"sort"
	"strings"

	"github.com/openconfig/goyang/pkg/yang"
	"verif/mc/core"
	"verif/mc/dump"
	"verif/mc/explore"
	"verif/mc/gen/fam"
	"verif/mc/gen/ircmp"
	"verif/mc/props/scalekit"
)

type Input struct {
	Augs  []fam.AugSpec  `json:"augments"`
	Scale *scalekit.Case `json:"scale,omitempty"`
}

func toEntry(m *yang.Module) *yang.Entry { return yang.ToEntry(m) }

type fail struct{ fp, exp, obs string }

func check(augs []fam.AugSpec) (f *fail, wantErr bool, execs int) {
	w := fam.AugWorld(augs)
	w.Build()
	wantErr = len(w.MustError) > 0
	what := ircmp.What{Shape: true, NS: true, RO: true, Type: true}
	var first string
	pan, pt := core.Guard(func() {
		names := w.Order
		for _, p := range explore.Perms(len(names)) {
			var ord []string
			for _, i := range p {
				ord = append(ord, names[i])
			}
			execs++
			ms, lerr, errs := ircmp.Load(w, ord)
			if lerr != nil {
				f = &fail{"load-error", "loads", lerr.Error()}
				return
			}
			switch {
			case wantErr && len(errs) == 0:
				f = &fail{"inapplicable-augment-not-reported", "an error: " + strings.Join(w.MustError, "; "), "no error (load order " + strings.Join(ord, ",") + ")"}
				return
			case !wantErr && len(errs) > 0:
				f = &fail{"spurious-errors", "no errors", dump.Errors(errs) + "(load order " + strings.Join(ord, ",") + ")"}
				return
			case wantErr:
				continue
			}
			if d := ircmp.Compare(w.Trees["a"], yang.ToEntry(ms.Modules["a"]), what); len(d) > 0 {
				f = &fail{"tree-differs-from-reference-graft", "the reference tree", strings.Join(d, "\n") + "\n(load order " + strings.Join(ord, ",") + ")"}
				return
			}
			var sb strings.Builder
			dump.Entry(&sb, yang.ToEntry(ms.Modules["a"]), "", dump.Options{}, map[*yang.Entry]bool{})
			if first == "" {
				first = sb.String()
				// the trees dropped and the augments applied again by hand, with the calls a
				// processing run makes (Augment in rounds, FixChoice, the stragglers): the same graft
				if p := byHand(ms); p != "" {
					f = &fail{"augments-applied-by-hand-after-ClearEntryCache", "no errors", p}
					return
				}
				if d := ircmp.Compare(w.Trees["a"], yang.ToEntry(ms.Modules["a"]), what); len(d) > 0 {
					f = &fail{"tree-differs-from-reference-graft:applied-by-hand-after-ClearEntryCache", "the reference tree", strings.Join(d, "\n")}
					return
				}
			} else if sb.String() != first {
				f = &fail{"outcome-depends-on-load-order", first, sb.String()}
				return
			}
		}
	})
	if pan {
		return &fail{"panic@" + core.LastPanicSite, "no panic", pt}, wantErr, execs
	}
	return f, wantErr, execs
}

// byHand drops the entry trees and applies the augments as Modules.Process does.
func byHand(ms *yang.Modules) string {
	ms.ClearEntryCache()
	var mods []*yang.Module
	seen := map[*yang.Module]bool{}
	for _, mm := range []map[string]*yang.Module{ms.Modules, ms.SubModules} {
		var ks []string
		for k := range mm {
			ks = append(ks, k)
		}
		sort.Strings(ks)
		for _, k := range ks {
			if !seen[mm[k]] {
				seen[mm[k]] = true
				mods = append(mods, mm[k])
			}
		}
	}
	all := append([]*yang.Module{}, mods...)
	for len(mods) > 0 {
		processed := 0
		for i := 0; i < len(mods); {
			p, s := yang.ToEntry(mods[i]).Augment(false)
			processed += p
			if s == 0 {
				mods[i] = mods[len(mods)-1]
				mods = mods[:len(mods)-1]
				continue
			}
			i++
		}
		if processed == 0 {
			break
		}
	}
	for _, m := range all {
		yang.ToEntry(m).FixChoice()
	}
	for _, m := range mods {
		yang.ToEntry(m).Augment(true)
	}
	for _, m := range all {
		yang.ToEntry(m).FixChoice()
	}
	for _, m := range all {
		if errs := yang.ToEntry(m).GetErrors(); len(errs) > 0 {
			return m.Name + ": " + dump.Errors(errs)
		}
	}
	return ""
}

const nShards = 32

func shards(tier string) []string {
	var out []string
	for i := 0; i < nShards; i++ {
		out = append(out, fmt.Sprintf("aug/%d", i))
	}
	return append(out, scalekit.ShardNames()...)
}

func run(c *core.Ctx) {
	var shard int
	if strings.HasPrefix(c.Shard, "scale/") {
		scalekit.Run(c, c.Shard, scaleCases(c.Tier), checkScale, func(cs scalekit.Case) any { return Input{Scale: &cs} })
		return
	}
	fmt.Sscanf(c.Shard, "aug/%d", &shard)
	c.Res.Bound = fmt.Sprintf("augment = owner {a, submodule as, b, c} x %d targets (containers, list, choice, case, leaf, leaf-list, rpc input/output written and unwritten, notification, node from uses, node in a submodule, nodes created by other augments, missing) x %d bodies (leaf, container, colliding name, two leaves, uses, case, nested containers); all single augments, an eleventh (thorough: half) of all ordered pairs, chains of three in 4 declaration orders x 64 owner assignments; every load order of the 2-4 files; scale: an augment and a chained one on a target 0..40 (70) containers deep and on a container with 1..40, 63..65, 127..129, 255..257 children, 2 load orders", len(fam.AugTargets), fam.AugBodies)
	i := 0
	one := func(augs []fam.AugSpec) {
		i++
		if (i-1)%nShards != shard || c.Expired() {
			return
		}
		caseNo, run := c.Begin()
		if c.Skip(caseNo, run, Input{Augs: augs}) {
			return
		}
		f, wantErr, execs := check(augs)
		c.Execs(int64(execs))
		c.Validates(int64(execs))
		c.Edge(int64(execs * len(augs)))
		c.StateN(1)
		if len(augs) > 1 {
			c.NontrivialN(1)
		}
		in := Input{Augs: augs}
		switch {
		case f != nil:
			c.Outcome("FAIL:" + f.fp)
			c.Fail(caseNo, classes(augs), f.fp, in, f.exp, f.obs)
		case wantErr:
			c.Outcome("reported-as-required")
		default:
			c.Outcome("grafted-as-reference")
			if i%997 == 11 {
				b, _ := json.Marshal(in)
				c.Sample(string(b))
			}
		}
	}
	fam.AUG(c.Tier, one)
	if shard == 0 {
		fam.AUGKnown(func(augs []fam.AugSpec) { i = 0; one(augs) })
	}
}

// impliedClass: the target is a shorthand choice member that holds a directory of its own name,
// addressed through its implied case (RFC 7950 7.9.2).
func classes(augs []fam.AugSpec) []string {
	for _, a := range augs {
		for _, t := range fam.AugTargetsKnown {
			if a.Target == t {
				return []string{"rfc-path-through-implied-case-of-a-member-holding-a-directory-of-its-name"}
			}
		}
	}
	return nil
}

func replay(tier string, raw json.RawMessage) (bool, string, string) {
	var in Input
	if err := json.Unmarshal(raw, &in); err != nil {
		return false, "", err.Error()
	}
	if in.Scale != nil {
		v := checkScale(*in.Scale)
		return v.Fp != "", "scale:" + v.Fp, fmt.Sprintf("expected %s\nobserved %s", v.Exp, v.Obs)
	}
	f, _, _ := check(in.Augs)
	if f == nil {
		return false, "", "as required"
	}
	w := fam.AugWorld(in.Augs)
	var texts []string
	for _, n := range w.Order {
		texts = append(texts, w.Mods[n].Text())
	}
	return true, f.fp, fmt.Sprintf("expected %s\nobserved %s\nmodules:\n%s", f.exp, f.obs, strings.Join(texts, "\n"))
}

func init() {
	core.Register(&core.Prop{
		ID: "C07", Variant: "plain", Shards: shards, Run: run, Replay: replay,
		Rule:        "AUG family over a base module a (with submodule as) and augmenting modules b, c: every single augment, a fixed fraction of all ordered pairs (both declaration orders inside one module occur), and three-augment chains whose later targets are created by earlier augments, in every load order of the files. The reference (package ir) grafts applicable augments to a fixpoint, stamps the augmenting module on grafted nodes and descendants, inserts implicit cases afterwards, and predicts an error for a missing target, a target that cannot have children (leaf, leaf-list) and a child-name collision. Compared: error/no error, and on success the whole tree of a (names, kinds, types, read-only, namespace, instantiating module, parent links, no missing/extra/duplicated node), plus equality of the dumped tree across load orders. states = distinct augment lists",
		Assumptions: []string{"the implicit case of a shorthand choice member is not used as a target and its own namespace is not compared (outside the claim)", "an augment of the rpc/action node itself is left out of the alphabet", "the reference graft of package ir"},
	})
}
