package c07

import (
	"fmt"
	"github.com/openconfig/goyang/pkg/yang"
	"strings"

	"verif/mc/dump"
	"verif/mc/gen/scale"
	"verif/mc/props/scalekit"
)

// scale: an augment (and one chained onto what it grafts) whose target lies n containers deep, for
// every n up to the bound; a container with n children as the target.

func scaleCases(tier string) []scalekit.Case {
	max := 40
	if tier == "thorough" {
		max = 70
	}
	var out []scalekit.Case
	for n := 0; n <= max; n++ {
		out = append(out, scalekit.Case{Shape: "deep-target", N: n})
	}
	for _, n := range scale.Sizes(40, 257) {
		out = append(out, scalekit.Case{Shape: "wide-target", N: n})
	}
	for _, n := range scale.Sizes(40, 129) {
		out = append(out, scalekit.Case{Shape: "many-augments", N: n})
	}
	for n := 1; n <= 24; n++ {
		out = append(out, scalekit.Case{Shape: "two-revisions-many-imports", N: n})
	}
	// n loaded revisions of an augmenting module crossed with the augments only the last round settles
	// (variant bits: 1 into the implied case of a shorthand leaf, 2 a missing target, 4 a leaf as target)
	for n := 1; n <= 5; n++ {
		for v := 1; v < 8; v++ {
			out = append(out, scalekit.Case{Shape: "revisions-with-last-round-augments", N: n, V: v})
		}
	}
	// n loaded revisions of the TARGET module, each augmented by a module of its own that pins it by
	// revision-date (variant bits: 1 a valid augment, 2 one that collides with a child the target has,
	// 4 a second augmenting module that collides with what the first one grafts)
	for n := 1; n <= 4; n++ {
		for v := 1; v < 8; v++ {
			out = append(out, scalekit.Case{Shape: "augments-into-pinned-revisions-of-the-target", N: n, V: v})
		}
	}
	return out
}

// augments-into-pinned-revisions-of-the-target: whichever revision of the target a module pins, its
// augment is applied to the tree of that revision and of no other, and a collision there is reported.
func checkPinnedTargets(cs scalekit.Case) scalekit.Verdict {
	var files []dump.File
	date := func(r int) string { return fmt.Sprintf("202%d-01-01", r) }
	for r := 0; r < cs.N; r++ {
		files = append(files, dump.File{Name: fmt.Sprintf("a@%s.yang", date(r)), Text: fmt.Sprintf(`module a { namespace "urn:a"; prefix a; revision %s; container top { leaf own { type string; } leaf only%d { type string; } } }`, date(r), r)})
	}
	for r := 0; r < cs.N; r++ {
		var sb strings.Builder
		fmt.Fprintf(&sb, `module u%d { namespace "urn:u%d"; prefix u%d; import a { prefix a; revision-date %s; }`, r, r, r, date(r))
		if cs.V&1 != 0 {
			fmt.Fprintf(&sb, ` augment /a:top { leaf x%d { type string; } }`, r)
		}
		if cs.V&2 != 0 {
			sb.WriteString(` augment /a:top { leaf own { type string; } }`)
		}
		if cs.V&4 != 0 {
			fmt.Fprintf(&sb, ` augment /a:top { leaf shared%d { type string; } }`, r)
		}
		sb.WriteString(" }")
		files = append(files, dump.File{Name: fmt.Sprintf("u%d.yang", r), Text: sb.String()})
		if cs.V&4 != 0 {
			files = append(files, dump.File{Name: fmt.Sprintf("w%d.yang", r), Text: fmt.Sprintf(`module w%d { namespace "urn:w%d"; prefix w%d; import a { prefix a; revision-date %s; } augment /a:top { leaf shared%d { type int8; } } }`, r, r, r, date(r), r)})
		}
	}
	for _, rev := range []bool{false, true} {
		ms, errs, lerr := scalekit.Load(files, rev)
		if lerr != nil {
			return scalekit.Bad("load-error", "loads", lerr.Error())
		}
		all := dump.Errors(errs)
		if cs.V&6 == 0 && len(errs) > 0 {
			return scalekit.Bad("spurious-errors", "no errors", all)
		}
		for r := 0; r < cs.N; r++ {
			if cs.V&2 != 0 {
				found := false
				for _, e := range errs {
					found = found || (strings.Contains(e.Error(), fmt.Sprintf("u%d.yang", r)) && strings.Contains(e.Error(), "own"))
				}
				if !found {
					return scalekit.Bad("collision-in-a-pinned-revision-not-reported", fmt.Sprintf("an error about the augment of u%d.yang that adds a second leaf own to top of a@%s", r, date(r)), all)
				}
			}
			if cs.V&4 != 0 {
				found := false
				for _, e := range errs {
					found = found || ((strings.Contains(e.Error(), fmt.Sprintf("u%d.yang", r)) || strings.Contains(e.Error(), fmt.Sprintf("w%d.yang", r))) && strings.Contains(e.Error(), fmt.Sprintf("shared%d", r)))
				}
				if !found {
					return scalekit.Bad("collision-of-two-augments-in-a-pinned-revision-not-reported", fmt.Sprintf("an error about leaf shared%d, which u%d.yang and w%d.yang both add to top of a@%s", r, r, r, date(r)), all)
				}
			}
		}
		if len(errs) > 0 {
			continue
		}
		for r := 0; r < cs.N; r++ {
			top := scalekit.Down(toEntry(ms.Modules["a@"+date(r)]), "top")
			if top == nil {
				return scalekit.Bad("target-vanished", "top of a@"+date(r), "nil")
			}
			for q := 0; q < cs.N; q++ {
				if has := top.Dir[fmt.Sprintf("x%d", q)] != nil; has != (q == r) {
					return scalekit.Bad("augment-applied-to-the-wrong-revision", fmt.Sprintf("leaf x%d in top of a@%s: %v", q, date(r), q == r), fmt.Sprint(has))
				}
			}
			if x := top.Dir[fmt.Sprintf("x%d", r)]; x.Namespace() == nil || x.Namespace().Name != fmt.Sprintf("urn:u%d", r) {
				return scalekit.Bad("grafted-node-namespace", fmt.Sprintf("urn:u%d", r), fmt.Sprint(x.Namespace()))
			}
			if len(top.Dir) != 3 {
				return scalekit.Bad("target-children", fmt.Sprintf("own only%d x%d", r, r), fmt.Sprint(len(top.Dir)))
			}
		}
	}
	return scalekit.OK()
}

func checkManyAugments(cs scalekit.Case) scalekit.Verdict {
	files := scale.ManyAugments(cs.N)
	for _, rev := range []bool{false, true} {
		ms, errs, lerr := scalekit.Load(files, rev)
		if lerr != nil || len(errs) > 0 {
			return scalekit.Bad("augment-of-an-existing-target-reported", "no errors", fmt.Sprint(lerr, dump.Errors(errs)))
		}
		top := toEntry(ms.Modules["b"]).Dir["top"]
		if len(top.Dir) != 1+2*cs.N {
			return scalekit.Bad("augments-not-applied-once-each", fmt.Sprintf("%d children of top", 1+2*cs.N), fmt.Sprint(len(top.Dir)))
		}
		for i := 0; i < cs.N; i++ {
			ns := fmt.Sprintf("urn:x%d", i)
			for _, path := range [][]string{{fmt.Sprintf("l%d", i)}, {fmt.Sprintf("c%d", i)}, {fmt.Sprintf("c%d", i), "in"}} {
				e := scalekit.Down(top, path...)
				if e == nil {
					return scalekit.Bad("augment-not-applied", fmt.Sprint(path), "missing")
				}
				if n := e.Namespace(); n == nil || n.Name != ns {
					return scalekit.Bad("grafted-node-namespace", ns, fmt.Sprint(n))
				}
			}
			if i+1 < cs.N {
				e := scalekit.Down(top, fmt.Sprintf("c%d", i), fmt.Sprintf("chained%d", i+1))
				if e == nil {
					return scalekit.Bad("chained-augment-not-applied", fmt.Sprintf("c%d/chained%d", i, i+1), "missing")
				}
				if n := e.Namespace(); n == nil || n.Name != fmt.Sprintf("urn:x%d", i+1) {
					return scalekit.Bad("grafted-node-namespace", fmt.Sprintf("urn:x%d", i+1), fmt.Sprint(n))
				}
			}
		}
	}
	return scalekit.OK()
}

// two revisions of a module, each with n imports and an augment through the last prefix, which the
// older revision binds to lib(n) and the newer one to another module
func checkTwoRevisions(cs scalekit.Case) scalekit.Verdict {
	n := cs.N
	var files []dump.File
	for i := 1; i <= n; i++ {
		files = append(files, dump.File{Name: fmt.Sprintf("lib%d.yang", i), Text: fmt.Sprintf(`module lib%d { namespace "urn:lib%d"; prefix l; container c; }`, i, i)})
	}
	files = append(files, dump.File{Name: "other.yang", Text: `module other { namespace "urn:other"; prefix o; container c; }`})
	rev := func(date, last, leaf string) dump.File {
		var sb strings.Builder
		fmt.Fprintf(&sb, `module t { namespace "urn:t"; prefix t; `)
		for i := 1; i < n; i++ {
			fmt.Fprintf(&sb, "import lib%d { prefix p%d; } ", i, i)
		}
		fmt.Fprintf(&sb, "import %s { prefix p%d; } revision %s; augment /p%d:c { leaf %s { type string; } } }", last, n, date, n, leaf)
		return dump.File{Name: "t@" + date + ".yang", Text: sb.String()}
	}
	files = append(files, rev("2020-01-01", fmt.Sprintf("lib%d", n), "from-old"), rev("2021-01-01", "other", "from-new"))
	for _, reverse := range []bool{false, true} {
		ms, errs, lerr := scalekit.Load(files, reverse)
		if lerr != nil || len(errs) > 0 {
			return scalekit.Bad("augment-of-an-existing-target-reported", "no errors", fmt.Sprint(lerr, dump.Errors(errs)))
		}
		oldC := toEntry(ms.Modules[fmt.Sprintf("lib%d", n)]).Dir["c"]
		newC := toEntry(ms.Modules["other"]).Dir["c"]
		if oldC.Dir["from-old"] == nil || len(oldC.Dir) != 1 {
			return scalekit.Bad("augment-grafted-elsewhere", fmt.Sprintf("/lib%d:c holds exactly from-old", n), fmt.Sprint(len(oldC.Dir), oldC.Dir["from-old"] != nil))
		}
		if newC.Dir["from-new"] == nil || len(newC.Dir) != 1 {
			return scalekit.Bad("augment-grafted-elsewhere", "/other:c holds exactly from-new", fmt.Sprint(len(newC.Dir), newC.Dir["from-new"] != nil))
		}
	}
	return scalekit.OK()
}

// revisions-with-last-round-augments: every loaded revision is a module of its own; its augment into
// the implied case is applied, its inapplicable augments are reported.
func checkRevisionAugments(cs scalekit.Case) scalekit.Verdict {
	files := []dump.File{{Name: "a.yang", Text: `module a { namespace "urn:a"; prefix a; container top { choice ch { leaf m { type string; } container sc { leaf in { type string; } } } leaf tl { type string; } } }`}}
	for r := 0; r < cs.N; r++ {
		var sb strings.Builder
		fmt.Fprintf(&sb, `module b { namespace "urn:b"; prefix b; import a { prefix a; } revision 202%d-01-01;`, r)
		if cs.V&1 != 0 {
			fmt.Fprintf(&sb, ` augment /a:top/a:ch/a:m { leaf x%d { type string; } }`, r)
		}
		if cs.V&2 != 0 {
			fmt.Fprintf(&sb, ` augment /a:top/a:nope { leaf y%d { type string; } }`, r)
		}
		if cs.V&4 != 0 {
			fmt.Fprintf(&sb, ` augment /a:top/a:tl { leaf z%d { type string; } }`, r)
		}
		sb.WriteString(" }")
		files = append(files, dump.File{Name: fmt.Sprintf("b-202%d.yang", r), Text: sb.String()})
	}
	for _, rev := range []bool{false, true} {
		ms, errs, lerr := scalekit.Load(files, rev)
		if lerr != nil {
			return scalekit.Bad("load-error", "loads", lerr.Error())
		}
		all := dump.Errors(errs)
		if cs.V&6 == 0 && len(errs) > 0 {
			return scalekit.Bad("spurious-errors", "no errors", all)
		}
		for r := 0; r < cs.N; r++ {
			fn := fmt.Sprintf("b-202%d.yang", r)
			for _, bad := range []struct {
				bit  int
				path string
			}{{2, ":nope"}, {4, ":tl"}} { // (the last step: prefixes may be respelt by the crossing)
				if cs.V&bad.bit == 0 {
					continue
				}
				found := false
				for _, e := range errs {
					if strings.Contains(e.Error(), fn) && strings.Contains(e.Error(), bad.path) {
						found = true
					}
				}
				if !found {
					return scalekit.Bad("inapplicable-augment-of-a-revision-not-reported", fmt.Sprintf("an error about augment %s of %s", bad.path, fn), all)
				}
			}
		}
		if len(errs) > 0 {
			continue
		}
		cs0 := scalekit.Down(yang.ToEntry(ms.Modules["a"]), "top", "ch", "m")
		for r := 0; r < cs.N; r++ {
			if cs0 == nil || cs0.Dir[fmt.Sprintf("x%d", r)] == nil {
				return scalekit.Bad("augment-of-a-revision-not-applied", fmt.Sprintf("leaf x%d in the implied case m", r), "missing")
			}
		}
	}
	return scalekit.OK()
}

func checkScale(cs scalekit.Case) scalekit.Verdict {
	if cs.Shape == "revisions-with-last-round-augments" {
		return checkRevisionAugments(cs)
	}
	if cs.Shape == "augments-into-pinned-revisions-of-the-target" {
		return checkPinnedTargets(cs)
	}
	if cs.Shape == "many-augments" {
		return checkManyAugments(cs)
	}
	if cs.Shape == "two-revisions-many-imports" {
		return checkTwoRevisions(cs)
	}
	var files []dump.File
	var path []string
	switch cs.Shape {
	case "deep-target":
		tp := scale.DeepPath("b", cs.N)
		u := `module u { yang-version 1.1; namespace "urn:u"; prefix u; import b { prefix b; } augment ` + tp + `/u:gc { leaf chained { type string; } } augment ` + tp + ` { leaf grafted { type string; } container gc { leaf gl { type int8; } } } }`
		files = []dump.File{scale.Deep(cs.N), {Name: "u.yang", Text: u}}
		path = scale.DeepNames(cs.N)
	case "wide-target":
		fs := scale.Wide(cs.N)
		files = []dump.File{fs[0], {Name: "u.yang", Text: `module u { yang-version 1.1; namespace "urn:u"; prefix u; import w { prefix b; } augment /b:plain/u:gc { leaf chained { type string; } } augment /b:plain { leaf grafted { type string; } container gc { leaf gl { type int8; } } } }`}}
		path = []string{"plain"}
	}
	for _, rev := range []bool{false, true} {
		ms, errs, lerr := scalekit.Load(files, rev)
		if lerr != nil {
			return scalekit.Bad("load-error", "loads", lerr.Error())
		}
		if len(errs) > 0 {
			return scalekit.Bad("augment-of-an-existing-target-reported", "no errors", dump.Errors(errs))
		}
		var root = ms.Modules["b"]
		if cs.Shape == "wide-target" {
			root = ms.Modules["w"]
		}
		t := scalekit.Down(toEntry(root), path...)
		if t == nil {
			return scalekit.Bad("target-vanished", fmt.Sprint(path), "nil")
		}
		for _, want := range [][]string{{"grafted"}, {"gc"}, {"gc", "gl"}, {"gc", "chained"}} {
			e := scalekit.Down(t, want...)
			if e == nil {
				return scalekit.Bad("augment-not-applied", fmt.Sprintf("%v below %v", want, path), "missing")
			}
			if ns := e.Namespace(); ns == nil || ns.Name != "urn:u" {
				return scalekit.Bad("grafted-node-namespace", "urn:u", fmt.Sprint(ns))
			}
		}
		if cs.Shape == "deep-target" {
			for _, keep := range []string{"x", "li", "other"} {
				if t.Dir[keep] == nil {
					return scalekit.Bad("target-lost-a-child", keep, "missing")
				}
			}
			if len(t.Dir) != 5 {
				return scalekit.Bad("target-children", "x li other grafted gc", fmt.Sprint(len(t.Dir)))
			}
		}
	}
	return scalekit.OK()
}
