//go:build verif

// Package order gives harnesses control over the iteration order of the library's maps when the
// worker is linked against the instrumented copy (build tag verif); otherwise it is inert.
package order

import (
	"sort"

	"github.com/openconfig/goyang/pkg/verifrt"
)

// Active reports whether map iteration order is owned by the harness in this build.
func Active() bool { return true }

// Install sets the controller asked at every range over a map with >= 2 keys (nil: canonical order).
func Install(f func(n int, site string) int) { verifrt.Choose = f }

// Instances returns the number of controlled range statements executed so far.
func Instances() int64 { return verifrt.Instances }

// NonCanonical lists key types without a canonical order.
func NonCanonical() []string {
	var out []string
	for k := range verifrt.NonCanonical {
		out = append(out, k)
	}
	sort.Strings(out)
	return out
}
