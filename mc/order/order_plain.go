//go:build !verif

// Package order gives harnesses control over the iteration order of the library's maps when the
// worker is linked against the instrumented copy (build tag verif); otherwise it is inert.
package order

func Active() bool                           { return false }
func Install(f func(n int, site string) int) {}
func Instances() int64                       { return 0 }
func NonCanonical() []string                 { return nil }
