// Package explore is the stateless choice-tree explorer: a body calls x.Choose(n) wherever it (or
// the instrumented library underneath it) has n alternatives; DFS re-runs the body with every
// prefix of choices within a deviation bound. Choice 0 is the default answer at every point.
package explore

import "fmt"

// X is one execution of a body.
type X struct {
	prefix     []int
	Choices    []int
	Widths     []int
	Free       []bool // alternatives at this point cost no deviation
	Labels     []string
	KeepLabels bool
}

// Divergence is the panic value raised when a replayed choice does not fit the point reached.
type Divergence struct{ At, Choice, Width int }

func (d Divergence) Error() string {
	return fmt.Sprintf("replay divergence at point %d: choice %d of %d", d.At, d.Choice, d.Width)
}

func (x *X) choose(n int, free bool, label string) int {
	if n <= 1 {
		return 0
	}
	i := len(x.Choices)
	c := 0
	if i < len(x.prefix) {
		c = x.prefix[i]
		if c >= n || c < 0 {
			panic(Divergence{i, c, n})
		}
	}
	x.Choices = append(x.Choices, c)
	x.Widths = append(x.Widths, n)
	x.Free = append(x.Free, free)
	if x.KeepLabels {
		x.Labels = append(x.Labels, label)
	}
	return c
}

// Choose returns one of n alternatives; a non-zero answer costs one deviation.
func (x *X) Choose(n int, label string) int { return x.choose(n, false, label) }

// ChooseFree returns one of n alternatives at no deviation cost (e.g. the running thread blocked).
func (x *X) ChooseFree(n int, label string) int { return x.choose(n, true, label) }

// New returns an execution that replays prefix and answers 0 afterwards.
func New(prefix []int) *X { return &X{prefix: prefix} }

// Stats of one DFS.
type Stats struct {
	Executions int64
	Edges      int64 // choice edges followed (sum of path lengths is not used: every new branch is one edge)
	MaxPoints  int
	Pruned     int64 // alternatives not taken because of the bound
}

// DFS explores every choice sequence with at most bound deviations (bound < 0: unbounded).
// body builds and checks one execution; stop (may be nil) is polled between executions.
// after is called with every finished execution.
func DFS(bound int, body func(x *X), after func(x *X), stop func() bool) (st Stats, complete bool) {
	complete = true
	var rec func(prefix []int, devs int)
	rec = func(prefix []int, devs int) {
		if stop != nil && stop() {
			complete = false
			return
		}
		x := New(prefix)
		body(x)
		st.Executions++
		if len(x.Choices) > st.MaxPoints {
			st.MaxPoints = len(x.Choices)
		}
		if len(x.Choices) < len(prefix) {
			panic(fmt.Sprintf("replay divergence: execution ended after %d points, prefix has %d", len(x.Choices), len(prefix)))
		}
		if after != nil {
			after(x)
		}
		for i := len(prefix); i < len(x.Choices); i++ {
			cost := 1
			if x.Free[i] {
				cost = 0
			}
			if bound >= 0 && devs+cost > bound {
				st.Pruned += int64(x.Widths[i] - 1)
				continue
			}
			for alt := 1; alt < x.Widths[i]; alt++ {
				p := make([]int, i+1)
				copy(p, x.Choices[:i])
				p[i] = alt
				st.Edges++
				rec(p, devs+cost)
				if !complete {
					return
				}
			}
		}
	}
	rec(nil, 0)
	return
}

// Perms returns all permutations of 0..n-1 in lexicographic order (identity first).
func Perms(n int) [][]int {
	var out [][]int
	p := make([]int, n)
	used := make([]bool, n)
	var rec func(k int)
	rec = func(k int) {
		if k == n {
			out = append(out, append([]int{}, p...))
			return
		}
		for i := 0; i < n; i++ {
			if !used[i] {
				used[i] = true
				p[k] = i
				rec(k + 1)
				used[i] = false
			}
		}
	}
	rec(0)
	return out
}
